//! CLI project runner: materialises a project in a scratch directory, runs the real `nitrogql-cli`
//! binary (built from /repo's working tree), and records exit status, stdout, stderr and the
//! difference of the directory tree.  No interpretation of any of it.
use crate::util::*;
use serde_json::{Value, json};
use std::collections::BTreeMap;
use std::path::{Path, PathBuf};
use std::process::{Command, Stdio};

fn walk(dir: &Path, base: &Path, out: &mut BTreeMap<String, Vec<u8>>) {
    let Ok(rd) = std::fs::read_dir(dir) else { return };
    for e in rd.flatten() {
        let p = e.path();
        if p.is_dir() {
            walk(&p, base, out);
        } else if let Ok(b) = std::fs::read(&p) {
            out.insert(p.strip_prefix(base).unwrap().to_string_lossy().to_string(), b);
        }
    }
}

pub struct CliRun {
    /// stage events written by the cfg(nitrogql_verif) hook of the CLI (one JSON value per stage), in order
    pub stages: Vec<Value>,
    pub exit: i32,
    pub signal: bool,
    pub stdout: String,
    pub stderr: String,
    pub before: BTreeMap<String, Vec<u8>>,
    pub after: BTreeMap<String, Vec<u8>>,
    pub dir: PathBuf,
}

/// files: relative path -> content. args: CLI arguments. The project directory is removed by the caller.
pub fn run_project(cli: &str, dir: &Path, files: &[(String, String)], args: &[String], timeout_s: u64) -> CliRun {
    let _ = std::fs::remove_dir_all(dir);
    std::fs::create_dir_all(dir).unwrap();
    for (rel, text) in files {
        let p = dir.join(rel);
        std::fs::create_dir_all(p.parent().unwrap()).unwrap();
        std::fs::write(&p, text).unwrap();
    }
    run_prepared(cli, dir, args, timeout_s)
}

/// Runs the CLI in a project directory as it stands (e.g. a second run over the outputs of a first one).
pub fn run_prepared(cli: &str, dir: &Path, args: &[String], timeout_s: u64) -> CliRun {
    let mut before = BTreeMap::new();
    walk(dir, dir, &mut before);
    // the stage trace lives OUTSIDE the project directory (the directory is diffed before / after)
    let trace_path = dir.with_extension("stages");
    let _ = std::fs::remove_file(&trace_path);
    let mut child = Command::new(cli)
        .args(args)
        .current_dir(dir)
        .env("NITROGQL_VERIF_TRACE", &trace_path)
        .env_remove("RUST_LOG")
        .env("NO_COLOR", "1")
        .stdin(Stdio::null())
        .stdout(Stdio::piped())
        .stderr(Stdio::piped())
        .spawn()
        .expect("spawn nitrogql-cli");
    // watchdog
    let pid = child.id();
    let done = std::sync::Arc::new(std::sync::atomic::AtomicBool::new(false));
    let d2 = done.clone();
    let wd = std::thread::spawn(move || {
        let t0 = std::time::Instant::now();
        while t0.elapsed().as_secs() < timeout_s {
            if d2.load(std::sync::atomic::Ordering::SeqCst) {
                return false;
            }
            std::thread::sleep(std::time::Duration::from_millis(20));
        }
        unsafe {
            libc_kill(pid as i32);
        }
        true
    });
    let out = child.wait_with_output().expect("wait");
    done.store(true, std::sync::atomic::Ordering::SeqCst);
    let timed_out = wd.join().unwrap_or(false);
    let mut after = BTreeMap::new();
    walk(dir, dir, &mut after);
    let stages: Vec<Value> = std::fs::read_to_string(&trace_path)
        .map(|t| t.lines().filter_map(|l| serde_json::from_str::<Value>(l).ok()).collect())
        .unwrap_or_default();
    let _ = std::fs::remove_file(&trace_path);
    CliRun {
        stages,
        exit: if timed_out { -2 } else { out.status.code().unwrap_or(-1) },
        signal: out.status.code().is_none(),
        stdout: String::from_utf8_lossy(&out.stdout).into_owned(),
        stderr: String::from_utf8_lossy(&out.stderr).into_owned(),
        before,
        after,
        dir: dir.to_path_buf(),
    }
}

unsafe extern "C" {
    fn kill(pid: i32, sig: i32) -> i32;
}
unsafe fn libc_kill(pid: i32) {
    unsafe {
        kill(pid, 9);
    }
}

impl CliRun {
    /// files created or changed by the run: relative path -> text
    pub fn written(&self) -> BTreeMap<String, String> {
        self.after
            .iter()
            .filter(|(k, v)| self.before.get(*k) != Some(*v))
            .map(|(k, v)| (k.clone(), String::from_utf8_lossy(v).into_owned()))
            .collect()
    }
    pub fn deleted(&self) -> Vec<String> {
        self.before.keys().filter(|k| !self.after.contains_key(*k)).cloned().collect()
    }
    pub fn panicked(&self) -> bool {
        self.stderr.contains("panicked at")
    }
    pub fn to_json(&self, include_texts: bool) -> Value {
        let written = self.written();
        json!({
            "exit": self.exit, "signal": self.signal, "panicked": self.panicked(),
            "stdout": self.stdout, "stderr": self.stderr.chars().take(4000).collect::<String>(),
            "written": written.keys().collect::<Vec<_>>(), "deleted": self.deleted(), "stages": self.stages,
            "texts": if include_texts { json!(written) } else { json!({}) },
        })
    }
}

/// cliproj <cli-binary> <cases.ndjson> <events.ndjson> <scratch-dir>
/// case: {id, files: [{rel, text}], args: [..]}  -> event {ev: "CliRun", id, ...}
pub fn run(args: &[String]) -> i32 {
    let cli = args[0].clone();
    let cases = std::sync::Arc::new(read_ndjson(&args[1]));
    let out = std::sync::Arc::new(std::sync::Mutex::new(Out::create(&args[2])));
    let scratch = PathBuf::from(&args[3]);
    let workers: usize = args.get(4).and_then(|w| w.parse().ok()).unwrap_or(8);
    let next = std::sync::Arc::new(std::sync::Mutex::new(0usize));
    let mut hs = vec![];
    for w in 0..workers {
        let (cases, out, next, cli, scratch) = (cases.clone(), out.clone(), next.clone(), cli.clone(), scratch.clone());
        hs.push(std::thread::spawn(move || loop {
            let i = {
                let mut n = next.lock().unwrap();
                let i = *n;
                *n += 1;
                i
            };
            if i >= cases.len() {
                break;
            }
            let c = &cases[i];
            let files: Vec<(String, String)> = c["files"]
                .as_array()
                .unwrap()
                .iter()
                .map(|f| (f["rel"].as_str().unwrap().to_string(), f["text"].as_str().unwrap().to_string()))
                .collect();
            let a = strs(&c["args"]);
            let dir = scratch.join(format!("w{w}_p{i}"));
            let r = run_project(&cli, &dir, &files, &a, 60);
            let mut e = r.to_json(c["texts"].as_bool().unwrap_or(true));
            // an optional SECOND run in the same directory after some of the first run's outputs were deleted
            if let Some(sfx) = c["rerunAfterDelete"].as_array() {
                let sfx: Vec<String> = sfx.iter().map(|x| x.as_str().unwrap_or("").to_string()).collect();
                let mut removed = vec![];
                for rel in r.after.keys() {
                    if !r.before.contains_key(rel) && sfx.iter().any(|x| rel.ends_with(x.as_str())) {
                        let _ = std::fs::remove_file(dir.join(rel));
                        removed.push(rel.clone());
                    }
                }
                let r2 = run_prepared(&cli, &dir, &a, 60);
                let mut e2 = r2.to_json(false);
                e2["removedBefore"] = json!(removed);
                e2["existsAfter"] = json!(r2.after.keys().collect::<Vec<_>>());
                e["second"] = e2;
            }
            e["ev"] = json!("CliRun");
            e["id"] = c["id"].clone();
            e["dir"] = json!(dir.to_string_lossy());
            out.lock().unwrap().emit(&e);
            let _ = std::fs::remove_dir_all(&dir);
        }));
    }
    for h in hs {
        h.join().unwrap();
    }
    out.lock().unwrap().flush();
    0
}
