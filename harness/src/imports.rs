//! C13 driver: parses every file of a case with the real parser (file index set as the CLI does),
//! runs resolve_operation_extensions per file and resolve_operation_imports for the root with a
//! resolver backed by the parsed files, and records which (file, definition name) came out.
use crate::loader::render_desc;
use crate::util::*;
use nitrogql_ast::operation::ExecutableDefinition;
use nitrogql_ast::{OperationDocument, base::HasPos, set_current_file_of_pos};
use nitrogql_error::PositionedError;
use nitrogql_parser::parse_operation_document;
use nitrogql_semantics::{OperationExtension, OperationResolver, resolve_operation_extensions, resolve_operation_imports};
use serde_json::{Value, json};
use std::collections::HashMap;
use std::path::{Path, PathBuf};

struct MapResolver<'a>(HashMap<PathBuf, (&'a OperationDocument<'static>, &'a OperationExtension<'static>)>);
impl<'a> OperationResolver<'static> for MapResolver<'a> {
    fn resolve(&self, path: &Path) -> Option<(&OperationDocument<'static>, &OperationExtension<'static>)> {
        self.0.get(path).map(|(d, e)| (*d, *e))
    }
}

fn abs(p: &Value) -> PathBuf {
    PathBuf::from(format!("/{}", strs(p).join("/")))
}

pub fn resolve_case(c: &Value) -> Value {
    let files = c["files"].as_array().unwrap();
    let mut parsed: Vec<(PathBuf, OperationDocument<'static>, OperationExtension<'static>)> = vec![];
    for (i, f) in files.iter().enumerate() {
        let text: &'static str = Box::leak(render_desc(&f["d"]).into_boxed_str());
        set_current_file_of_pos(i);
        let doc = match parse_operation_document(text) {
            Ok(d) => d,
            Err(e) => return json!({"k": "discard", "why": format!("parse: {}", e.into_message())}),
        };
        match resolve_operation_extensions(doc) {
            Ok((d, e)) => parsed.push((abs(&f["path"]), d, e)),
            Err(e) => {
                let pe: PositionedError = e.into();
                return json!({"k": "discard", "why": format!("extension: {}", pe.into_inner())});
            }
        }
    }
    set_current_file_of_pos(0);
    let root = abs(&c["root"]);
    let resolver = MapResolver(parsed.iter().map(|(p, d, e)| (p.clone(), (d, e))).collect());
    let Some((rp, rd, re)) = parsed.iter().find(|(p, _, _)| *p == root) else {
        return json!({"k": "discard", "why": "root not among files"});
    };
    match resolve_operation_imports((rp, rd, re), &resolver) {
        Ok(doc) => {
            let defs: Vec<Value> = doc
                .definitions
                .iter()
                .map(|d| {
                    let (kind, name, pos) = match d {
                        ExecutableDefinition::OperationDefinition(o) => ("op", o.name().unwrap_or("").to_string(), o.position),
                        ExecutableDefinition::FragmentDefinition(f) => ("frag", f.name.name.to_string(), f.position),
                    };
                    json!({"file": files[pos.file]["path"], "kind": kind, "name": name})
                })
                .collect();
            json!({"k": "ok", "defs": defs})
        }
        Err(e) => {
            let pe: PositionedError = e.into();
            let pos = pe.position();
            let positioned = pos.map(|p| !p.builtin && p.file < files.len()).unwrap_or(false);
            json!({"k": "err", "positioned": positioned,
                   "pos": pos.map(|p| json!({"file": files.get(p.file).map(|f| f["path"].clone()), "line": p.line, "col": p.column})),
                   "msg": format!("{}", pe.into_inner())})
        }
    }
}

/// imports <cases.ndjson> <events.ndjson>
pub fn run(args: &[String]) -> i32 {
    let cases = read_ndjson(&args[0]);
    let mut out = Out::create(&args[1]);
    for c in &cases {
        let o = match guarded(|| resolve_case(c)) {
            Ok(v) => v,
            Err(m) => json!({"k": "panic", "msg": m}),
        };
        out.emit(&json!({"ev": "ResolveImports", "files": c["files"], "root": c["root"], "out": o}));
    }
    0
}
