//! C20 driver: calls normalize_path / relative_path / resolve_relative_path and
//! records inputs and outputs as component sequences. No path semantics here:
//! a path string is only split at '/'.
use crate::util::*;
use nitrogql_utils::{normalize_path, relative_path, resolve_relative_path};
use serde_json::{Value, json};
use std::path::{Path, PathBuf};

fn abs_str(comps: &[String]) -> String {
    format!("/{}", comps.join("/"))
}
fn rel_str(comps: &[String]) -> String {
    comps.join("/")
}
pub fn split_path(p: &Path) -> Value {
    let s = p.to_string_lossy();
    let abs = s.starts_with('/');
    let c: Vec<&str> = s.split('/').filter(|x| !x.is_empty()).collect();
    json!({"k": "ok", "abs": abs, "c": c})
}
fn observe(f: impl FnOnce() -> PathBuf) -> Value {
    match guarded(f) {
        Ok(p) => split_path(&p),
        Err(m) => json!({"k": "panic", "msg": m}),
    }
}

/// paths <cases.ndjson> <events.ndjson> <seed> <n_random> <max_random_depth>
pub fn run(args: &[String]) -> i32 {
    let cases = read_ndjson(&args[0]);
    let mut out = Out::create(&args[1]);
    let seed: u64 = args[2].parse().unwrap();
    let nrand: usize = args[3].parse().unwrap();
    let maxd: usize = args[4].parse().unwrap();
    let mut seen_norm = std::collections::HashSet::new();
    let mut emit_pair = |out: &mut Out, a: &Vec<String>, b: &Vec<String>, rels: &Vec<Vec<String>>| {
        let (sa, sb) = (abs_str(a), abs_str(b));
        if seen_norm.insert(sa.clone()) {
            let o = observe(|| normalize_path(Path::new(&sa)));
            out.emit(&json!({"ev": "Norm", "p": a, "out": o}));
        }
        let o = observe(|| relative_path(Path::new(&sa), Path::new(&sb)));
        out.emit(&json!({"ev": "Rel", "a": a, "b": b, "out": o}));
        for r in rels {
            let sr = rel_str(r);
            let o = observe(|| resolve_relative_path(Path::new(&sa), Path::new(&sr)));
            out.emit(&json!({"ev": "Resolve", "a": a, "r": r, "out": o}));
        }
    };
    for c in &cases {
        let a = strs(&c["a"]);
        let b = strs(&c["b"]);
        let rels: Vec<Vec<String>> = c["rels"].as_array().unwrap().iter().map(strs).collect();
        emit_pair(&mut out, &a, &b, &rels);
    }
    // Beyond the bound: seeded random deeper paths. Whether a pair is in the property's
    // domain is decided by the specification (Paths!PairInDomain), not here.
    let mut rng = Rng::new(seed);
    let names = ["x", "y", "zed", "a.b", "..."];
    let mut gen_path = |rng: &mut Rng| -> Vec<String> {
        let n = 1 + rng.below(maxd);
        let mut v = vec![];
        let mut depth = 0usize;
        for i in 0..n {
            let last = i + 1 == n;
            let pick = rng.below(10);
            if !last && pick < 2 {
                v.push(".".to_string());
            } else if !last && pick < 5 && depth > 0 {
                v.push("..".to_string());
                depth -= 1;
            } else {
                v.push(names[rng.below(names.len())].to_string());
                depth += 1;
            }
        }
        v
    };
    for _ in 0..nrand {
        let a = gen_path(&mut rng);
        let b = if rng.chance(1, 3) {
            // share a prefix with a
            let k = rng.below(a.len() + 1);
            let mut v: Vec<String> = a[..k].to_vec();
            v.extend(gen_path(&mut rng));
            v
        } else {
            gen_path(&mut rng)
        };
        let mut r = vec![if rng.chance(1, 2) { ".".to_string() } else { "..".to_string() }];
        r.extend(b.iter().cloned());
        // only resolve when the joined path cannot climb above the root
        let da = a.len() - 1;
        let rels = if r[0] == ".." && da == 0 { vec![] } else { vec![r] };
        emit_pair(&mut out, &a, &b, &rels);
    }
    0
}
