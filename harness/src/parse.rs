//! C07 driver: abstract document + trivia -> text -> real parser -> projection.
use crate::project::*;
use crate::render::*;
use crate::util::*;
use serde_json::{Value, json};
use std::collections::BTreeSet;

fn collect_strings(v: &Value, out: &mut BTreeSet<String>) {
    match v {
        Value::String(s) => {
            out.insert(s.clone());
        }
        Value::Array(a) => a.iter().for_each(|x| collect_strings(x, out)),
        Value::Object(o) => o.values().for_each(|x| collect_strings(x, out)),
        _ => {}
    }
}

pub fn cptab(vals: &[&Value]) -> Value {
    let mut set = BTreeSet::new();
    for v in vals {
        collect_strings(v, &mut set);
    }
    for k in ["query", "mutation", "subscription", "fragment", "on", "true", "false", "null", "schema", "scalar", "type",
              "interface", "union", "enum", "input", "directive", "extend", "implements", "repeatable", "!", "$", "&", "(",
              ")", "...", ":", "=", "@", "[", "]", "{", "|", "}", "Int", "Float", "String", "Boolean", "ID", "skip", "include",
              "deprecated", "specifiedBy", "if", "reason", "url", "QUERY", "MUTATION", "SUBSCRIPTION", "FIELD",
              "FRAGMENT_DEFINITION", "FRAGMENT_SPREAD", "INLINE_FRAGMENT", "VARIABLE_DEFINITION", "SCHEMA", "SCALAR", "OBJECT",
              "FIELD_DEFINITION", "ARGUMENT_DEFINITION", "INTERFACE", "UNION", "ENUM", "ENUM_VALUE", "INPUT_OBJECT",
              "INPUT_FIELD_DEFINITION"] {
        set.insert(k.to_string());
    }
    Value::Array(set.into_iter().map(|s| json!({"s": s, "cp": s.chars().map(|c| c as u32).collect::<Vec<_>>()})).collect())
}

fn cps(v: &Value) -> String {
    v.as_array().map(|a| a.iter().filter_map(|c| char::from_u32(c.as_u64().unwrap() as u32)).collect()).unwrap_or_default()
}

/// case: {kind: "op"|"ts", A: doc, gaps: "default" | [[cp]...] (one per token, then the tail), header: [cp] (optional)}
pub fn parse_case(c: &Value) -> Value {
    let kind = c["kind"].as_str().unwrap();
    let a = &c["A"];
    let mut toks = vec![];
    let mut starts = vec![];
    let mut header = cps(&c["header"]);
    for (i, d) in a["defs"].as_array().unwrap().iter().enumerate() {
        if d["k"] == "import" {
            let names = if d["wild"].as_bool().unwrap() {
                "*".to_string()
            } else {
                strs(&d["names"]).join(", ")
            };
            header.push_str(&format!("#import {names} from \"{}\"\n", d["path"].as_str().unwrap()));
            continue;
        }
        starts.push(toks.len());
        if kind == "op" {
            exec_def_tokens(d, &format!("defs.{i}"), &mut toks);
        } else {
            ts_def_tokens(d, &format!("defs.{i}"), &mut toks);
        }
    }
    // gaps = [inner gaps..., tail]; inner gaps are reused cyclically when fewer than tokens
    let (gaps, tail) = match c["gaps"].as_array() {
        Some(g) if !g.is_empty() => {
            let inner = &g[..g.len() - 1];
            let gs: Vec<String> = (0..toks.len())
                .map(|i| if inner.is_empty() { " ".to_string() } else { cps(&inner[i % inner.len()]) })
                .collect();
            (gs, cps(&g[g.len() - 1]))
        }
        _ => (default_gaps(&toks, &starts), "\n".to_string()),
    };
    let mut gaps = gaps;
    if !gaps.is_empty() {
        gaps[0] = format!("{header}{}", gaps[0]);
    }
    let lay = layout(&toks, &gaps, &tail);
    let text: &'static str = Box::leak(lay.text.clone().into_boxed_str());
    let out = match guarded(|| {
        if kind == "op" {
            match nitrogql_parser::parse_operation_document(text) {
                Ok(d) => json!({"k": "ok", "doc": project_operation_document_ext(&d)}),
                Err(e) => json!({"k": "err", "msg": e.into_message()}),
            }
        } else {
            match nitrogql_parser::parse_type_system_document(text) {
                Ok(d) => json!({"k": "ok", "doc": project_type_system_or_extension_document(&d)}),
                Err(e) => json!({"k": "err", "msg": e.into_message()}),
            }
        }
    }) {
        Ok(v) => v,
        Err(m) => json!({"k": "panic", "msg": m}),
    };
    json!({"ev": "Parse", "kind": kind, "cp": text.chars().map(|c| c as u32).collect::<Vec<_>>(), "A": a,
           "out": out, "cptab": cptab(&[a, &out])})
}

/// parse <cases.ndjson> <events.ndjson>
pub fn run(args: &[String]) -> i32 {
    let cases = read_ndjson(&args[0]);
    let mut out = Out::create(&args[1]);
    for c in &cases {
        out.emit(&parse_case(c));
    }
    0
}

/// render <cases.ndjson> <out.ndjson>: abstract documents -> text (default layout), nothing else
pub fn run_render(args: &[String]) -> i32 {
    let cases = read_ndjson(&args[0]);
    let mut out = Out::create(&args[1]);
    for c in &cases {
        let text = if c["kind"] == "op" { render_op_doc(&c["A"]).0 } else { render_ts_doc(&c["A"]).0 };
        out.emit(&json!({"text": if c["A"]["defs"].as_array().map(|a| a.is_empty()).unwrap_or(true) { String::new() } else { text }}));
    }
    0
}
