//! Debug helpers: parse a file and print the projection or the error.
use crate::project::*;
use crate::util::guarded;
pub fn run(args: &[String]) -> i32 {
    let text = std::fs::read_to_string(&args[1]).unwrap();
    let r = guarded(|| match args[0].as_str() {
        "ts" => match nitrogql_parser::parse_type_system_document(&text) {
            Ok(d) => println!("{}", project_type_system_or_extension_document(&d)),
            Err(e) => println!("ERR {}", e.into_message()),
        },
        _ => match nitrogql_parser::parse_operation_document(&text) {
            Ok(d) => println!("{}", project_operation_document_ext(&d)),
            Err(e) => println!("ERR {}", e.into_message()),
        },
    });
    if let Err(m) = r {
        println!("PANIC {m}");
    }
    0
}
