//! C12 / C14 driver, loader route: an abstract multi-file operation project is rendered to
//! GraphQL text and pushed through the real loader ABI (load_config, initiate_task,
//! get_required_files / load_file until nothing is required, emit_js); the emitted JavaScript
//! module is read back structurally (consts, exports, embedded graphql-js documents).
use crate::gqljs::read_js_module;
use crate::render::render_op_doc;
use crate::util::*;
use nq_loader_abi as abi;
use serde_json::{Value, json};
use std::collections::HashMap;

fn path_str(p: &Value) -> String {
    format!("/{}", strs(p).join("/"))
}

fn with_str<T>(s: &str, f: impl FnOnce(*const u8, usize) -> T) -> T {
    let len = s.len();
    let ptr = abi::alloc_string(len);
    unsafe { std::ptr::copy_nonoverlapping(s.as_ptr(), ptr, len) };
    let r = f(ptr as *const u8, len);
    unsafe { abi::free_string(ptr, len) };
    r
}
fn result() -> String {
    let p = abi::get_result_ptr();
    let n = abi::get_result_size();
    String::from_utf8_lossy(unsafe { std::slice::from_raw_parts(p, n) }).into_owned()
}

/// Runs one project through the loader on a fresh thread. Returns the emitted JS or an error text.
pub fn loader_emit(files: &HashMap<String, String>, root: &str, config: &str) -> Result<String, String> {
    loader_emit_after(files, root, config, "")
}

/// As `loader_emit`, but on a loader instance that has already worked with another configuration (`prior`): it loaded that
/// configuration and emitted the same module under it (result discarded) before the configuration under test is loaded.
/// Bundler plugins reuse one instance and reload the configuration when it changes.
pub fn loader_emit_after(files: &HashMap<String, String>, root: &str, config: &str, prior: &str) -> Result<String, String> {
    let files = files.clone();
    let root = root.to_string();
    let config = config.to_string();
    let prior = prior.to_string();
    std::thread::spawn(move || {
        if !prior.is_empty() {
            if !with_str(&prior, |p, l| abi::load_config(p, l)) {
                return Err("load_config (prior configuration) failed".to_string());
            }
            if let Some(src) = files.get(&root) {
                let id = with_str(&root, |pp, pl| with_str(src, |sp, sl| abi::initiate_task(pp, pl, sp, sl)));
                if id != 0 {
                    for _ in 0..64 {
                        if !abi::get_required_files(id) {
                            break;
                        }
                        let req = result();
                        let req: Vec<&str> = req.split('\n').filter(|x| !x.is_empty()).collect();
                        if req.is_empty() {
                            break;
                        }
                        for r in req {
                            if let Some(s) = files.get(r) {
                                with_str(r, |pp, pl| with_str(s, |sp, sl| abi::load_file(id, pp, pl, sp, sl)));
                            }
                        }
                    }
                    abi::emit_js(id);
                    abi::free_task(id);
                }
            }
        }
        if !config.is_empty() && !with_str(&config, |p, l| abi::load_config(p, l)) {
            return Err("load_config failed".to_string());
        }
        let src = files.get(&root).ok_or("root not in files")?;
        // on a reused instance the task under test also overlaps with two other tasks (a bundler loads files concurrently):
        // another file's task is started before it and freed while it is in flight, a third is started after that
        const OTHER: &str = "query OtherFile__ { __typename }\n";
        let before = if prior.is_empty() { 0 } else { with_str("/other/before.graphql", |pp, pl| with_str(OTHER, |sp, sl| abi::initiate_task(pp, pl, sp, sl))) };
        let id = with_str(&root, |pp, pl| with_str(src, |sp, sl| abi::initiate_task(pp, pl, sp, sl)));
        if id == 0 {
            return Err(format!("initiate_task: {}", result()));
        }
        if before != 0 {
            abi::free_task(before);
        }
        let after = if prior.is_empty() { 0 } else { with_str("/other/after.graphql", |pp, pl| with_str(OTHER, |sp, sl| abi::initiate_task(pp, pl, sp, sl))) };
        for _ in 0..64 {
            if !abi::get_required_files(id) {
                return Err(format!("get_required_files: {}", result()));
            }
            let req = result();
            let req: Vec<&str> = req.split('\n').filter(|x| !x.is_empty()).collect();
            if req.is_empty() {
                break;
            }
            for r in req {
                let Some(s) = files.get(r) else {
                    return Err(format!("loader requires a file the project does not have: {r}"));
                };
                if !with_str(r, |pp, pl| with_str(s, |sp, sl| abi::load_file(id, pp, pl, sp, sl))) {
                    return Err(format!("load_file {r}: {}", result()));
                }
            }
        }
        let ok = abi::emit_js(id);
        let r = result();
        abi::free_task(id);
        if after != 0 {
            abi::free_task(after);
        }
        if ok { Ok(r) } else { Err(format!("emit_js: {r}")) }
    })
    .join()
    .unwrap_or_else(|_| Err("PANIC".to_string()))
}

pub fn render_files(c: &Value) -> HashMap<String, String> {
    c["files"]
        .as_array()
        .unwrap()
        .iter()
        .map(|f| (path_str(&f["path"]), render_op_doc(&f["doc"]).0))
        .collect()
}

pub fn loader_event(c: &Value) -> Value {
    let files = render_files(c);
    let root = path_str(&c["root"]);
    let config = c["config"].as_str().unwrap_or("");
    let out = match loader_emit(&files, &root, config) {
        Ok(js) => match read_js_module(&js) {
            Ok(m) => json!({"k": "ok", "consts": m["consts"], "hasDefault": m["hasDefault"], "default": m["default"]}),
            Err(e) => json!({"k": "malformed", "why": e, "js": js.chars().take(400).collect::<String>()}),
        },
        Err(e) if e == "PANIC" => json!({"k": "panic", "msg": e}),
        Err(e) => json!({"k": "err", "msg": e}),
    };
    json!({"ev": "RuntimeDocs", "route": "loader", "files": c["files"], "root": c["root"], "config": config, "out": out})
}

/// opfile-child <cases> <events> <start>: one event per case, crash-isolated by the parent
pub fn run_child(args: &[String]) -> i32 {
    use std::io::Write;
    let cases = read_ndjson(&args[0]);
    let start: usize = args[2].parse().unwrap();
    let mut out = Out::append(&args[1]);
    for (i, c) in cases.iter().enumerate().skip(start) {
        let e = loader_event(c);
        out.emit(&e);
        out.flush();
        let so = std::io::stdout();
        let mut so = so.lock();
        writeln!(so, "done {i}").unwrap();
        so.flush().unwrap();
    }
    0
}

/// opfile <cases> <events>
pub fn run(args: &[String]) -> i32 {
    crate::util::run_crash_isolated("opfile-child", &args[0], &args[1], |case, status| {
        json!({"ev": "RuntimeDocs", "route": "loader", "files": case["files"], "root": case["root"],
               "config": case["config"], "out": {"k": "panic", "msg": format!("process died: {status}")}})
    })
}

/// CLI route (standalone mode): the same cases, batched into projects of `batch` cases; each case's
/// files live under ops/c<i>/...; the `.graphql.ts` written for the case's root file is read back
/// (TS-subset reader -> const initialisers -> graphql-js reader).
/// opfile-cli <cli> <cases> <events> <scratch> <schema-file>
pub fn run_cli(args: &[String]) -> i32 {
    let cli = &args[0];
    let cases = read_ndjson(&args[1]);
    let mut out = Out::create(&args[2]);
    let scratch = std::path::PathBuf::from(&args[3]);
    let schema = std::fs::read_to_string(&args[4]).unwrap();
    let config = "schema: ./schema.graphql\ndocuments: ./ops/**/*.graphql\nextensions:\n  nitrogql:\n    generate:\n      mode: standalone-ts-4.0\n      schemaOutput: ./gen/schema.d.ts\n";
    let batch = 100usize;
    let chunks: Vec<(usize, Vec<Value>)> = cases.chunks(batch).map(|c| c.to_vec()).enumerate().collect();
    let results: std::sync::Mutex<Vec<(usize, Vec<Value>)>> = std::sync::Mutex::new(vec![]);
    let next = std::sync::Mutex::new(0usize);
    std::thread::scope(|sc| {
        for _ in 0..10 {
            sc.spawn(|| loop {
                let k = {
                    let mut n = next.lock().unwrap();
                    let k = *n;
                    *n += 1;
                    k
                };
                if k >= chunks.len() {
                    break;
                }
                let (b, chunk) = &chunks[k];
                let evs = cli_batch(cli, *b, chunk, &scratch, &schema, config);
                results.lock().unwrap().push((*b, evs));
            });
        }
    });
    let mut results = results.into_inner().unwrap();
    results.sort_by_key(|(b, _)| *b);
    for (_, evs) in results {
        for e in evs {
            out.emit(&e);
        }
    }
    0
}

fn cli_batch(cli: &str, b: usize, chunk: &[Value], scratch: &std::path::Path, schema: &str, config: &str) -> Vec<Value> {
    use crate::cli::run_project;
    use crate::gqljs::read_document;
    use crate::tsread::read_ts;
    let mut events = vec![];
    {
        let mut files: Vec<(String, String)> = vec![("graphql.config.yaml".into(), config.into()), ("schema.graphql".into(), schema.to_string())];
        for (i, c) in chunk.iter().enumerate() {
            for f in c["files"].as_array().unwrap() {
                files.push((format!("ops/c{i}/{}", strs(&f["path"]).join("/")), render_op_doc(&f["doc"]).0));
            }
        }
        let dir = scratch.join(format!("b{b}"));
        let run = run_project(cli, &dir, &files, &["--output-format".into(), "json".into(), "generate".into()], 120);
        let written = run.written();
        for (i, c) in chunk.iter().enumerate() {
            let root_rel = format!("ops/c{i}/{}", strs(&c["root"]).join("/"));
            let ts = format!("{}.graphql.ts", root_rel.strip_suffix(".graphql").unwrap_or(&root_rel));
            let o = if run.panicked() {
                json!({"k": "panic", "msg": run.stderr.chars().take(300).collect::<String>()})
            } else if run.exit != 0 {
                json!({"k": "err", "msg": run.stdout.chars().take(600).collect::<String>()})
            } else {
                match written.get(&ts) {
                    None => json!({"k": "malformed", "why": format!("{ts} not written")}),
                    Some(text) => match read_ts(text) {
                        Err(w) => json!({"k": "malformed", "why": w}),
                        Ok(ast) => {
                            let mut consts = vec![];
                            let mut bad = None;
                            for s in ast["stmts"].as_array().unwrap() {
                                if s["k"] == "const" && s["hasInit"].as_bool().unwrap() {
                                    match read_document(&s["init"]) {
                                        Ok(d) => consts.push(json!({"name": s["name"], "exported": s["export"], "doc": d})),
                                        Err(w) => bad = Some(w),
                                    }
                                }
                            }
                            match bad {
                                Some(w) => json!({"k": "malformed", "why": w}),
                                None => json!({"k": "ok", "consts": consts}),
                            }
                        }
                    },
                }
            };
            events.push(json!({"ev": "RuntimeDocs", "route": "cli", "files": c["files"], "root": c["root"], "config": "", "out": o}));
        }
        let _ = std::fs::remove_dir_all(&dir);
    }
    events
}
