//! C08: token-level mutation of rendered documents.  `muts` come from TLC (Gen_C08): which document,
//! which token position, which operator, which replacement token class.
use crate::render::*;
use crate::util::*;
use serde_json::{Value, json};

pub const REPL: [&str; 28] = ["{", "}", "(", ")", "[", "]", ":", "=", "!", "$", "@", "...", "|", "&", "name", "on", "fragment", "query",
    "type", "extend", "123", "1.5", "\"str\"", "\"\"\"blk\"\"\"", "true", "null", "#c\n", "\u{feff}"];

fn tokens_of(kind: &str, a: &Value) -> Vec<String> {
    let mut toks = vec![];
    for (i, d) in a["defs"].as_array().unwrap().iter().enumerate() {
        if d["k"] == "import" {
            let names = if d["wild"].as_bool().unwrap() { "*".to_string() } else { strs(&d["names"]).join(", ") };
            toks.push(Tok { text: format!("#import {names} from \"{}\"\n", d["path"].as_str().unwrap()), tag: String::new() });
            continue;
        }
        if kind == "op" {
            exec_def_tokens(d, &format!("defs.{i}"), &mut toks);
        } else {
            ts_def_tokens(d, &format!("defs.{i}"), &mut toks);
        }
    }
    toks.into_iter().map(|t| t.text).collect()
}

/// mutate <docs.ndjson> <muts.ndjson> <cases-out.ndjson>
pub fn run(args: &[String]) -> i32 {
    let docs = read_ndjson(&args[0]);
    let muts = read_ndjson(&args[1]);
    let mut out = Out::create(&args[2]);
    let toks: Vec<(String, Vec<String>)> = docs.iter().map(|d| (d["kind"].as_str().unwrap().to_string(), tokens_of(d["kind"].as_str().unwrap(), &d["A"]))).collect();
    let mut id = 0u64;
    for m in &muts {
        let di = m["doc"].as_u64().unwrap() as usize - 1;
        if di >= toks.len() {
            continue;
        }
        let (kind, t) = &toks[di];
        let pos = m["pos"].as_u64().unwrap() as usize - 1;
        if pos >= t.len() {
            continue;
        }
        let mut v = t.clone();
        let r = REPL[(m["repl"].as_u64().unwrap_or(1) as usize - 1) % REPL.len()].to_string();
        match m["op"].as_str().unwrap() {
            "delete" => {
                v.remove(pos);
            }
            "dup" => v.insert(pos, t[pos].clone()),
            "swap" => {
                if pos + 1 < v.len() {
                    v.swap(pos, pos + 1)
                } else {
                    continue;
                }
            }
            "replace" => v[pos] = r,
            "insert" => v.insert(pos, r),
            "truncate" => v.truncate(pos),
            _ => continue,
        }
        let text = v.join(" ");
        out.emit(&json!({"id": id, "kind": kind, "cp": text.chars().map(|c| c as u32).collect::<Vec<_>>(), "mut": m}));
        id += 1;
    }
    0
}
