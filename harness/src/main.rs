//! Semantics-free harness: renders abstract cases, runs the real nitrogql code,
//! and re-encodes what it observed as ndjson events for the TLA+ trace specs.
//! A panic in the code under test is data (an event), never a harness failure.
mod checkops;
mod checkschema;
mod cli;
mod debug;
mod determ;
mod exports;
mod extmerge;
mod imports;
mod loader;
mod mutate;
mod gqljs;
mod opfile;
mod parse;
mod printer;
mod paths;
mod pipeline;
mod project;
mod render;
mod srcwriter;
mod stages;
mod tsread;
mod twin;
mod typegen;
mod util;
mod vlq;

use std::env;

fn main() {
    // Keep panic messages of the code under test out of stderr noise; they are captured as data.
    std::panic::set_hook(Box::new(|_| {}));
    let args: Vec<String> = env::args().collect();
    if args.len() < 2 {
        eprintln!("usage: nq-harness <command> [args]");
        std::process::exit(2);
    }
    let rest = &args[2..];
    let rc = match args[1].as_str() {
        "paths" => paths::run(rest),
        "checkops" => checkops::run(rest),
        "checkschema" => checkschema::run(rest),
        "cliproj" => cli::run(rest),
        "debug" => debug::run(rest),
        "determ" => determ::run(rest),
        "exports" => exports::run(rest),
        "extmerge" => extmerge::run(rest),
        "imports" => imports::run(rest),
        "loader" => loader::run(rest),
        "mutate" => mutate::run(rest),
        "opfile" => opfile::run(rest),
        "parse" => parse::run(rest),
        "render" => parse::run_render(rest),
        "roundtrip" => printer::run_roundtrip(rest),
        "server" => printer::run_server(rest),
        "srcwriter" => srcwriter::run(rest),
        "stages" => stages::run(rest),
        "stages-child" => stages::run_child(rest),
        "opfile-child" => opfile::run_child(rest),
        "opfile-cli" => opfile::run_cli(rest),
        "loader-child" => loader::run_child(rest),
        "tsread" => tsread::run(rest),
        "typegen" => typegen::run(rest),
        "twin" => twin::run(rest),
        "vlq" => vlq::run(rest),
        other => {
            eprintln!("unknown command {other}");
            2
        }
    };
    std::process::exit(rc);
}
