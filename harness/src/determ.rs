//! C17 driver: repeated fresh CLI processes on one project, the in-process library route, and
//! permuted arrangements of the schema definitions.  Records digests and (for permutations) the
//! exported type aliases as read by the TS-subset reader.
use crate::cli::run_project;
use crate::pipeline::lib_generate;
use crate::tsread::read_ts;
use crate::util::*;
use serde_json::{Value, json};
use std::path::PathBuf;

fn fnv(s: &str) -> String {
    let mut h: u64 = 0xcbf29ce484222325;
    for b in s.as_bytes() {
        h ^= *b as u64;
        h = h.wrapping_mul(0x100000001b3);
    }
    format!("{h:016x}")
}

fn body_of(text: &str) -> &str {
    match text.rfind("\n//# sourceMappingURL=") {
        Some(i) => &text[..i],
        None => text,
    }
}

fn files_of(c: &Value, key: &str) -> Vec<(String, String)> {
    c[key].as_array().unwrap().iter().map(|f| (f["rel"].as_str().unwrap().to_string(), f["text"].as_str().unwrap().to_string())).collect()
}

fn aliases(ast: &Value, prefix: &str, out: &mut Vec<Value>) {
    for s in ast.as_array().unwrap() {
        match s["k"].as_str().unwrap() {
            "type" => out.push(json!({"name": format!("{prefix}{}", s["name"].as_str().unwrap()), "params": s["params"], "t": s["t"]})),
            "namespace" => aliases(&s["body"], &format!("{prefix}{}.", s["name"].as_str().unwrap()), out),
            "exportList" => {
                for it in s["items"].as_array().unwrap() {
                    out.push(json!({"name": format!("{prefix}{}", it["as"].as_str().unwrap()), "params": [],
                                    "t": {"k": "ref", "path": [it["name"]], "args": []}}));
                }
            }
            _ => {}
        }
    }
}

/// determ <cli> <cases> <events> <scratch>
pub fn run(args: &[String]) -> i32 {
    let cli = &args[0];
    let cases = read_ndjson(&args[1]);
    let mut out = Out::create(&args[2]);
    let scratch = PathBuf::from(&args[3]);
    for (gi, c) in cases.iter().enumerate() {
        let config = c["config"].as_str().unwrap();
        let ops = files_of(c, "opFiles");
        let dir = scratch.join(format!("g{gi}"));
        let cli_args: Vec<String> = vec!["--output-format".into(), "json".into(), "generate".into()];
        let mut arrangements = vec![files_of(c, "schemaFiles")];
        for p in c["perms"].as_array().map(|a| a.as_slice()).unwrap_or(&[]) {
            arrangements.push(p.as_array().unwrap().iter().map(|f| (f["rel"].as_str().unwrap().to_string(), f["text"].as_str().unwrap().to_string())).collect());
        }
        for (ai, schema) in arrangements.iter().enumerate() {
            let mut files = vec![("graphql.config.yaml".to_string(), config.to_string())];
            files.extend(schema.iter().cloned());
            files.extend(ops.iter().cloned());
            let nruns = if ai == 0 { c["runs"].as_u64().unwrap_or(3) } else { 1 };
            for r in 0..nruns {
                let run = run_project(cli, &dir, &files, &cli_args, 60);
                let written = run.written();
                if ai == 0 {
                    let outputs: Vec<Value> = written.iter().map(|(k, v)| json!({"name": k, "digest": fnv(v), "bodyDigest": fnv(body_of(v))})).collect();
                    out.emit(&json!({"ev": "Run", "group": gi, "route": "cli", "run": r, "exit": run.exit, "panicked": run.panicked(),
                                     "outputs": outputs, "stdout": fnv(&run.stdout)}));
                }
                if r == 0 {
                    // exported aliases of every declaration file (for the permutation clause)
                    let mut als = vec![];
                    let mut unreadable = vec![];
                    for (name, text) in written.iter().filter(|(k, _)| k.ends_with(".ts")) {
                        match read_ts(text) {
                            Ok(ast) => {
                                let mut v = vec![];
                                aliases(&ast["stmts"], "", &mut v);
                                als.push(json!({"file": name, "aliases": v}));
                            }
                            Err(w) => unreadable.push(json!({"file": name, "why": w})),
                        }
                    }
                    out.emit(&json!({"ev": "Perm", "group": gi, "perm": ai, "exit": run.exit, "panicked": run.panicked(),
                                     "files": als, "unreadable": unreadable}));
                }
            }
            if ai == 0 {
                // library route, same load order as the CLI (files sorted by path)
                let abs = |rel: &str| format!("{}/./{}", dir.to_string_lossy(), rel);
                let mut s: Vec<(String, String)> = schema.iter().map(|(r, t)| (abs(r), t.clone())).collect();
                s.sort();
                let mut o: Vec<(String, String)> = ops.iter().map(|(r, t)| (abs(r), t.clone())).collect();
                o.sort();
                let spec = c["schemaSource"].as_str().unwrap_or("");
                let lib = match guarded(|| lib_generate(&s, &o, config, spec)) {
                    Ok(Ok(l)) => {
                        let mut outputs = vec![];
                        if let Some(t) = &l.schema_dts {
                            outputs.push(json!({"name": c["schemaOutput"], "bodyDigest": fnv(t)}));
                        }
                        for (p, t) in &l.op_dts {
                            let rel = p.split("/./").last().unwrap_or(p);
                            let stem = rel.strip_suffix(".graphql").unwrap_or(rel);
                            outputs.push(json!({"name": format!("{stem}.{}", c["opExt"].as_str().unwrap_or("d.graphql.ts")), "bodyDigest": fnv(t)}));
                        }
                        json!({"k": "ok", "outputs": outputs, "diags": l.diags})
                    }
                    Ok(Err(w)) => json!({"k": "err", "why": w}),
                    Err(m) => json!({"k": "panic", "msg": m}),
                };
                out.emit(&json!({"ev": "Lib", "group": gi, "lib": lib}));
            }
        }
        let _ = std::fs::remove_dir_all(&dir);
    }
    0
}
