use serde_json::Value;
use std::fs::File;
use std::io::{BufRead, BufReader, BufWriter, Write};
use std::panic::{AssertUnwindSafe, catch_unwind};

pub fn read_ndjson(path: &str) -> Vec<Value> {
    let f = File::open(path).unwrap_or_else(|e| panic!("open {path}: {e}"));
    BufReader::new(f)
        .lines()
        .map(|l| l.unwrap())
        .filter(|l| !l.trim().is_empty())
        .map(|l| serde_json::from_str(&l).unwrap_or_else(|e| panic!("bad json line: {e}: {l}")))
        .collect()
}

pub struct Out(BufWriter<File>);
impl Out {
    pub fn create(path: &str) -> Out {
        Out(BufWriter::new(File::create(path).unwrap_or_else(|e| panic!("create {path}: {e}"))))
    }
    pub fn append(path: &str) -> Out {
        Out(BufWriter::new(
            std::fs::OpenOptions::new().create(true).append(true).open(path).unwrap_or_else(|e| panic!("open {path}: {e}")),
        ))
    }
    pub fn flush(&mut self) {
        self.0.flush().unwrap();
    }
    pub fn emit(&mut self, v: &Value) {
        serde_json::to_writer(&mut self.0, v).unwrap();
        self.0.write_all(b"\n").unwrap();
    }
}

/// Runs `f`, turning a panic into Err(message).
pub fn guarded<T>(f: impl FnOnce() -> T) -> Result<T, String> {
    catch_unwind(AssertUnwindSafe(f)).map_err(|e| {
        if let Some(s) = e.downcast_ref::<&str>() {
            s.to_string()
        } else if let Some(s) = e.downcast_ref::<String>() {
            s.clone()
        } else {
            "panic".to_string()
        }
    })
}

pub fn strs(v: &Value) -> Vec<String> {
    v.as_array().map(|a| a.iter().map(|x| x.as_str().unwrap().to_string()).collect()).unwrap_or_default()
}

/// splitmix64
pub struct Rng(pub u64);
impl Rng {
    pub fn new(seed: u64) -> Rng {
        Rng(seed.wrapping_mul(0x9E3779B97F4A7C15).wrapping_add(0x1234567))
    }
    pub fn next(&mut self) -> u64 {
        self.0 = self.0.wrapping_add(0x9E3779B97F4A7C15);
        let mut z = self.0;
        z = (z ^ (z >> 30)).wrapping_mul(0xBF58476D1CE4E5B9);
        z = (z ^ (z >> 27)).wrapping_mul(0x94D049BB133111EB);
        z ^ (z >> 31)
    }
    pub fn below(&mut self, n: usize) -> usize {
        (self.next() % (n as u64)) as usize
    }
    pub fn chance(&mut self, num: usize, den: usize) -> bool {
        self.below(den) < num
    }
}

/// Runs `<exe> <child_cmd> <cases> <events> <start>` repeatedly; when the child dies inside case i
/// (an abort in the code under test), appends `on_crash(case, status)` and resumes at i+1.
pub fn run_crash_isolated(
    child_cmd: &str,
    cases_path: &str,
    events_path: &str,
    on_crash: impl Fn(&Value, String) -> Value,
) -> i32 {
    use std::io::{BufRead, BufReader};
    use std::process::{Command, Stdio};
    let cases = read_ndjson(cases_path);
    std::fs::write(events_path, b"").unwrap();
    let exe = std::env::current_exe().unwrap();
    let mut start = 0usize;
    let mut crashes = 0usize;
    while start < cases.len() {
        let mut child = Command::new(&exe)
            .args([child_cmd, cases_path, events_path, &start.to_string()])
            .stdout(Stdio::piped())
            .stderr(Stdio::null())
            .spawn()
            .expect("spawn child");
        let rd = BufReader::new(child.stdout.take().unwrap());
        let mut last_done: Option<usize> = None;
        for line in rd.lines() {
            if let Some(n) = line.unwrap().strip_prefix("done ") {
                last_done = n.trim().parse().ok();
            }
        }
        let status = child.wait().unwrap();
        let next = last_done.map(|d| d + 1).unwrap_or(start);
        if status.success() && next >= cases.len() {
            break;
        }
        crashes += 1;
        let mut out = Out::append(events_path);
        out.emit(&on_crash(&cases[next], format!("{status}")));
        out.flush();
        start = next + 1;
        if crashes > 5000 {
            eprintln!("too many crashes");
            return 3;
        }
    }
    0
}

/// Like run_crash_isolated, with extra child arguments and a per-case progress timeout (seconds):
/// a child that makes no progress for that long is killed and the case is reported with status "timeout".
pub fn run_crash_isolated_ex(
    child_cmd: &str,
    cases_path: &str,
    events_path: &str,
    extra: &[String],
    timeout_s: u64,
    on_crash: impl Fn(&Value, String) -> Value,
) -> i32 {
    use std::io::{BufRead, BufReader};
    use std::process::{Command, Stdio};
    use std::sync::mpsc;
    let cases = read_ndjson(cases_path);
    std::fs::write(events_path, b"").unwrap();
    let exe = std::env::current_exe().unwrap();
    let mut start = 0usize;
    let mut crashes = 0usize;
    while start < cases.len() {
        let mut cmd = Command::new(&exe);
        cmd.args([child_cmd, cases_path, events_path, &start.to_string()]).args(extra).stdout(Stdio::piped()).stderr(Stdio::null());
        let mut child = cmd.spawn().expect("spawn child");
        let rd = BufReader::new(child.stdout.take().unwrap());
        let (tx, rx) = mpsc::channel::<Option<usize>>();
        std::thread::spawn(move || {
            for line in rd.lines() {
                if let Ok(l) = line {
                    if let Some(n) = l.strip_prefix("done ") {
                        let _ = tx.send(n.trim().parse().ok());
                    }
                }
            }
            let _ = tx.send(None);
        });
        let mut last_done: Option<usize> = None;
        let mut timed_out = false;
        loop {
            match rx.recv_timeout(std::time::Duration::from_secs(timeout_s)) {
                Ok(Some(n)) => last_done = Some(n),
                Ok(None) => break,
                Err(mpsc::RecvTimeoutError::Timeout) => {
                    timed_out = true;
                    let _ = child.kill();
                    break;
                }
                Err(_) => break,
            }
        }
        let status = child.wait().unwrap();
        let next = last_done.map(|d| d + 1).unwrap_or(start);
        if !timed_out && status.success() && next >= cases.len() {
            break;
        }
        if next >= cases.len() {
            break;
        }
        crashes += 1;
        let mut out = Out::append(events_path);
        out.emit(&on_crash(&cases[next], if timed_out { "timeout".to_string() } else { format!("{status}") }));
        out.flush();
        start = next + 1;
        if crashes > 20000 {
            eprintln!("too many crashes");
            return 3;
        }
    }
    0
}
