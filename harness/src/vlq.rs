//! C06 (VLQ clause): the implementation's base64 VLQ text for blocks of integers, as code points.
//! The encoder is not exported by its crate; its source file is self-contained and included verbatim.
#[path = "/repo/crates/sourcemap-writer/src/base64_vlq/mod.rs"]
#[allow(dead_code)]
mod base64_vlq_impl;

use crate::util::*;
use serde_json::json;

/// vlq <cases.ndjson> <events.ndjson>;  case: {id, nums: [int]}
pub fn run(args: &[String]) -> i32 {
    let cases = read_ndjson(&args[0]);
    let mut out = Out::create(&args[1]);
    for c in &cases {
        let nums: Vec<i64> = c["nums"].as_array().unwrap().iter().map(|n| n.as_i64().unwrap()).collect();
        let r = guarded(|| nums.iter().map(|n| base64_vlq_impl::base64_vlq(*n as isize).chars().map(|ch| ch as u32).collect::<Vec<u32>>()).collect::<Vec<_>>());
        match r {
            Ok(digits) => out.emit(&json!({"ev": "Vlq", "id": c["id"], "nums": nums, "digits": digits})),
            Err(m) => out.emit(&json!({"ev": "Vlq", "id": c["id"], "nums": nums, "digits": [], "panic": m})),
        }
    }
    0
}
