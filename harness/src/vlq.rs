//! C06 (VLQ clause): the implementation's base64 VLQ text for blocks of integers, as code points.
//! The encoder is not exported by its crate; its source file is self-contained and included verbatim.
#[path = "/repo/crates/sourcemap-writer/src/base64_vlq/mod.rs"]
#[allow(dead_code)]
mod base64_vlq_impl;

use crate::util::*;
use serde_json::json;

/// vlq <cases.ndjson> <events.ndjson>;  case: {id, nums: [int]}
pub fn run(args: &[String]) -> i32 {
    let cases = read_ndjson(&args[0]);
    let mut out = Out::create(&args[1]);
    for c in &cases {
        if c["big"].is_array() {
            // integers beyond 32 bits (TLC's integers are 32-bit): given as decimal strings; what is recorded besides the emitted digits is
            // only another REPRESENTATION of the same number - sign, the low 4 bits of the magnitude and the base-32 digits of the rest
            let mut items = vec![];
            for t in c["big"].as_array().unwrap() {
                let text = t.as_str().unwrap();
                let n: i128 = text.parse().unwrap();
                let mag: u128 = n.unsigned_abs();
                let mut rest = mag >> 4;
                let mut groups: Vec<u32> = vec![];
                while rest > 0 {
                    groups.push((rest & 31) as u32);
                    rest >>= 5;
                }
                let r = guarded(|| base64_vlq_impl::base64_vlq(n as isize).chars().map(|ch| ch as u32).collect::<Vec<u32>>());
                items.push(match r {
                    Ok(d) => json!({"text": text, "neg": n < 0, "low4": (mag & 15) as u32, "groups": groups, "digits": d, "panicked": false}),
                    Err(_) => json!({"text": text, "neg": n < 0, "low4": (mag & 15) as u32, "groups": groups, "digits": [], "panicked": true}),
                });
            }
            out.emit(&json!({"ev": "VlqBig", "id": c["id"], "items": items}));
            continue;
        }
        let nums: Vec<i64> = c["nums"].as_array().unwrap().iter().map(|n| n.as_i64().unwrap()).collect();
        let r = guarded(|| nums.iter().map(|n| base64_vlq_impl::base64_vlq(*n as isize).chars().map(|ch| ch as u32).collect::<Vec<u32>>()).collect::<Vec<_>>());
        match r {
            Ok(digits) => out.emit(&json!({"ev": "Vlq", "id": c["id"], "nums": nums, "digits": digits})),
            Err(m) => out.emit(&json!({"ev": "Vlq", "id": c["id"], "nums": nums, "digits": [], "panic": m})),
        }
    }
    0
}
