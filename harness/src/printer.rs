//! C16 drivers.
//!  roundtrip: abstract document -> text -> real parser -> real GraphQL printer -> text -> real parser.
//!  server:    abstract schema model -> project -> real CLI `generate` with serverGraphqlOutput -> template literal body.
use crate::cli::run_project;
use crate::parse::cptab;
use crate::project::*;
use crate::render::*;
use crate::util::*;
use nitrogql_printer::GraphQLPrinter;
use nitrogql_semantics::resolve_operation_extensions;
use serde_json::{Value, json};
use sourcemap_writer::SourceWriter;

fn cps(s: &str) -> Vec<u32> {
    s.chars().map(|c| c as u32).collect()
}

fn roundtrip_case(c: &Value) -> Value {
    let kind = c["kind"].as_str().unwrap();
    let a = &c["A"];
    let text: &'static str = Box::leak(if kind == "op" { render_op_doc(a).0 } else { render_ts_doc(a).0 }.into_boxed_str());
    let out = match guarded(|| {
        if kind == "op" {
            let doc = match nitrogql_parser::parse_operation_document(text) {
                Ok(d) => d,
                Err(e) => return json!({"k": "parse-failed", "msg": e.into_message()}),
            };
            let parsed = project_operation_document_ext(&doc);
            let (doc, _) = match resolve_operation_extensions(doc) {
                Ok(x) => x,
                Err(_) => return json!({"k": "parse-failed", "msg": "extension resolution"}),
            };
            let mut w = SourceWriter::new();
            doc.print_graphql(&mut w);
            let printed: &'static str = Box::leak(w.into_buffers().buffer.into_boxed_str());
            let re = match nitrogql_parser::parse_operation_document(printed) {
                Ok(d) => json!({"k": "ok", "doc": project_operation_document_ext(&d)}),
                Err(e) => json!({"k": "err", "msg": e.into_message()}),
            };
            json!({"k": "ok", "parsed": parsed, "printed": cps(printed), "reparsed": re})
        } else {
            let doc = match nitrogql_parser::parse_type_system_document(text) {
                Ok(d) => d,
                Err(e) => return json!({"k": "parse-failed", "msg": e.into_message()}),
            };
            let parsed = project_type_system_or_extension_document(&doc);
            let mut w = SourceWriter::new();
            doc.print_graphql(&mut w);
            let printed: &'static str = Box::leak(w.into_buffers().buffer.into_boxed_str());
            let re = match nitrogql_parser::parse_type_system_document(printed) {
                Ok(d) => json!({"k": "ok", "doc": project_type_system_or_extension_document(&d)}),
                Err(e) => json!({"k": "err", "msg": e.into_message()}),
            };
            json!({"k": "ok", "parsed": parsed, "printed": cps(printed), "reparsed": re})
        }
    }) {
        Ok(v) => v,
        Err(m) => json!({"k": "panic", "msg": m}),
    };
    // input metadata: does the abstract document contain a block string at all?
    let has_block = a.to_string().contains("\"block\":true");
    json!({"ev": "RoundTrip", "kind": kind, "A": a, "hasBlock": has_block, "out": out, "cptab": cptab(&[a, &out])})
}

/// roundtrip <cases> <events>
pub fn run_roundtrip(args: &[String]) -> i32 {
    let cases = read_ndjson(&args[0]);
    let mut out = Out::create(&args[1]);
    for c in &cases {
        out.emit(&roundtrip_case(c));
    }
    0
}

/// server <cli> <cases> <events> <scratch>   case: {model: TsDoc, nfiles, config: extra yaml lines}
pub fn run_server(args: &[String]) -> i32 {
    let cli = &args[0];
    let cases = read_ndjson(&args[1]);
    let mut out = Out::create(&args[2]);
    let scratch = std::path::PathBuf::from(&args[3]);
    for (i, c) in cases.iter().enumerate() {
        let model = &c["model"];
        let defs = model["defs"].as_array().unwrap();
        // split definitions over files as requested
        let nfiles = c["nfiles"].as_u64().unwrap_or(1) as usize;
        let mut files: Vec<(String, String)> = vec![];
        let per = defs.len().div_ceil(nfiles.max(1)).max(1);
        for (k, chunk) in defs.chunks(per).enumerate() {
            files.push((format!("schema/s{k}.graphql"), render_ts_doc(&json!({"defs": chunk})).0));
        }
        files.push(("ops/q.graphql".into(), c["operation"].as_str().unwrap_or("query Q { __typename }\n").to_string()));
        let plugins = if c["modelPlugin"].as_bool().unwrap_or(false) { "    plugins:\n      - \"nitrogql:model-plugin\"\n" } else { "" };
        let cfg = format!(
            "schema: ./schema/*.graphql\ndocuments: ./ops/*.graphql\nextensions:\n  nitrogql:\n{}    generate:\n      schemaOutput: ./gen/schema.d.ts\n      serverGraphqlOutput: ./gen/server.ts\n{}",
            plugins,
            c["config"].as_str().unwrap_or("")
        );
        files.push(("graphql.config.yaml".into(), cfg));
        let dir = scratch.join(format!("p{i}"));
        let run = run_project(cli, &dir, &files, &["--output-format".into(), "json".into(), "generate".into()], 60);
        let written = run.written();
        let o = if run.panicked() {
            json!({"k": "panic", "msg": run.stderr.chars().take(400).collect::<String>()})
        } else if run.exit != 0 {
            json!({"k": "err", "msg": run.stdout.chars().take(800).collect::<String>()})
        } else {
            match written.get("gen/server.ts") {
                None => json!({"k": "missing"}),
                Some(t) => match (t.find('`'), t.rfind('`')) {
                    (Some(a), Some(b)) if b > a => {
                        let pre = &t[..a];
                        let post = &t[b + 1..];
                        json!({"k": "ok", "body": cps(&t[a + 1..b]), "before": pre, "after": post})
                    }
                    _ => json!({"k": "missing"}),
                },
            }
        };
        // what the server schema must denote: the input model, or (model plugin) the input minus the plugin's directive applications
        let expect = if c["expectModel"].is_object() { &c["expectModel"] } else { model };
        out.emit(&json!({"ev": "ServerSchema", "model": expect, "out": o, "cptab": cptab(&[expect]), "modelPlugin": c["modelPlugin"].as_bool().unwrap_or(false)}));
        let _ = std::fs::remove_dir_all(&dir);
    }
    0
}
