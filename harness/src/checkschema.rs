//! C05 driver: schema files given as abstract items -> SDL text per file -> real parser per file (file index set
//! as the CLI does) -> concatenation + the CLI's built-ins -> resolve_schema_extensions ->
//! check_type_system_document -> diagnostics.
use crate::pipeline::cli_builtins::nitrogql_builtins;
use crate::render::render_ts_doc;
use crate::util::*;
use graphql_builtins::generate_builtins;
use nitrogql_ast::{TypeSystemOrExtensionDocument, set_current_file_of_pos};
use nitrogql_checker::check_type_system_document;
use nitrogql_error::PositionedError;
use nitrogql_parser::parse_type_system_document;
use nitrogql_semantics::resolve_schema_extensions;
use serde_json::{Value, json};
use std::collections::HashMap;

fn leak(s: String) -> &'static str {
    Box::leak(s.into_boxed_str())
}

pub fn render_files(files: &Value) -> Vec<String> {
    files.as_array().unwrap().iter().map(|f| render_ts_doc(&json!({"defs": f["items"]})).0).collect()
}

pub fn check_schema_texts(texts: &[String]) -> Value {
    let r = guarded(|| {
        let mut docs = vec![];
        for (i, t) in texts.iter().enumerate() {
            set_current_file_of_pos(i);
            match parse_type_system_document(leak(t.clone())) {
                Ok(d) => docs.push(d),
                Err(e) => return json!({"k": "stage-error", "stage": "parse", "file": i, "msg": e.into_message(), "text": t}),
            }
        }
        set_current_file_of_pos(0);
        let mut merged = TypeSystemOrExtensionDocument::merge(docs);
        merged.extend(generate_builtins());
        merged.extend(nitrogql_builtins());
        let resolved = match resolve_schema_extensions(merged) {
            Ok(d) => d,
            Err(e) => {
                let pe: PositionedError = e.into();
                let pos = pe.position();
                return json!({"k": "stage-error", "stage": "extensions", "msg": pe.message(),
                              "line": pos.map(|p| p.line as i64).unwrap_or(-1), "file": pos.map(|p| p.file as i64).unwrap_or(-1)});
            }
        };
        let diags: Vec<Value> = check_type_system_document(&resolved)
            .into_iter()
            .map(|e| {
                let pe: PositionedError = e.into();
                let pos = pe.position();
                json!({"msg": pe.message(), "line": pos.map(|p| p.line as i64).unwrap_or(-1), "col": pos.map(|p| p.column as i64).unwrap_or(-1),
                       "file": pos.map(|p| p.file as i64).unwrap_or(-1)})
            })
            .collect();
        json!({"k": "ok", "diags": diags})
    });
    match r {
        Ok(v) => v,
        Err(m) => json!({"k": "panic", "msg": m}),
    }
}

/// checkschema <cases.ndjson> <events.ndjson>
/// case: {files: [{path, items}], mode: "valid"|"fault", fault?, base?: files of the unmutated model}
pub fn run(args: &[String]) -> i32 {
    let cases = read_ndjson(&args[0]);
    let mut out = Out::create(&args[1]);
    let mut base_cache: HashMap<String, usize> = HashMap::new();
    for c in &cases {
        let texts = render_files(&c["files"]);
        let o = check_schema_texts(&texts);
        let mut e = json!({"ev": "CheckSchema", "files": c["files"], "mode": c["mode"], "out": o, "id": c["id"]});
        if c["mode"] == "fault" {
            e["fault"] = c["fault"].clone();
            let key = c["baseId"].to_string();
            let n = *base_cache.entry(key).or_insert_with(|| {
                let b = check_schema_texts(&render_files(&c["base"]));
                if b["k"] == "ok" { b["diags"].as_array().unwrap().len() } else { 1 }
            });
            e["baseDiags"] = json!(n);
        }
        if c["keepText"] == true {
            e["texts"] = json!(texts);
        }
        out.emit(&e);
    }
    0
}
