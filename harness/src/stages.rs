//! C08 driver: feeds a text to every pipeline stage reachable from the CLI (and to the loader ABI, which
//! never runs check), each stage under catch_unwind.  Runs in a crash-isolated child process so that an
//! abort (panic inside an extern "C" function) is observed as data.  What is an acceptable outcome is
//! decided by Trace_C08 / Nitrogql.tla, not here.
use crate::opfile::loader_emit;
use crate::util::*;
use graphql_builtins::generate_builtins;
use nitrogql_ast::{OperationDocument, TypeSystemOrExtensionDocument, set_current_file_of_pos};
use nitrogql_checker::{OperationCheckContext, check_operation_document, check_type_system_document};
use nitrogql_error::{PositionedError, print_positioned_error};
use nitrogql_plugin::Plugin;
use nitrogql_printer::{
    GraphQLPrinter, OperationJSPrinterOptions, OperationTypePrinterOptions, ResolverTypePrinter, ResolverTypePrinterOptions,
    SchemaTypePrinter, SchemaTypePrinterOptions, print_js_for_operation_document, print_types_for_operation_document,
};
use nitrogql_semantics::{
    OperationExtension, OperationResolver, ast_to_type_system, resolve_operation_extensions, resolve_operation_imports,
    resolve_schema_extensions,
};
use serde_json::{Value, json};
use sourcemap_writer::SourceWriter;
use std::borrow::Cow;
use std::collections::HashMap;
use std::path::{Path, PathBuf};

fn leak(s: &str) -> &'static str {
    Box::leak(s.to_string().into_boxed_str())
}

struct Stages(Vec<Value>);
impl Stages {
    /// runs one stage; returns Some(value) when it completed without panicking
    fn run<T>(&mut self, name: &str, f: impl FnOnce() -> Result<T, String>) -> Option<T> {
        let t0 = std::time::Instant::now();
        let r = guarded(f);
        let ms = t0.elapsed().as_millis() as u64;
        match r {
            Ok(Ok(v)) => {
                self.0.push(json!({"s": name, "o": "ok", "ms": ms}));
                Some(v)
            }
            Ok(Err(m)) => {
                self.0.push(json!({"s": name, "o": "err", "ms": ms, "msg": m.chars().take(200).collect::<String>()}));
                None
            }
            Err(m) => {
                self.0.push(json!({"s": name, "o": "panic", "ms": ms, "msg": m.chars().take(300).collect::<String>()}));
                None
            }
        }
    }
}

struct MapResolver<'a>(HashMap<PathBuf, (&'a OperationDocument<'static>, &'a OperationExtension<'static>)>);
impl<'a> OperationResolver<'static> for MapResolver<'a> {
    fn resolve(&self, path: &Path) -> Option<(&OperationDocument<'static>, &OperationExtension<'static>)> {
        self.0.get(path).map(|(d, e)| (*d, *e))
    }
}

const LIB: &str = "fragment Lib on Query { a }\nfragment Lib2 on Query { q { a } }\n";

fn render_errors(errs: Vec<PositionedError>, files: &Vec<(PathBuf, &'static str, ())>) -> Result<(), String> {
    for e in errs.iter() {
        let _ = print_positioned_error(e, files);
    }
    Ok(())
}

fn op_stages(text: &'static str, schema_text: &'static str) -> Vec<Value> {
    let mut st = Stages(vec![]);
    let files: Vec<(PathBuf, &'static str, ())> =
        vec![(PathBuf::from("/p/schema.graphql"), schema_text, ()), (PathBuf::from("/p/op.graphql"), text, ()), (PathBuf::from("/p/lib.graphql"), LIB, ())];
    // the schema the operation is checked against (assumed valid: it is part of the test fixture)
    set_current_file_of_pos(0);
    let mut sdoc = nitrogql_parser::parse_type_system_document(schema_text).expect("fixture schema");
    sdoc.extend(generate_builtins());
    let sresolved = resolve_schema_extensions(sdoc).ok().expect("fixture schema");
    let schema = ast_to_type_system(&sresolved);
    set_current_file_of_pos(2);
    let (libdoc, libext) = resolve_operation_extensions(nitrogql_parser::parse_operation_document(LIB).ok().expect("lib")).ok().expect("lib");
    set_current_file_of_pos(1);
    let parsed = st.run("parse", || nitrogql_parser::parse_operation_document(text).map_err(|e| {
        let pe: PositionedError = e.into();
        let _ = print_positioned_error(&pe, &files);
        pe.message()
    }));
    set_current_file_of_pos(0);
    let Some(parsed) = parsed else { return st.0 };
    let Some((doc, ext)) = st.run("extensions", || resolve_operation_extensions(parsed).map_err(|e| {
        let pe: PositionedError = e.into();
        let _ = print_positioned_error(&pe, &files);
        pe.message()
    })) else { return st.0 };
    let root = PathBuf::from("/p/op.graphql");
    let mut map = HashMap::new();
    map.insert(PathBuf::from("/p/lib.graphql"), (&libdoc, &libext));
    map.insert(root.clone(), (&doc, &ext));
    let resolver = MapResolver(map);
    let Some(full) = st.run("imports", || resolve_operation_imports((&root, &doc, &ext), &resolver).map_err(|e| {
        let pe: PositionedError = e.into();
        let _ = print_positioned_error(&pe, &files);
        pe.message()
    })) else { return st.0 };
    let ctx = OperationCheckContext::new(&schema);
    let Some(errs) = st.run("check", || Ok(check_operation_document(&full, &ctx))) else { return st.0 };
    if !errs.is_empty() {
        let n = errs.len();
        st.run("render-diagnostics", || render_errors(errs.into_iter().map(|e| e.into()).collect(), &files));
        st.0.push(json!({"s": "check-verdict", "o": "rejected", "n": n}));
        return st.0;
    }
    st.0.push(json!({"s": "check-verdict", "o": "accepted"}));
    st.run("generate-types", || {
        let mut w = SourceWriter::new();
        let mut o = OperationTypePrinterOptions::default();
        o.schema_source = "./schema".into();
        o.print_values = true;
        let s: &graphql_type_system::Schema<Cow<str>, nitrogql_ast::base::Pos> = &schema;
        print_types_for_operation_document(o, s, &full, &mut w);
        Ok(())
    });
    st.run("generate-js", || {
        let mut w = SourceWriter::new();
        print_js_for_operation_document(OperationJSPrinterOptions::default(), &full, &mut w);
        Ok(())
    });
    st.run("print-graphql", || {
        let mut w = SourceWriter::new();
        full.print_graphql(&mut w);
        Ok(())
    });
    st.0
}

fn ts_stages(text: &'static str) -> Vec<Value> {
    let mut st = Stages(vec![]);
    let files: Vec<(PathBuf, &'static str, ())> = vec![(PathBuf::from("/p/schema.graphql"), text, ())];
    set_current_file_of_pos(0);
    let Some(mut doc) = st.run("parse", || nitrogql_parser::parse_type_system_document(text).map_err(|e| {
        let pe: PositionedError = e.into();
        let _ = print_positioned_error(&pe, &files);
        pe.message()
    })) else { return st.0 };
    st.run("print-graphql", || {
        let mut w = SourceWriter::new();
        doc.print_graphql(&mut w);
        Ok(())
    });
    doc.extend(generate_builtins());
    let Some(resolved) = st.run("extensions", || resolve_schema_extensions(doc).map_err(|e| {
        let pe: PositionedError = e.into();
        let _ = print_positioned_error(&pe, &files);
        pe.message()
    })) else { return st.0 };
    let Some(errs) = st.run("check", || Ok(check_type_system_document(&resolved))) else { return st.0 };
    if !errs.is_empty() {
        let n = errs.len();
        st.run("render-diagnostics", || render_errors(errs.into_iter().map(|e| e.into()).collect(), &files));
        st.0.push(json!({"s": "check-verdict", "o": "rejected", "n": n}));
        return st.0;
    }
    st.0.push(json!({"s": "check-verdict", "o": "accepted"}));
    // generate may legitimately fail with an error value (e.g. a custom scalar without configured type)
    st.run("generate-schema-types", || {
        let mut w = SourceWriter::new();
        let mut p = SchemaTypePrinter::new(SchemaTypePrinterOptions::default(), &mut w);
        p.print_document(&resolved).map_err(|e| format!("{e:?}"))
    });
    st.run("generate-resolver-types", || {
        let mut w = SourceWriter::new();
        let mut o = ResolverTypePrinterOptions::default();
        o.schema_source = "./schema".into();
        let mut p = ResolverTypePrinter::new(o, &mut w);
        let plugins: Vec<Plugin> = vec![];
        p.print_document(&resolved, &plugins).map_err(|e| format!("{e:?}"))
    });
    st.run("print-resolved-graphql", || {
        let mut w = SourceWriter::new();
        resolved.print_graphql(&mut w);
        Ok(())
    });
    st.0
}

fn case_event(c: &Value, schema_text: &'static str) -> Value {
    let text = leak(&c["cp"].as_array().unwrap().iter().filter_map(|x| char::from_u32(x.as_u64().unwrap() as u32)).collect::<String>());
    let kind = c["kind"].as_str().unwrap();
    let mut stages = match kind {
        "op" => op_stages(text, schema_text),
        "ts" => ts_stages(text),
        _ => {
            let mut st = Stages(vec![]);
            st.run("parse-config", || Ok(nitrogql_config_file::parse_config(text).is_some()));
            st.0
        }
    };
    if kind == "op" {
        // the loader entry points, without a prior check
        let mut files = HashMap::new();
        files.insert("/p/op.graphql".to_string(), text.to_string());
        files.insert("/p/lib.graphql".to_string(), LIB.to_string());
        let t0 = std::time::Instant::now();
        let r = loader_emit(&files, "/p/op.graphql", "");
        let ms = t0.elapsed().as_millis() as u64;
        stages.push(match r {
            Ok(_) => json!({"s": "loader", "o": "ok", "ms": ms}),
            Err(e) if e == "PANIC" => json!({"s": "loader", "o": "panic", "ms": ms, "msg": "panic in loader thread"}),
            Err(e) => json!({"s": "loader", "o": "err", "ms": ms, "msg": e.chars().take(200).collect::<String>()}),
        });
    }
    json!({"ev": "Stages", "id": c["id"], "kind": kind, "cp": c["cp"], "stages": stages})
}

/// stages-child <cases> <events> <start> <schema-file>
pub fn run_child(args: &[String]) -> i32 {
    use std::io::Write;
    let cases = read_ndjson(&args[0]);
    let start: usize = args[2].parse().unwrap();
    let schema_text = leak(&std::fs::read_to_string(&args[3]).unwrap());
    let mut out = Out::append(&args[1]);
    for (i, c) in cases.iter().enumerate().skip(start) {
        out.emit(&case_event(c, schema_text));
        out.flush();
        let so = std::io::stdout();
        let mut so = so.lock();
        writeln!(so, "done {i}").unwrap();
        so.flush().unwrap();
    }
    0
}

/// stages <cases> <events> <schema-file>
pub fn run(args: &[String]) -> i32 {
    crate::util::run_crash_isolated_ex("stages-child", &args[0], &args[1], &[args[2].clone()], 20, |case, status| {
        json!({"ev": "Stages", "id": case["id"], "kind": case["kind"], "cp": case["cp"],
               "stages": [{"s": "process", "o": if status == "timeout" { "timeout" } else { "abort" }, "msg": status}]})
    })
}
