//! C10 / C09 / C01 / C02 driver: abstract schema files (+ operation files) + configuration text -> temp project ->
//! real `nitrogql generate` -> emitted declaration files read by the TS-subset reader (syntax only).
//! Emits one event per case with the ASTs; all meaning is decided by the TLA+ trace specs.
use crate::cli::run_project;
use crate::render::{render_op_doc, render_ts_doc};
use crate::tsread::read_ts;
use crate::util::*;
use serde_json::{Value, json};
use std::path::PathBuf;

const PRELUDE: &str = "type __Beautify<Obj> = { [K in keyof Obj]: Obj[K] } & {};\nexport type __SelectionSet<Orig, Obj, Others> =\n  __Beautify<Pick<{\n    [K in keyof Orig]: Obj extends { [P in K]?: infer V } ? V : unknown\n  }, Extract<keyof Orig, keyof Obj>> & Others>;\n";

/// the TS type AST of a configured scalar type text (syntax only); unreadable text -> raw token list of the text
pub fn parse_ts_type(text: &str) -> Value {
    match read_ts(&format!("type __X = {text};")) {
        Ok(ast) => {
            let st = &ast["stmts"];
            if st.as_array().map(|a| a.len() == 1).unwrap_or(false) && st[0]["k"] == "type" {
                st[0]["t"].clone()
            } else {
                json!({"k": "raw", "tokens": [text]})
            }
        }
        Err(_) => json!({"k": "raw", "tokens": [text]}),
    }
}

fn star_import(ast: &Value) -> String {
    for s in ast["stmts"].as_array().unwrap() {
        if s["k"] == "import" && s["star"].as_str().map(|x| !x.is_empty()).unwrap_or(false) {
            return s["star"].as_str().unwrap().to_string();
        }
    }
    String::new()
}

fn read_file(written: &std::collections::BTreeMap<String, String>, name: &str) -> Value {
    match written.get(name) {
        None => json!({"k": "missing"}),
        Some(t) => match read_ts(t) {
            Ok(ast) => json!({"k": "ok", "stmts": ast["stmts"], "schemaNs": star_import(&ast)}),
            Err(w) => json!({"k": "unreadable", "why": w, "text": t.chars().take(3000).collect::<String>()}),
        },
    }
}

/// typegen <cli> <cases.ndjson> <events.ndjson> <scratch> [workers]
/// case: {id, schemaFiles: [{path, items}], opFiles: [{path, doc}], configText, scalarTexts: {name: {ri,ro,oi,oo}}, want: {resolvers: bool}, ...}
/// The case is echoed into the event (minus configText) together with what was observed.
pub fn run(args: &[String]) -> i32 {
    let cli = args[0].clone();
    let cases = std::sync::Arc::new(read_ndjson(&args[1]));
    let out = std::sync::Arc::new(std::sync::Mutex::new(Out::create(&args[2])));
    let scratch = PathBuf::from(&args[3]);
    let workers: usize = args.get(4).and_then(|w| w.parse().ok()).unwrap_or(8);
    let next = std::sync::Arc::new(std::sync::Mutex::new(0usize));
    let mut hs = vec![];
    for w in 0..workers {
        let (cases, out, next, cli, scratch) = (cases.clone(), out.clone(), next.clone(), cli.clone(), scratch.clone());
        hs.push(std::thread::spawn(move || {
            loop {
                let i = {
                    let mut n = next.lock().unwrap();
                    let i = *n;
                    *n += 1;
                    i
                };
                if i >= cases.len() {
                    break;
                }
                let c = &cases[i];
                let mut files: Vec<(String, String)> = vec![("graphql.config.yaml".into(), c["configText"].as_str().unwrap().to_string())];
                for f in c["schemaFiles"].as_array().unwrap() {
                    files.push((strs(&f["path"]).join("/"), render_ts_doc(&json!({"defs": f["items"]})).0));
                }
                let mut op_names = vec![];
                for f in c["opFiles"].as_array().map(|a| a.as_slice()).unwrap_or(&[]) {
                    let rel = strs(&f["path"]).join("/");
                    op_names.push(rel.clone());
                    files.push((rel, render_op_doc(&f["doc"]).0));
                }
                if op_names.is_empty() {
                    files.push(("ops/q.graphql".into(), "query Q { __typename }\n".into()));
                }
                let dir = scratch.join(format!("w{w}_p{i}"));
                let run = run_project(&cli, &dir, &files, &["--output-format".into(), "json".into(), "generate".into()], 60);
                let written = run.written();
                let mut e = c.clone();
                e.as_object_mut().unwrap().remove("configText");
                e["ev"] = json!("TypeGen");
                e["exit"] = json!(run.exit);
                e["panicked"] = json!(run.panicked());
                e["diag"] = json!(if run.exit != 0 || run.panicked() { format!("{}\n{}", run.stdout.chars().take(1500).collect::<String>(), run.stderr.chars().take(800).collect::<String>()) } else { String::new() });
                e["schemaTs"] = read_file(&written, "gen/schema.d.ts");
                e["preludeOk"] = json!(written.get("gen/schema.d.ts").map(|t| t.contains(PRELUDE)).unwrap_or(false));
                e["resolversTs"] = read_file(&written, "gen/resolvers.d.ts");
                let mut ops = vec![];
                for rel in &op_names {
                    let stem = rel.strip_suffix(".graphql").unwrap_or(rel);
                    // the declaration file's name depends on the generate mode; whichever exists is read
                    let name = [format!("{stem}.d.graphql.ts"), format!("{stem}.graphql.d.ts"), format!("{stem}.graphql.ts")]
                        .into_iter()
                        .find(|n| written.contains_key(n))
                        .unwrap_or_else(|| format!("{stem}.d.graphql.ts"));
                    let mut o = read_file(&written, &name);
                    o["file"] = json!(rel);
                    ops.push(o);
                }
                e["opTs"] = json!(ops);
                let mut sc = serde_json::Map::new();
                if let Some(m) = c["scalarTexts"].as_object() {
                    for (name, t) in m {
                        let mut per = serde_json::Map::new();
                        for key in ["ri", "ro", "oi", "oo"] {
                            per.insert(key.to_string(), parse_ts_type(t[key].as_str().unwrap_or("unknown")));
                        }
                        sc.insert(name.clone(), Value::Object(per));
                    }
                }
                e["scalars"] = Value::Object(sc);
                if c["keepTexts"] == true {
                    e["texts"] = json!(written);
                    e["inputs"] = json!(files.iter().map(|(a, b)| json!({"rel": a, "text": b})).collect::<Vec<_>>());
                }
                out.lock().unwrap().emit(&e);
                let _ = std::fs::remove_dir_all(&dir);
            }
        }));
    }
    for h in hs {
        h.join().unwrap();
    }
    out.lock().unwrap().flush();
    0
}
