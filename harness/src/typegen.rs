//! C10 / C09 / C01 / C02 driver: abstract schema files (+ operation files) + configuration text -> temp project ->
//! real `nitrogql generate` -> emitted declaration files read by the TS-subset reader (syntax only).
//! Emits one event per case with the ASTs; all meaning is decided by the TLA+ trace specs.
use crate::cli::run_project;
use crate::render::{Layout, render_op_doc, render_ts_doc};
use std::collections::HashMap;
use crate::tsread::read_ts;
use crate::util::*;
use serde_json::{Value, json};
use std::path::PathBuf;

const PRELUDE: &str = "type __Beautify<Obj> = { [K in keyof Obj]: Obj[K] } & {};\nexport type __SelectionSet<Orig, Obj, Others> =\n  __Beautify<Pick<{\n    [K in keyof Orig]: Obj extends { [P in K]?: infer V } ? V : unknown\n  }, Extract<keyof Orig, keyof Obj>> & Others>;\n";

/// the TS type AST of a configured scalar type text (syntax only); unreadable text -> raw token list of the text
pub fn parse_ts_type(text: &str) -> Value {
    match read_ts(&format!("type __X = {text};")) {
        Ok(ast) => {
            let st = &ast["stmts"];
            if st.as_array().map(|a| a.len() == 1).unwrap_or(false) && st[0]["k"] == "type" {
                st[0]["t"].clone()
            } else {
                json!({"k": "raw", "tokens": [text]})
            }
        }
        Err(_) => json!({"k": "raw", "tokens": [text]}),
    }
}

fn comps(p: &str) -> Vec<String> {
    p.split('/').filter(|x| !x.is_empty() && *x != ".").map(|x| x.to_string()).collect()
}

fn lc(pos: &HashMap<String, (usize, usize)>, tag: &str) -> Value {
    match pos.get(tag) {
        Some((l, c)) => json!([l, c]),
        None => json!([-1, -1]),
    }
}

/// token table of a rendered file plus, per definition, where its keyword / name / member names were placed (from the renderer's tags)
fn input_record(path: &str, kind: &str, defs: &[Value], lay: &Layout) -> Value {
    let pos: HashMap<String, (usize, usize)> = lay.positions.iter().map(|(t, l, c)| (t.clone(), (*l, *c))).collect();
    let tokens: Vec<Value> = lay.tokens.iter().map(|(l, c, t)| json!([l, c, t])).collect();
    let mut ann = vec![];
    for (i, d) in defs.iter().enumerate() {
        let p = format!("defs.{i}");
        let kw = lc(&pos, &format!("{p}.pos"));
        let first = if pos.contains_key(&format!("{p}.extPos")) { lc(&pos, &format!("{p}.extPos")) } else { kw.clone() };
        let list = |key: &str| -> Vec<Value> {
            d[key].as_array().map(|a| (0..a.len()).map(|j| lc(&pos, &format!("{p}.{key}.{j}.pos"))).collect()).unwrap_or_default()
        };
        ann.push(json!({"k": d["k"], "name": d.get("name").cloned().unwrap_or(json!("")), "first": first, "kw": kw, "namePos": lc(&pos, &format!("{p}.namePos")),
                        "fields": list("fields"), "fieldNames": d["fields"].as_array().map(|a| a.iter().map(|f| f["name"].clone()).collect::<Vec<_>>()).unwrap_or_default(),
                        "inputFields": list("inputFields"), "inputFieldNames": d["inputFields"].as_array().map(|a| a.iter().map(|f| f["name"].clone()).collect::<Vec<_>>()).unwrap_or_default(),
                        "values": list("values")}));
    }
    json!({"path": comps(path), "kind": kind, "tokens": tokens, "ann": ann})
}

fn utf16_line_lens(text: &str) -> Vec<usize> {
    text.split('\n').map(|l| l.encode_utf16().count()).collect()
}

/// per generated line, the UTF-16 columns at which an identifier-like word starts (purely lexical: a word character not preceded by one)
fn ident_starts(text: &str) -> Vec<Vec<usize>> {
    let is_word = |c: char| c.is_ascii_alphanumeric() || c == '_' || c == '$';
    text.split('\n')
        .map(|l| {
            let mut out = vec![];
            let mut col = 0usize;
            let mut prev_word = false;
            for c in l.chars() {
                let w = is_word(c);
                if w && !prev_word && !c.is_ascii_digit() {
                    out.push(col);
                }
                prev_word = w;
                col += c.len_utf16();
            }
            out
        })
        .collect()
}

fn cps(s: &str) -> Vec<u32> {
    s.chars().map(|c| c as u32).collect()
}

fn map_record(gen_rel: &str, gen_text: &str, map_text: &str) -> Value {
    let m = match serde_json::from_str::<Value>(map_text) {
        Ok(m) if m.is_object() => m,
        _ => return json!({"gen": comps(gen_rel), "lineLens": utf16_line_lens(gen_text), "map": {"k": "bad-json"}}),
    };
    let strings_ok = |v: &Value| v.as_array().map(|a| a.iter().all(|x| x.is_string())).unwrap_or(false);
    if !(m["version"].is_i64() && strings_ok(&m["sources"]) && strings_ok(&m["names"]) && m["mappings"].is_string()) {
        return json!({"gen": comps(gen_rel), "lineLens": utf16_line_lens(gen_text), "map": {"k": "bad-shape"}});
    }
    json!({"gen": comps(gen_rel), "lineLens": utf16_line_lens(gen_text), "identStarts": ident_starts(gen_text),
           "map": {"k": "ok", "version": m["version"], "mappings": cps(m["mappings"].as_str().unwrap()),
                   "sources": m["sources"].as_array().unwrap().iter().map(|s| json!(comps(s.as_str().unwrap()))).collect::<Vec<_>>(),
                   "sourcesRaw": m["sources"], "names": m["names"],
                   "file": m.get("file").cloned().unwrap_or(json!(""))}})
}

/// module specifier of the `import type * as X from "..."` statement, split at '/'
fn star_import_from(ast: &Value) -> Vec<String> {
    for s in ast["stmts"].as_array().unwrap() {
        if s["k"] == "import" && s["star"].as_str().map(|x| !x.is_empty()).unwrap_or(false) {
            return s["from"].as_str().unwrap_or("").split('/').filter(|x| !x.is_empty()).map(|x| x.to_string()).collect();
        }
    }
    vec![]
}

fn star_import(ast: &Value) -> String {
    for s in ast["stmts"].as_array().unwrap() {
        if s["k"] == "import" && s["star"].as_str().map(|x| !x.is_empty()).unwrap_or(false) {
            return s["star"].as_str().unwrap().to_string();
        }
    }
    String::new()
}

fn read_file(written: &std::collections::BTreeMap<String, String>, name: &str) -> Value {
    match written.get(name) {
        None => json!({"k": "missing"}),
        Some(t) => match read_ts(t) {
            Ok(ast) => json!({"k": "ok", "stmts": ast["stmts"], "schemaNs": star_import(&ast), "schemaImport": star_import_from(&ast)}),
            Err(w) => json!({"k": "unreadable", "why": w, "text": t.chars().take(3000).collect::<String>()}),
        },
    }
}

/// typegen <cli> <cases.ndjson> <events.ndjson> <scratch> [workers]
/// case: {id, schemaFiles: [{path, items}], opFiles: [{path, doc}], configText, scalarTexts: {name: {ri,ro,oi,oo}}, want: {resolvers: bool}, ...}
/// The case is echoed into the event (minus configText) together with what was observed.
pub fn run(args: &[String]) -> i32 {
    let cli = args[0].clone();
    let cases = std::sync::Arc::new(read_ndjson(&args[1]));
    let out = std::sync::Arc::new(std::sync::Mutex::new(Out::create(&args[2])));
    let scratch = PathBuf::from(&args[3]);
    let workers: usize = args.get(4).and_then(|w| w.parse().ok()).unwrap_or(8);
    let next = std::sync::Arc::new(std::sync::Mutex::new(0usize));
    let mut hs = vec![];
    for w in 0..workers {
        let (cases, out, next, cli, scratch) = (cases.clone(), out.clone(), next.clone(), cli.clone(), scratch.clone());
        hs.push(std::thread::spawn(move || {
            loop {
                let i = {
                    let mut n = next.lock().unwrap();
                    let i = *n;
                    *n += 1;
                    i
                };
                if i >= cases.len() {
                    break;
                }
                let c = &cases[i];
                let mut files: Vec<(String, String)> = vec![("graphql.config.yaml".into(), c["configText"].as_str().unwrap().to_string())];
                let want_maps = c["want"]["maps"] == true;
                let mut inputs = vec![];
                for f in c["schemaFiles"].as_array().unwrap() {
                    let rel = strs(&f["path"]).join("/");
                    let (text, _, lay) = render_ts_doc(&json!({"defs": f["items"]}));
                    if want_maps {
                        inputs.push(input_record(&rel, "schema", f["items"].as_array().unwrap(), &lay));
                    }
                    files.push((rel, text));
                }
                let mut op_names = vec![];
                for f in c["opFiles"].as_array().map(|a| a.as_slice()).unwrap_or(&[]) {
                    let rel = strs(&f["path"]).join("/");
                    op_names.push(rel.clone());
                    let (text, _, lay) = render_op_doc(&f["doc"]);
                    if want_maps {
                        // tags of op documents count non-import definitions only when rendering; annotate with the same indices
                        let defs: Vec<Value> = f["doc"]["defs"].as_array().unwrap().clone();
                        inputs.push(input_record(&rel, "operation", &defs, &lay));
                    }
                    files.push((rel, text));
                }
                if op_names.is_empty() {
                    files.push(("ops/q.graphql".into(), "query Q { __typename }\n".into()));
                }
                let dir = scratch.join(format!("w{w}_p{i}"));
                let run = run_project(&cli, &dir, &files, &["--output-format".into(), "json".into(), "generate".into()], 60);
                let written = run.written();
                let mut e = c.clone();
                e.as_object_mut().unwrap().remove("configText");
                e["ev"] = json!(c["evName"].as_str().unwrap_or("TypeGen"));
                e["exit"] = json!(run.exit);
                e["panicked"] = json!(run.panicked());
                e["diag"] = json!(if run.exit != 0 || run.panicked() { format!("{}\n{}", run.stdout.chars().take(1500).collect::<String>(), run.stderr.chars().take(800).collect::<String>()) } else { String::new() });
                let schema_rel = c["schemaOutRel"].as_str().unwrap_or("gen/schema.d.ts");
                e["schemaTs"] = read_file(&written, schema_rel);
                e["preludeOk"] = json!(written.get(schema_rel).map(|t| t.contains(PRELUDE)).unwrap_or(false));
                e["resolversTs"] = read_file(&written, c["resolversOutRel"].as_str().unwrap_or("gen/resolvers.d.ts"));
                let mut ops = vec![];
                for rel in &op_names {
                    let stem = rel.strip_suffix(".graphql").unwrap_or(rel);
                    // the declaration file's name depends on the generate mode; whichever exists is read
                    let name = [format!("{stem}.d.graphql.ts"), format!("{stem}.graphql.d.ts"), format!("{stem}.graphql.ts")]
                        .into_iter()
                        .find(|n| written.contains_key(n))
                        .unwrap_or_else(|| format!("{stem}.d.graphql.ts"));
                    let mut o = read_file(&written, &name);
                    o["file"] = json!(rel);
                    ops.push(o);
                }
                e["opTs"] = json!(ops);
                let mut sc = serde_json::Map::new();
                if let Some(m) = c["scalarTexts"].as_object() {
                    for (name, t) in m {
                        let mut per = serde_json::Map::new();
                        for key in ["ri", "ro", "oi", "oo"] {
                            per.insert(key.to_string(), parse_ts_type(t[key].as_str().unwrap_or("unknown")));
                        }
                        sc.insert(name.clone(), Value::Object(per));
                    }
                }
                e["scalars"] = Value::Object(sc);
                let mut mt = serde_json::Map::new();
                if let Some(m) = c["modelTypeTexts"].as_object() {
                    for (name, t) in m {
                        mt.insert(name.clone(), parse_ts_type(t.as_str().unwrap_or("unknown")));
                    }
                }
                e["modelTypes"] = Value::Object(mt);
                if want_maps {
                    e["inputs"] = json!(inputs);
                    let mut maps = vec![];
                    for (name, text) in written.iter() {
                        if let Some(gfile) = name.strip_suffix(".map") {
                            maps.push(map_record(gfile, written.get(gfile).map(|s| s.as_str()).unwrap_or(""), text));
                        }
                    }
                    e["maps"] = json!(maps);
                }
                if c["keepTexts"] == true {
                    e["texts"] = json!(written);
                    e["inputs"] = json!(files.iter().map(|(a, b)| json!({"rel": a, "text": b})).collect::<Vec<_>>());
                }
                out.lock().unwrap().emit(&e);
                let _ = std::fs::remove_dir_all(&dir);
            }
        }));
    }
    for h in hs {
        h.join().unwrap();
    }
    out.lock().unwrap().flush();
    0
}
