//! Independent reader of the graphql-js AST JSON shape ("kind"-tagged objects) into the abstract
//! executable-document shape of ABSTRACT_JSON.md (without positions).  Purely structural; an
//! unknown kind or a missing mandatory key is an Err (reported as a malformed document).
use serde_json::{Value, json};

type R = Result<Value, String>;

fn kind<'a>(v: &'a Value) -> Result<&'a str, String> {
    v.get("kind").and_then(|k| k.as_str()).ok_or_else(|| format!("node without kind: {}", short(v)))
}
fn short(v: &Value) -> String {
    let s = v.to_string();
    s.chars().take(120).collect()
}
fn name_of(v: &Value, key: &str) -> Result<String, String> {
    let n = v.get(key).ok_or_else(|| format!("missing {key} in {}", short(v)))?;
    if kind(n)? != "Name" {
        return Err(format!("{key} is not a Name node: {}", short(n)));
    }
    n.get("value").and_then(|x| x.as_str()).map(|s| s.to_string()).ok_or_else(|| format!("Name without value: {}", short(n)))
}
fn list<'a>(v: &'a Value, key: &str) -> Result<&'a Vec<Value>, String> {
    v.get(key).and_then(|x| x.as_array()).ok_or_else(|| format!("missing array {key} in {}", short(v)))
}
fn cps(s: &str) -> Vec<u32> {
    s.chars().map(|c| c as u32).collect()
}

pub fn read_type(t: &Value) -> R {
    match kind(t)? {
        "NamedType" => Ok(json!({"k": "named", "n": name_of(t, "name")?})),
        "ListType" => Ok(json!({"k": "list", "of": read_type(t.get("type").ok_or("ListType without type")?)?})),
        "NonNullType" => Ok(json!({"k": "nn", "of": read_type(t.get("type").ok_or("NonNullType without type")?)?})),
        k => Err(format!("unknown type kind {k}")),
    }
}

pub fn read_value(v: &Value) -> R {
    let text = |v: &Value| -> Result<String, String> {
        v.get("value").and_then(|x| x.as_str()).map(|s| s.to_string()).ok_or_else(|| format!("value is not a string in {}", short(v)))
    };
    match kind(v)? {
        "Variable" => Ok(json!({"k": "var", "n": name_of(v, "name")?})),
        "IntValue" => Ok(json!({"k": "int", "v": text(v)?})),
        "FloatValue" => Ok(json!({"k": "float", "v": text(v)?})),
        "StringValue" => Ok(json!({"k": "string", "cp": cps(&text(v)?),
                                   "block": v.get("block").and_then(|b| b.as_bool()).unwrap_or(false)})),
        "BooleanValue" => Ok(json!({"k": "bool", "v": v.get("value").and_then(|b| b.as_bool()).ok_or("BooleanValue without boolean value")?})),
        "NullValue" => Ok(json!({"k": "null"})),
        "EnumValue" => Ok(json!({"k": "enum", "v": text(v)?})),
        "ListValue" => {
            let vs: Result<Vec<Value>, String> = list(v, "values")?.iter().map(read_value).collect();
            Ok(json!({"k": "list", "vs": vs?}))
        }
        "ObjectValue" => {
            let mut fs = vec![];
            for f in list(v, "fields")? {
                if kind(f)? != "ObjectField" {
                    return Err(format!("not an ObjectField: {}", short(f)));
                }
                fs.push(json!({"name": name_of(f, "name")?, "v": read_value(f.get("value").ok_or("ObjectField without value")?)?}));
            }
            Ok(json!({"k": "object", "fs": fs}))
        }
        k => Err(format!("unknown value kind {k}")),
    }
}

fn read_args(v: &Value) -> Result<Vec<Value>, String> {
    let mut out = vec![];
    for a in list(v, "arguments")? {
        if kind(a)? != "Argument" {
            return Err(format!("not an Argument: {}", short(a)));
        }
        out.push(json!({"name": name_of(a, "name")?, "v": read_value(a.get("value").ok_or("Argument without value")?)?}));
    }
    Ok(out)
}

fn read_dirs(v: &Value) -> Result<Vec<Value>, String> {
    let mut out = vec![];
    for d in list(v, "directives")? {
        if kind(d)? != "Directive" {
            return Err(format!("not a Directive: {}", short(d)));
        }
        out.push(json!({"name": name_of(d, "name")?, "args": read_args(d)?}));
    }
    Ok(out)
}

fn read_selset(v: &Value) -> Result<Vec<Value>, String> {
    if kind(v)? != "SelectionSet" {
        return Err(format!("not a SelectionSet: {}", short(v)));
    }
    let mut out = vec![];
    for s in list(v, "selections")? {
        out.push(match kind(s)? {
            "Field" => {
                let has_alias = s.get("alias").is_some();
                let has_sel = s.get("selectionSet").is_some();
                json!({"k": "field", "hasAlias": has_alias,
                       "alias": if has_alias { name_of(s, "alias")? } else { String::new() },
                       "name": name_of(s, "name")?, "args": read_args(s)?, "dirs": read_dirs(s)?,
                       "hasSel": has_sel,
                       "sel": if has_sel { read_selset(&s["selectionSet"])? } else { vec![] }})
            }
            "FragmentSpread" => json!({"k": "spread", "name": name_of(s, "name")?, "dirs": read_dirs(s)?}),
            "InlineFragment" => {
                let has_on = s.get("typeCondition").is_some();
                let on = if has_on {
                    let t = read_type(&s["typeCondition"])?;
                    if t["k"] != "named" {
                        return Err("typeCondition is not a NamedType".into());
                    }
                    t["n"].as_str().unwrap().to_string()
                } else {
                    String::new()
                };
                json!({"k": "inline", "hasOn": has_on, "on": on, "dirs": read_dirs(s)?,
                       "sel": read_selset(s.get("selectionSet").ok_or("InlineFragment without selectionSet")?)?})
            }
            k => return Err(format!("unknown selection kind {k}")),
        });
    }
    Ok(out)
}

/// Document node -> {"defs": [ExecDef without positions]}
pub fn read_document(doc: &Value) -> R {
    if kind(doc)? != "Document" {
        return Err(format!("not a Document: {}", short(doc)));
    }
    let mut defs = vec![];
    for d in list(doc, "definitions")? {
        defs.push(match kind(d)? {
            "OperationDefinition" => {
                let has_name = d.get("name").is_some();
                let mut vars = vec![];
                for v in list(d, "variableDefinitions")? {
                    if kind(v)? != "VariableDefinition" {
                        return Err(format!("not a VariableDefinition: {}", short(v)));
                    }
                    let var = v.get("variable").ok_or("VariableDefinition without variable")?;
                    if kind(var)? != "Variable" {
                        return Err("variable is not a Variable node".into());
                    }
                    let has_default = v.get("defaultValue").is_some();
                    vars.push(json!({"name": name_of(var, "name")?,
                                     "type": read_type(v.get("type").ok_or("VariableDefinition without type")?)?,
                                     "hasDefault": has_default,
                                     "default": if has_default { read_value(&v["defaultValue"])? } else { json!({"k": "null"}) },
                                     "dirs": read_dirs(v)?}));
                }
                json!({"k": "op",
                       "opType": d.get("operation").and_then(|o| o.as_str()).ok_or("OperationDefinition without operation")?,
                       "hasName": has_name, "name": if has_name { name_of(d, "name")? } else { String::new() },
                       "vars": vars, "dirs": read_dirs(d)?,
                       "sel": read_selset(d.get("selectionSet").ok_or("OperationDefinition without selectionSet")?)?})
            }
            "FragmentDefinition" => {
                let t = read_type(d.get("typeCondition").ok_or("FragmentDefinition without typeCondition")?)?;
                if t["k"] != "named" {
                    return Err("typeCondition is not a NamedType".into());
                }
                json!({"k": "frag", "name": name_of(d, "name")?, "on": t["n"], "dirs": read_dirs(d)?,
                       "sel": read_selset(d.get("selectionSet").ok_or("FragmentDefinition without selectionSet")?)?})
            }
            k => return Err(format!("unknown definition kind {k}")),
        });
    }
    Ok(json!({"defs": defs}))
}

/// Statements of a loader-emitted JS module: `[export ]const N = <JSON>;` and `export { N as default };`
pub fn read_js_module(js: &str) -> R {
    let mut consts = vec![];
    let mut default = String::new();
    let mut rest = js;
    loop {
        let t = rest.trim_start();
        if t.is_empty() {
            break;
        }
        let (exported, t2) = match t.strip_prefix("export const ") {
            Some(x) => (true, Some(x)),
            None => (false, t.strip_prefix("const ")),
        };
        if let Some(body) = t2 {
            let eq = body.find(" = ").ok_or("const without initializer")?;
            let name = body[..eq].trim().to_string();
            let after = &body[eq + 3..];
            let mut de = serde_json::Deserializer::from_str(after).into_iter::<Value>();
            let val = de.next().ok_or("no JSON value")?.map_err(|e| format!("initializer of {name} is not JSON: {e}"))?;
            let off = de.byte_offset();
            let tail = after[off..].trim_start();
            let tail = tail.strip_prefix(';').ok_or_else(|| format!("missing ; after const {name}"))?;
            consts.push(json!({"name": name, "exported": exported, "doc": read_document(&val)?}));
            rest = tail;
            continue;
        }
        if let Some(body) = t.strip_prefix("export {") {
            let end = body.find("};").ok_or("unterminated export list")?;
            let inner = body[..end].trim();
            let parts: Vec<&str> = inner.split_whitespace().collect();
            if parts.len() == 3 && parts[1] == "as" && parts[2] == "default" {
                default = parts[0].to_string();
            } else {
                return Err(format!("unrecognised export list: {inner}"));
            }
            rest = &body[end + 2..];
            continue;
        }
        return Err(format!("unrecognised statement: {}", t.chars().take(60).collect::<String>()));
    }
    Ok(json!({"consts": consts, "hasDefault": !default.is_empty(), "default": default}))
}
