//! Structural projection of nitrogql's parsed ASTs into the abstract JSON shapes of
//! `ABSTRACT_JSON.md` (OpDoc, TsDoc, Value, TypeRef, ...).
//!
//! The projection is purely structural: no interpretation, no validation, no reordering.
//! Every key of a shape is always emitted (`""`, `[]`, `false`, `{-1,-1}` when not applicable),
//! because TLC's JSON reader rejects `null` and cannot compare values of different sorts.
//!
//! Places where the AST does not carry what a shape asks for (see the comments at each site):
//!  * `StringValue` (values, descriptions, import paths) does not record whether the literal
//!    was a block string: `"block"` is always `false`.
//!  * `NonNullType` has no position of its own: the position of the wrapped type is used
//!    (this is what nitrogql's own `HasPos for Type` reports).
//!  * selection `Field`, `FieldDefinition`, `EnumValueDefinition`, arguments, object fields and
//!    root operation type definitions have no position of their own: the name identifier's
//!    position is used.
//!  * extensions have no description: `"desc"` is the absent Desc.

use nitrogql_ast::base::{Ident, Pos};
use nitrogql_ast::directive::Directive;
use nitrogql_ast::operation::{
    ExecutableDefinition, FragmentDefinition, OperationDefinition, OperationType,
};
use nitrogql_ast::operation_ext::{ExecutableDefinitionExt, ImportDefinition, ImportTarget};
use nitrogql_ast::selection_set::{Field, FragmentSpread, InlineFragment, Selection, SelectionSet};
use nitrogql_ast::r#type::Type;
use nitrogql_ast::type_system::{
    ArgumentsDefinition, DirectiveDefinition, EnumValueDefinition, FieldDefinition,
    InputValueDefinition, SchemaDefinition, SchemaExtension, TypeDefinition, TypeExtension,
    TypeSystemDefinition, TypeSystemDefinitionOrExtension,
};
use nitrogql_ast::value::{Arguments, StringValue, Value};
use nitrogql_ast::variable::{VariableDefinition, VariablesDefinition};
use nitrogql_ast::{
    OperationDocument, OperationDocumentExt, TypeSystemDocument, TypeSystemOrExtensionDocument,
};
use serde_json::{Value as Json, json};

// ---------------------------------------------------------------------------------------------
// Common
// ---------------------------------------------------------------------------------------------

/// Pos = {"line","col"}; a built-in position is {-1,-1}.
pub fn project_pos(p: &Pos) -> Json {
    if p.builtin {
        absent_pos()
    } else {
        json!({"line": p.line, "col": p.column})
    }
}

/// File index stored in a position.
pub fn pos_file(p: &Pos) -> usize {
    p.file
}

/// The absent / built-in position {-1,-1}.
fn absent_pos() -> Json {
    json!({"line": -1, "col": -1})
}

/// Unicode scalar values of a Rust string.
fn code_points(s: &str) -> Json {
    Json::Array(s.chars().map(|c| Json::from(c as u32)).collect())
}

/// {"n": Name, "pos": Pos} for a bare identifier (interfaces, union members, locations).
fn project_name_ref(id: &Ident) -> Json {
    json!({"n": id.name, "pos": project_pos(&id.position)})
}

fn project_name_refs(ids: &[Ident]) -> Json {
    Json::Array(ids.iter().map(project_name_ref).collect())
}

/// TypeRef. `named` and `list` use the position stored in the node (the name identifier's
/// position / `ListType.position`). `NonNullType` stores no position: the position of the
/// wrapped type is used (identical to nitrogql's `HasPos for Type`), which for `T!` is the
/// innermost name's position and for `[T]!` the position of the list node.
pub fn project_type(t: &Type) -> Json {
    match t {
        Type::Named(named) => json!({
            "k": "named",
            "n": named.name.name,
            "pos": project_pos(&named.name.position),
        }),
        Type::List(list) => json!({
            "k": "list",
            "of": project_type(&list.r#type),
            "pos": project_pos(&list.position),
        }),
        Type::NonNull(non_null) => json!({
            "k": "nn",
            "of": project_type(&non_null.r#type),
            "pos": project_pos(type_pos(&non_null.r#type)),
        }),
    }
}

/// Position of a type node (own position, or that of the wrapped type for non-null).
fn type_pos<'a>(t: &'a Type) -> &'a Pos {
    match t {
        Type::Named(named) => &named.name.position,
        Type::List(list) => &list.position,
        Type::NonNull(non_null) => type_pos(&non_null.r#type),
    }
}

/// Value.
pub fn project_value(v: &Value) -> Json {
    match v {
        Value::Variable(var) => json!({
            "k": "var",
            "n": var.name,
            "pos": project_pos(&var.position),
        }),
        Value::IntValue(i) => json!({
            "k": "int",
            "v": i.value,
            "pos": project_pos(&i.position),
        }),
        Value::FloatValue(f) => json!({
            "k": "float",
            "v": f.value,
            "pos": project_pos(&f.position),
        }),
        Value::StringValue(s) => project_string_value(s),
        Value::BooleanValue(b) => json!({
            "k": "bool",
            "v": b.value,
            "pos": project_pos(&b.position),
        }),
        Value::NullValue(n) => json!({
            "k": "null",
            "pos": project_pos(&n.position),
        }),
        Value::EnumValue(e) => json!({
            "k": "enum",
            "v": e.value,
            "pos": project_pos(&e.position),
        }),
        Value::ListValue(l) => json!({
            "k": "list",
            "vs": l.values.iter().map(project_value).collect::<Vec<_>>(),
            "pos": project_pos(&l.position),
        }),
        Value::ObjectValue(o) => json!({
            "k": "object",
            "fs": o.fields.iter().map(|(name, value)| project_named_value(name, value)).collect::<Vec<_>>(),
            "pos": project_pos(&o.position),
        }),
    }
}

/// String value. `StringValue` only holds the parsed value and a position; it does not record
/// whether the literal was a block string, so "block" is always false.
fn project_string_value(s: &StringValue) -> Json {
    json!({
        "k": "string",
        "cp": code_points(&s.value),
        "block": false,
        "pos": project_pos(&s.position),
    })
}

/// {"name","pos","v"}: shared by Arg and object fields. Neither has a position of its own in
/// the AST (they are `(Ident, Value)` pairs), so "pos" is the name identifier's position.
fn project_named_value(name: &Ident, value: &Value) -> Json {
    json!({
        "name": name.name,
        "pos": project_pos(&name.position),
        "v": project_value(value),
    })
}

/// [Arg]; absent arguments => [].
fn project_arguments(args: &Option<Arguments>) -> Json {
    match args {
        None => json!([]),
        Some(args) => Json::Array(
            args.arguments
                .iter()
                .map(|(name, value)| project_named_value(name, value))
                .collect(),
        ),
    }
}

/// Directive; "pos" is `Directive.position` (the '@').
fn project_directive(d: &Directive) -> Json {
    json!({
        "name": d.name.name,
        "pos": project_pos(&d.position),
        "args": project_arguments(&d.arguments),
    })
}

fn project_directives(ds: &[Directive]) -> Json {
    Json::Array(ds.iter().map(project_directive).collect())
}

/// Desc. Descriptions are `Option<StringValue>`, which does not record block-ness: "block" is
/// always false.
fn project_description(d: &Option<StringValue>) -> Json {
    match d {
        None => absent_description(),
        Some(s) => json!({
            "has": true,
            "cp": code_points(&s.value),
            "block": false,
            "pos": project_pos(&s.position),
        }),
    }
}

fn absent_description() -> Json {
    json!({"has": false, "cp": [], "block": false, "pos": absent_pos()})
}

/// The placeholder default value used when hasDefault is false.
fn absent_default() -> Json {
    json!({"k": "null", "pos": absent_pos()})
}

// ---------------------------------------------------------------------------------------------
// Executable documents
// ---------------------------------------------------------------------------------------------

/// OpDoc for a document that may contain `#import` definitions.
pub fn project_operation_document_ext(doc: &OperationDocumentExt) -> Json {
    let defs: Vec<Json> = doc
        .definitions
        .iter()
        .map(|def| match def {
            ExecutableDefinitionExt::OperationDefinition(op) => project_operation_definition(op),
            ExecutableDefinitionExt::FragmentDefinition(frag) => project_fragment_definition(frag),
            ExecutableDefinitionExt::Import(import) => project_import_definition(import),
        })
        .collect();
    json!({"defs": defs})
}

/// OpDoc for a plain executable document (no imports possible).
pub fn project_operation_document(doc: &OperationDocument) -> Json {
    let defs: Vec<Json> = doc
        .definitions
        .iter()
        .map(|def| match def {
            ExecutableDefinition::OperationDefinition(op) => project_operation_definition(op),
            ExecutableDefinition::FragmentDefinition(frag) => project_fragment_definition(frag),
        })
        .collect();
    json!({"defs": defs})
}

fn project_operation_type(t: &OperationType) -> Json {
    Json::from(t.as_str())
}

/// {"k":"op",...}; an anonymous operation has name "" and namePos = pos.
fn project_operation_definition(op: &OperationDefinition) -> Json {
    let (has_name, name, name_pos) = match &op.name {
        Some(name) => (true, name.name, project_pos(&name.position)),
        None => (false, "", project_pos(&op.position)),
    };
    json!({
        "k": "op",
        "opType": project_operation_type(&op.operation_type),
        "hasName": has_name,
        "name": name,
        "namePos": name_pos,
        "pos": project_pos(&op.position),
        "vars": project_variables_definition(&op.variables_definition),
        "dirs": project_directives(&op.directives),
        "sel": project_selection_set(&op.selection_set),
    })
}

/// {"k":"frag",...}
fn project_fragment_definition(frag: &FragmentDefinition) -> Json {
    json!({
        "k": "frag",
        "name": frag.name.name,
        "namePos": project_pos(&frag.name.position),
        "on": frag.type_condition.name,
        "onPos": project_pos(&frag.type_condition.position),
        "pos": project_pos(&frag.position),
        "dirs": project_directives(&frag.directives),
        "sel": project_selection_set(&frag.selection_set),
    })
}

/// {"k":"import",...}: path = the string value, wild = any target is a wildcard,
/// names = the named targets in source order.
fn project_import_definition(import: &ImportDefinition) -> Json {
    let wild = import
        .targets
        .iter()
        .any(|target| matches!(target, ImportTarget::Wildcard));
    let names: Vec<Json> = import
        .targets
        .iter()
        .filter_map(|target| match target {
            ImportTarget::Wildcard => None,
            ImportTarget::Name(name) => Some(Json::from(name.name)),
        })
        .collect();
    json!({
        "k": "import",
        "path": import.path.value,
        "pos": project_pos(&import.position),
        "wild": wild,
        "names": names,
    })
}

/// [VarDef]; absent variables definition => [].
fn project_variables_definition(vars: &Option<VariablesDefinition>) -> Json {
    match vars {
        None => json!([]),
        Some(vars) => Json::Array(
            vars.definitions
                .iter()
                .map(project_variable_definition)
                .collect(),
        ),
    }
}

/// VarDef; "pos" is the node's own `pos` field, "name" excludes the '$'.
fn project_variable_definition(def: &VariableDefinition) -> Json {
    let (has_default, default) = match &def.default_value {
        Some(value) => (true, project_value(value)),
        None => (false, absent_default()),
    };
    json!({
        "name": def.name.name,
        "pos": project_pos(&def.pos),
        "type": project_type(&def.r#type),
        "hasDefault": has_default,
        "default": default,
        "dirs": project_directives(&def.directives),
    })
}

/// [Selection]
fn project_selection_set(set: &SelectionSet) -> Json {
    Json::Array(set.selections.iter().map(project_selection).collect())
}

fn project_selection(sel: &Selection) -> Json {
    match sel {
        Selection::Field(field) => project_field(field),
        Selection::FragmentSpread(spread) => project_fragment_spread(spread),
        Selection::InlineFragment(inline) => project_inline_fragment(inline),
    }
}

/// {"k":"field",...}. `Field` has no position of its own: "pos" is the position of the name
/// identifier (not of the alias).
fn project_field(field: &Field) -> Json {
    let (has_alias, alias, alias_pos) = match &field.alias {
        Some(alias) => (true, alias.name, project_pos(&alias.position)),
        None => (false, "", absent_pos()),
    };
    let (has_sel, sel) = match &field.selection_set {
        Some(set) => (true, project_selection_set(set)),
        None => (false, json!([])),
    };
    json!({
        "k": "field",
        "hasAlias": has_alias,
        "alias": alias,
        "aliasPos": alias_pos,
        "name": field.name.name,
        "pos": project_pos(&field.name.position),
        "args": project_arguments(&field.arguments),
        "dirs": project_directives(&field.directives),
        "hasSel": has_sel,
        "sel": sel,
    })
}

/// {"k":"spread",...}
fn project_fragment_spread(spread: &FragmentSpread) -> Json {
    json!({
        "k": "spread",
        "name": spread.fragment_name.name,
        "pos": project_pos(&spread.position),
        "namePos": project_pos(&spread.fragment_name.position),
        "dirs": project_directives(&spread.directives),
    })
}

/// {"k":"inline",...}
fn project_inline_fragment(inline: &InlineFragment) -> Json {
    let (has_on, on, on_pos) = match &inline.type_condition {
        Some(cond) => (true, cond.name, project_pos(&cond.position)),
        None => (false, "", absent_pos()),
    };
    json!({
        "k": "inline",
        "hasOn": has_on,
        "on": on,
        "onPos": on_pos,
        "pos": project_pos(&inline.position),
        "dirs": project_directives(&inline.directives),
        "sel": project_selection_set(&inline.selection_set),
    })
}

// ---------------------------------------------------------------------------------------------
// Type-system documents
// ---------------------------------------------------------------------------------------------

/// TsDoc for a document that may contain extensions ("ext": true for those).
pub fn project_type_system_or_extension_document(doc: &TypeSystemOrExtensionDocument) -> Json {
    let defs: Vec<Json> = doc
        .definitions
        .iter()
        .map(|def| match def {
            TypeSystemDefinitionOrExtension::SchemaDefinition(d) => project_schema_definition(d),
            TypeSystemDefinitionOrExtension::TypeDefinition(d) => project_type_definition(d),
            TypeSystemDefinitionOrExtension::DirectiveDefinition(d) => {
                project_directive_definition(d)
            }
            TypeSystemDefinitionOrExtension::SchemaExtension(e) => project_schema_extension(e),
            TypeSystemDefinitionOrExtension::TypeExtension(e) => project_type_extension(e),
        })
        .collect();
    json!({"defs": defs})
}

/// TsDoc for a document without extensions ("ext" is always false).
pub fn project_type_system_document(doc: &TypeSystemDocument) -> Json {
    let defs: Vec<Json> = doc
        .definitions
        .iter()
        .map(|def| match def {
            TypeSystemDefinition::SchemaDefinition(d) => project_schema_definition(d),
            TypeSystemDefinition::TypeDefinition(d) => project_type_definition(d),
            TypeSystemDefinition::DirectiveDefinition(d) => project_directive_definition(d),
        })
        .collect();
    json!({"defs": defs})
}

/// [{"op","type","pos"}]. Root operation type definitions are `(OperationType, Ident)` pairs
/// without a position of their own: "pos" is the position of the type name identifier.
fn project_root_operation_types(defs: &[(OperationType, Ident)]) -> Json {
    Json::Array(
        defs.iter()
            .map(|(op, ty)| {
                json!({
                    "op": project_operation_type(op),
                    "type": ty.name,
                    "pos": project_pos(&ty.position),
                })
            })
            .collect(),
    )
}

/// {"k":"schema","ext":false,...}
fn project_schema_definition(def: &SchemaDefinition) -> Json {
    json!({
        "k": "schema",
        "ext": false,
        "pos": project_pos(&def.position),
        "desc": project_description(&def.description),
        "dirs": project_directives(&def.directives),
        "ops": project_root_operation_types(&def.definitions),
    })
}

/// {"k":"schema","ext":true,...}; extensions carry no description.
fn project_schema_extension(ext: &SchemaExtension) -> Json {
    json!({
        "k": "schema",
        "ext": true,
        "pos": project_pos(&ext.position),
        "desc": absent_description(),
        "dirs": project_directives(&ext.directives),
        "ops": project_root_operation_types(&ext.definitions),
    })
}

/// The parts of a scalar/object/interface/union/enum/input definition or extension.
/// All of interfaces/fields/members/values/inputFields are always emitted.
struct TypeDefParts<'a, 'src> {
    kind: &'static str,
    ext: bool,
    name: &'a Ident<'src>,
    position: &'a Pos,
    description: Json,
    directives: &'a [Directive<'src>],
    interfaces: &'a [Ident<'src>],
    fields: &'a [FieldDefinition<'src>],
    members: &'a [Ident<'src>],
    values: &'a [EnumValueDefinition<'src>],
    input_fields: &'a [InputValueDefinition<'src>],
}

fn project_type_def_parts(parts: TypeDefParts) -> Json {
    json!({
        "k": parts.kind,
        "ext": parts.ext,
        "name": parts.name.name,
        "namePos": project_pos(&parts.name.position),
        "pos": project_pos(parts.position),
        "desc": parts.description,
        "dirs": project_directives(parts.directives),
        "interfaces": project_name_refs(parts.interfaces),
        "fields": parts.fields.iter().map(project_field_definition).collect::<Vec<_>>(),
        "members": project_name_refs(parts.members),
        "values": parts.values.iter().map(project_enum_value_definition).collect::<Vec<_>>(),
        "inputFields": parts.input_fields.iter().map(project_input_value_definition).collect::<Vec<_>>(),
    })
}

/// scalar/object/interface/union/enum/input definition ("ext": false).
fn project_type_definition(def: &TypeDefinition) -> Json {
    let parts = match def {
        TypeDefinition::Scalar(d) => TypeDefParts {
            kind: "scalar",
            ext: false,
            name: &d.name,
            position: &d.position,
            description: project_description(&d.description),
            directives: &d.directives,
            interfaces: &[],
            fields: &[],
            members: &[],
            values: &[],
            input_fields: &[],
        },
        TypeDefinition::Object(d) => TypeDefParts {
            kind: "object",
            ext: false,
            name: &d.name,
            position: &d.position,
            description: project_description(&d.description),
            directives: &d.directives,
            interfaces: &d.implements,
            fields: &d.fields,
            members: &[],
            values: &[],
            input_fields: &[],
        },
        TypeDefinition::Interface(d) => TypeDefParts {
            kind: "interface",
            ext: false,
            name: &d.name,
            position: &d.position,
            description: project_description(&d.description),
            directives: &d.directives,
            interfaces: &d.implements,
            fields: &d.fields,
            members: &[],
            values: &[],
            input_fields: &[],
        },
        TypeDefinition::Union(d) => TypeDefParts {
            kind: "union",
            ext: false,
            name: &d.name,
            position: &d.position,
            description: project_description(&d.description),
            directives: &d.directives,
            interfaces: &[],
            fields: &[],
            members: &d.members,
            values: &[],
            input_fields: &[],
        },
        TypeDefinition::Enum(d) => TypeDefParts {
            kind: "enum",
            ext: false,
            name: &d.name,
            position: &d.position,
            description: project_description(&d.description),
            directives: &d.directives,
            interfaces: &[],
            fields: &[],
            members: &[],
            values: &d.values,
            input_fields: &[],
        },
        TypeDefinition::InputObject(d) => TypeDefParts {
            kind: "input",
            ext: false,
            name: &d.name,
            position: &d.position,
            description: project_description(&d.description),
            directives: &d.directives,
            interfaces: &[],
            fields: &[],
            members: &[],
            values: &[],
            input_fields: &d.fields,
        },
    };
    project_type_def_parts(parts)
}

/// scalar/object/interface/union/enum/input extension ("ext": true, no description).
fn project_type_extension(ext: &TypeExtension) -> Json {
    let parts = match ext {
        TypeExtension::Scalar(e) => TypeDefParts {
            kind: "scalar",
            ext: true,
            name: &e.name,
            position: &e.position,
            description: absent_description(),
            directives: &e.directives,
            interfaces: &[],
            fields: &[],
            members: &[],
            values: &[],
            input_fields: &[],
        },
        TypeExtension::Object(e) => TypeDefParts {
            kind: "object",
            ext: true,
            name: &e.name,
            position: &e.position,
            description: absent_description(),
            directives: &e.directives,
            interfaces: &e.implements,
            fields: &e.fields,
            members: &[],
            values: &[],
            input_fields: &[],
        },
        TypeExtension::Interface(e) => TypeDefParts {
            kind: "interface",
            ext: true,
            name: &e.name,
            position: &e.position,
            description: absent_description(),
            directives: &e.directives,
            interfaces: &e.implements,
            fields: &e.fields,
            members: &[],
            values: &[],
            input_fields: &[],
        },
        TypeExtension::Union(e) => TypeDefParts {
            kind: "union",
            ext: true,
            name: &e.name,
            position: &e.position,
            description: absent_description(),
            directives: &e.directives,
            interfaces: &[],
            fields: &[],
            members: &e.members,
            values: &[],
            input_fields: &[],
        },
        TypeExtension::Enum(e) => TypeDefParts {
            kind: "enum",
            ext: true,
            name: &e.name,
            position: &e.position,
            description: absent_description(),
            directives: &e.directives,
            interfaces: &[],
            fields: &[],
            members: &[],
            values: &e.values,
            input_fields: &[],
        },
        TypeExtension::InputObject(e) => TypeDefParts {
            kind: "input",
            ext: true,
            name: &e.name,
            position: &e.position,
            description: absent_description(),
            directives: &e.directives,
            interfaces: &[],
            fields: &[],
            members: &[],
            values: &[],
            input_fields: &e.fields,
        },
    };
    project_type_def_parts(parts)
}

/// {"k":"directive",...}; "repeatable" is true iff the AST holds the `repeatable` identifier.
fn project_directive_definition(def: &DirectiveDefinition) -> Json {
    json!({
        "k": "directive",
        "name": def.name.name,
        "namePos": project_pos(&def.name.position),
        "pos": project_pos(&def.position),
        "desc": project_description(&def.description),
        "args": project_arguments_definition(&def.arguments),
        "repeatable": def.repeatable.is_some(),
        "locations": project_name_refs(&def.locations),
    })
}

/// [InputValue]; absent arguments definition => [].
fn project_arguments_definition(args: &Option<ArgumentsDefinition>) -> Json {
    match args {
        None => json!([]),
        Some(args) => Json::Array(
            args.input_values
                .iter()
                .map(project_input_value_definition)
                .collect(),
        ),
    }
}

/// Field (of an object / interface type). `FieldDefinition` has no position of its own:
/// "pos" is the name identifier's position.
fn project_field_definition(field: &FieldDefinition) -> Json {
    json!({
        "name": field.name.name,
        "pos": project_pos(&field.name.position),
        "desc": project_description(&field.description),
        "args": project_arguments_definition(&field.arguments),
        "type": project_type(&field.r#type),
        "dirs": project_directives(&field.directives),
    })
}

/// InputValue; "pos" is `InputValueDefinition.position`.
fn project_input_value_definition(def: &InputValueDefinition) -> Json {
    let (has_default, default) = match &def.default_value {
        Some(value) => (true, project_value(value)),
        None => (false, absent_default()),
    };
    json!({
        "name": def.name.name,
        "pos": project_pos(&def.position),
        "desc": project_description(&def.description),
        "type": project_type(&def.r#type),
        "hasDefault": has_default,
        "default": default,
        "dirs": project_directives(&def.directives),
    })
}

/// EnumValue. `EnumValueDefinition` has no position of its own: "pos" is the name
/// identifier's position.
fn project_enum_value_definition(def: &EnumValueDefinition) -> Json {
    json!({
        "name": def.name.name,
        "pos": project_pos(&def.name.position),
        "desc": project_description(&def.description),
        "dirs": project_directives(&def.directives),
    })
}
