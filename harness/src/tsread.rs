//! Reader for the subset of TypeScript that nitrogql emits (see harness/TS_AST.md).
//! Hand-written tokenizer + recursive-descent parser producing the JSON AST described there.
//! Syntax only.  Never panics, always terminates: every loop consumes at least one token or
//! character, recursion is bounded by `MAX_DEPTH`.
use serde_json::{Map, Value, json};

const MAX_DEPTH: usize = 200;

// ---------------------------------------------------------------------------------------------
// Tokenizer
// ---------------------------------------------------------------------------------------------

#[derive(Clone, Copy, PartialEq, Eq, Debug)]
enum TK {
    Ident,
    Str,
    Template,
    Num,
    Punct,
}

#[derive(Clone, Debug)]
struct Tok {
    kind: TK,
    /// Raw source text of the token.
    text: String,
    /// Decoded value for string literals, "" otherwise.
    val: String,
    line: usize,
    col: usize,
    /// Byte offsets into the source.
    start: usize,
    end: usize,
    /// Immediately preceded by a `/** ... */` comment.
    doc: bool,
}

struct Lexed {
    toks: Vec<Tok>,
    source_mapping_url: String,
    /// Position just after the last character (for EOF error messages).
    eof_line: usize,
    eof_col: usize,
}

struct Cursor<'a> {
    src: &'a str,
    chars: Vec<(usize, char)>,
    i: usize,
    line: usize,
    col: usize,
}

impl<'a> Cursor<'a> {
    fn new(src: &'a str) -> Self {
        Cursor { src, chars: src.char_indices().collect(), i: 0, line: 0, col: 0 }
    }
    fn peek(&self) -> Option<char> {
        self.chars.get(self.i).map(|p| p.1)
    }
    fn peek_at(&self, k: usize) -> Option<char> {
        self.chars.get(self.i.saturating_add(k)).map(|p| p.1)
    }
    fn byte_pos(&self) -> usize {
        self.chars.get(self.i).map(|p| p.0).unwrap_or(self.src.len())
    }
    fn bump(&mut self) -> Option<char> {
        let c = self.peek()?;
        self.i += 1;
        if c == '\n' {
            self.line += 1;
            self.col = 0;
        } else {
            self.col += c.len_utf16();
        }
        Some(c)
    }
    fn slice(&self, start: usize, end: usize) -> String {
        self.src.get(start..end).unwrap_or("").to_string()
    }
}

fn is_ident_start(c: char) -> bool {
    c.is_ascii_alphabetic() || c == '_' || c == '$'
}
fn is_ident_char(c: char) -> bool {
    c.is_ascii_alphanumeric() || c == '_' || c == '$'
}

fn lex(src: &str) -> Result<Lexed, String> {
    let mut cur = Cursor::new(src);
    let mut toks: Vec<Tok> = Vec::new();
    let mut pending_doc = false;
    let mut sm_url = String::new();
    loop {
        let c = match cur.peek() {
            None => break,
            Some(c) => c,
        };
        if c.is_whitespace() || c == '\u{feff}' {
            cur.bump();
            continue;
        }
        let (line, col, start) = (cur.line, cur.col, cur.byte_pos());
        // comments
        if c == '/' && cur.peek_at(1) == Some('/') {
            while let Some(c2) = cur.peek() {
                if c2 == '\n' {
                    break;
                }
                cur.bump();
            }
            let text = cur.slice(start, cur.byte_pos());
            if let Some(rest) = text.strip_prefix("//# sourceMappingURL=") {
                sm_url = rest.trim().to_string();
            }
            pending_doc = false;
            continue;
        }
        if c == '/' && cur.peek_at(1) == Some('*') {
            cur.bump();
            cur.bump();
            let mut closed = false;
            while let Some(c2) = cur.bump() {
                if c2 == '*' && cur.peek() == Some('/') {
                    cur.bump();
                    closed = true;
                    break;
                }
            }
            if !closed {
                return Err(format!("{}:{}: unterminated comment", line, col));
            }
            let text = cur.slice(start, cur.byte_pos());
            // `/** ... */` but not the degenerate `/**/`
            pending_doc = text.starts_with("/**") && text.len() >= 5;
            continue;
        }
        let mut kind = TK::Punct;
        let mut val = String::new();
        if is_ident_start(c) {
            kind = TK::Ident;
            while let Some(c2) = cur.peek() {
                if !is_ident_char(c2) {
                    break;
                }
                cur.bump();
            }
        } else if c == '"' || c == '\'' {
            kind = TK::Str;
            val = lex_string(&mut cur, c, line, col)?;
        } else if c == '`' {
            kind = TK::Template;
            cur.bump();
            let mut closed = false;
            while let Some(c2) = cur.bump() {
                if c2 == '\\' {
                    cur.bump();
                } else if c2 == '`' {
                    closed = true;
                    break;
                }
            }
            if !closed {
                return Err(format!("{}:{}: unterminated template literal", line, col));
            }
        } else if c.is_ascii_digit()
            || (c == '.' && cur.peek_at(1).map(|d| d.is_ascii_digit()).unwrap_or(false))
        {
            kind = TK::Num;
            lex_number(&mut cur);
        } else if c.is_ascii_punctuation() {
            cur.bump();
            if c == '=' && cur.peek() == Some('>') {
                cur.bump();
            } else if c == '.' && cur.peek() == Some('.') && cur.peek_at(1) == Some('.') {
                cur.bump();
                cur.bump();
            } else if c == '?'
                && cur.peek() == Some('.')
                && !cur.peek_at(1).map(|d| d.is_ascii_digit()).unwrap_or(false)
            {
                cur.bump();
            }
        } else {
            return Err(format!("{}:{}: unexpected character {:?}", line, col, c));
        }
        let end = cur.byte_pos();
        toks.push(Tok { kind, text: cur.slice(start, end), val, line, col, start, end, doc: pending_doc });
        pending_doc = false;
    }
    Ok(Lexed { toks, source_mapping_url: sm_url, eof_line: cur.line, eof_col: cur.col })
}

fn lex_number(cur: &mut Cursor) {
    // Always consumes at least one character (caller guarantees a digit or ".digit").
    let first = cur.bump().unwrap_or('0');
    if first == '0' && matches!(cur.peek(), Some('x' | 'X' | 'o' | 'O' | 'b' | 'B')) {
        cur.bump();
        while let Some(c) = cur.peek() {
            if c.is_ascii_alphanumeric() || c == '_' {
                cur.bump();
            } else {
                break;
            }
        }
        return;
    }
    let mut seen_dot = first == '.';
    let mut seen_exp = false;
    while let Some(c) = cur.peek() {
        if c.is_ascii_digit() || c == '_' {
            cur.bump();
        } else if c == '.' && !seen_dot && !seen_exp {
            seen_dot = true;
            cur.bump();
        } else if (c == 'e' || c == 'E') && !seen_exp {
            let n1 = cur.peek_at(1);
            let n2 = cur.peek_at(2);
            let ok = match n1 {
                Some(d) if d.is_ascii_digit() => true,
                Some('+') | Some('-') => n2.map(|d| d.is_ascii_digit()).unwrap_or(false),
                _ => false,
            };
            if !ok {
                break;
            }
            seen_exp = true;
            cur.bump();
            cur.bump();
        } else if c == 'n' {
            cur.bump();
            break;
        } else {
            break;
        }
    }
}

fn hex_val(c: char) -> Option<u32> {
    c.to_digit(16)
}

fn lex_string(cur: &mut Cursor, quote: char, line: usize, col: usize) -> Result<String, String> {
    cur.bump(); // opening quote
    let mut units: Vec<u16> = Vec::new();
    let push_char = |units: &mut Vec<u16>, c: char| {
        let mut buf = [0u16; 2];
        units.extend_from_slice(c.encode_utf16(&mut buf));
    };
    loop {
        let c = match cur.bump() {
            None => return Err(format!("{}:{}: unterminated string literal", line, col)),
            Some(c) => c,
        };
        if c == quote {
            break;
        }
        if c == '\n' {
            return Err(format!("{}:{}: unterminated string literal", line, col));
        }
        if c != '\\' {
            push_char(&mut units, c);
            continue;
        }
        let e = match cur.bump() {
            None => return Err(format!("{}:{}: unterminated string literal", line, col)),
            Some(e) => e,
        };
        match e {
            'n' => units.push(0x0a),
            't' => units.push(0x09),
            'r' => units.push(0x0d),
            'b' => units.push(0x08),
            'f' => units.push(0x0c),
            'v' => units.push(0x0b),
            '0' if !cur.peek().map(|d| d.is_ascii_digit()).unwrap_or(false) => units.push(0),
            '\n' => {}
            '\r' => {
                if cur.peek() == Some('\n') {
                    cur.bump();
                }
            }
            'x' => {
                let h1 = cur.peek().and_then(hex_val);
                let h2 = cur.peek_at(1).and_then(hex_val);
                match (h1, h2) {
                    (Some(a), Some(b)) => {
                        cur.bump();
                        cur.bump();
                        units.push((a * 16 + b) as u16);
                    }
                    _ => return Err(format!("{}:{}: bad \\x escape in string literal", line, col)),
                }
            }
            'u' => {
                if cur.peek() == Some('{') {
                    cur.bump();
                    let mut v: u32 = 0;
                    let mut n = 0;
                    loop {
                        match cur.bump() {
                            Some('}') => break,
                            Some(h) => match hex_val(h) {
                                Some(d) if n < 8 => {
                                    v = v.saturating_mul(16).saturating_add(d);
                                    n += 1;
                                }
                                _ => {
                                    return Err(format!(
                                        "{}:{}: bad \\u{{}} escape in string literal",
                                        line, col
                                    ));
                                }
                            },
                            None => {
                                return Err(format!("{}:{}: unterminated string literal", line, col));
                            }
                        }
                    }
                    match char::from_u32(v) {
                        Some(ch) if n > 0 => push_char(&mut units, ch),
                        _ => {
                            return Err(format!(
                                "{}:{}: bad \\u{{}} escape in string literal",
                                line, col
                            ));
                        }
                    }
                } else {
                    let mut v: u32 = 0;
                    for k in 0..4 {
                        match cur.peek_at(k).and_then(hex_val) {
                            Some(d) => v = v * 16 + d,
                            None => {
                                return Err(format!(
                                    "{}:{}: bad \\u escape in string literal",
                                    line, col
                                ));
                            }
                        }
                    }
                    for _ in 0..4 {
                        cur.bump();
                    }
                    units.push(v as u16);
                }
            }
            other => push_char(&mut units, other),
        }
    }
    Ok(String::from_utf16_lossy(&units))
}

// ---------------------------------------------------------------------------------------------
// Parser
// ---------------------------------------------------------------------------------------------

/// Soft: "this is not the structured form I tried" (caller falls back to raw / unknown).
/// Hard: give up on the whole file.
enum Fail {
    Soft,
    Hard(String),
}

type PR<T> = Result<T, Fail>;

const KEYWORD_TYPES: &[&str] = &[
    "string", "number", "boolean", "null", "undefined", "never", "unknown", "any", "void", "object",
    "bigint", "symbol",
];

fn closer_of(open: &str) -> &'static str {
    match open {
        "(" => ")",
        "[" => "]",
        "{" => "}",
        "<" => ">",
        _ => "",
    }
}

struct P<'a> {
    src: &'a str,
    toks: Vec<Tok>,
    pos: usize,
    depth: usize,
    eof_line: usize,
    eof_col: usize,
}

impl<'a> P<'a> {
    fn peek(&self, k: usize) -> Option<&Tok> {
        self.toks.get(self.pos.saturating_add(k))
    }
    fn is_p(&self, k: usize, s: &str) -> bool {
        matches!(self.peek(k), Some(t) if t.kind == TK::Punct && t.text == s)
    }
    fn is_id(&self, k: usize, s: &str) -> bool {
        matches!(self.peek(k), Some(t) if t.kind == TK::Ident && t.text == s)
    }
    fn is_kind(&self, k: usize, kind: TK) -> bool {
        matches!(self.peek(k), Some(t) if t.kind == kind)
    }
    fn eat_p(&mut self, s: &str) -> bool {
        if self.is_p(0, s) {
            self.pos += 1;
            true
        } else {
            false
        }
    }
    fn eat_id(&mut self, s: &str) -> bool {
        if self.is_id(0, s) {
            self.pos += 1;
            true
        } else {
            false
        }
    }
    fn expect_p(&mut self, s: &str) -> PR<()> {
        if self.eat_p(s) { Ok(()) } else { Err(Fail::Soft) }
    }
    /// Consumes an identifier token and returns (text, line, col).
    fn ident(&mut self) -> PR<(String, usize, usize)> {
        match self.peek(0) {
            Some(t) if t.kind == TK::Ident => {
                let r = (t.text.clone(), t.line, t.col);
                self.pos += 1;
                Ok(r)
            }
            _ => Err(Fail::Soft),
        }
    }
    fn loc_at(&self, idx: usize) -> String {
        match self.toks.get(idx) {
            Some(t) => format!("{}:{}", t.line, t.col),
            None => format!("{}:{}", self.eof_line, self.eof_col),
        }
    }
    fn enter(&mut self) -> PR<()> {
        self.depth += 1;
        if self.depth > MAX_DEPTH {
            Err(Fail::Hard(format!("{}: nesting too deep", self.loc_at(self.pos))))
        } else {
            Ok(())
        }
    }
    fn leave(&mut self) {
        self.depth = self.depth.saturating_sub(1);
    }

    // ---- statements -------------------------------------------------------------------------

    fn parse_stmts(&mut self, in_ns: bool) -> Result<Vec<Value>, String> {
        let mut out = Vec::new();
        loop {
            if self.peek(0).is_none() {
                if in_ns {
                    return Err(format!(
                        "{}: unexpected end of input inside namespace",
                        self.loc_at(self.pos)
                    ));
                }
                return Ok(out);
            }
            if self.is_p(0, "}") {
                if in_ns {
                    return Ok(out);
                }
                return Err(format!("{}: unbalanced '}}'", self.loc_at(self.pos)));
            }
            let start = self.pos;
            let depth = self.depth;
            match self.try_stmt() {
                Ok(v) => out.push(v),
                Err(Fail::Hard(m)) => return Err(m),
                Err(Fail::Soft) => {
                    self.pos = start;
                    self.depth = depth;
                    out.push(self.unknown_stmt(in_ns)?);
                }
            }
            if self.pos <= start {
                return Err(format!("{}: internal error: no progress", self.loc_at(start)));
            }
        }
    }

    fn try_stmt(&mut self) -> PR<Value> {
        let doc = self.peek(0).map(|t| t.doc).unwrap_or(false);
        if self.is_id(0, "import") {
            return self.parse_import();
        }
        let export = self.eat_id("export");
        if export && (self.is_p(0, "{") || (self.is_id(0, "type") && self.is_p(1, "{"))) {
            return self.parse_export_list();
        }
        let declare = self.eat_id("declare");
        if self.is_id(0, "type") {
            self.pos += 1;
            return self.parse_alias(export, declare, doc);
        }
        if self.is_id(0, "const") {
            self.pos += 1;
            return self.parse_const(export, declare);
        }
        if self.is_id(0, "namespace") {
            self.pos += 1;
            return self.parse_namespace(export, declare);
        }
        Err(Fail::Soft)
    }

    /// Fallback: tokens up to and including the terminating ';' at depth 0 (or up to, not including,
    /// the '}' that closes the enclosing namespace).  Only ()[]{} are balanced here.
    fn unknown_stmt(&mut self, in_ns: bool) -> Result<Value, String> {
        let start = self.pos;
        let mut stack: Vec<&'static str> = Vec::new();
        let mut tokens: Vec<Value> = Vec::new();
        loop {
            let t = match self.toks.get(self.pos) {
                Some(t) => t,
                None => {
                    return Err(format!(
                        "{}: unterminated statement (starting at {})",
                        self.loc_at(self.pos),
                        self.loc_at(start)
                    ));
                }
            };
            if t.kind == TK::Punct {
                let s = t.text.as_str();
                if s == ";" && stack.is_empty() {
                    tokens.push(Value::String(t.text.clone()));
                    self.pos += 1;
                    break;
                }
                if s == "(" || s == "[" || s == "{" {
                    stack.push(closer_of(s));
                } else if s == ")" || s == "]" || s == "}" {
                    match stack.pop() {
                        Some(want) if want == s => {}
                        Some(want) => {
                            return Err(format!(
                                "{}: unbalanced '{}' (expected '{}') in statement starting at {}",
                                self.loc_at(self.pos),
                                s,
                                want,
                                self.loc_at(start)
                            ));
                        }
                        None => {
                            if s == "}" && in_ns && !tokens.is_empty() {
                                break;
                            }
                            return Err(format!(
                                "{}: unbalanced '{}' in statement starting at {}",
                                self.loc_at(self.pos),
                                s,
                                self.loc_at(start)
                            ));
                        }
                    }
                }
            }
            tokens.push(Value::String(t.text.clone()));
            self.pos += 1;
        }
        Ok(json!({"k": "unknown", "tokens": tokens}))
    }

    fn parse_import(&mut self) -> PR<Value> {
        self.pos += 1; // import
        let mut type_only = false;
        if self.is_id(0, "type") && (self.is_p(1, "*") || self.is_p(1, "{")) {
            type_only = true;
            self.pos += 1;
        }
        let mut star = String::new();
        let mut names: Vec<Value> = Vec::new();
        if self.eat_p("*") {
            if !self.eat_id("as") {
                return Err(Fail::Soft);
            }
            star = self.ident()?.0;
        } else if self.is_p(0, "{") {
            names = self.parse_name_list()?;
        } else {
            return Err(Fail::Soft);
        }
        if !self.eat_id("from") {
            return Err(Fail::Soft);
        }
        let from = match self.peek(0) {
            Some(t) if t.kind == TK::Str => t.val.clone(),
            _ => return Err(Fail::Soft),
        };
        self.pos += 1;
        self.expect_p(";")?;
        Ok(json!({"k": "import", "typeOnly": type_only, "star": star, "names": names, "from": from}))
    }

    /// `{ A, B as C }` -> [{"name","as"}]
    fn parse_name_list(&mut self) -> PR<Vec<Value>> {
        self.expect_p("{")?;
        let mut items = Vec::new();
        loop {
            if self.eat_p("}") {
                break;
            }
            let name = self.ident()?.0;
            let mut alias = name.clone();
            if self.is_id(0, "as") && self.is_kind(1, TK::Ident) {
                self.pos += 1;
                alias = self.ident()?.0;
            }
            items.push(json!({"name": name, "as": alias}));
            if self.eat_p(",") {
                continue;
            }
            if !self.is_p(0, "}") {
                return Err(Fail::Soft);
            }
        }
        Ok(items)
    }

    fn parse_export_list(&mut self) -> PR<Value> {
        let type_only = self.eat_id("type");
        let items = self.parse_name_list()?;
        // `export { a } from "x"` is not representable -> unknown
        self.expect_p(";")?;
        Ok(json!({"k": "exportList", "typeOnly": type_only, "items": items}))
    }

    fn parse_namespace(&mut self, export: bool, declare: bool) -> PR<Value> {
        let name = self.ident()?.0;
        self.expect_p("{")?;
        self.enter()?;
        let body = self.parse_stmts(true).map_err(Fail::Hard)?;
        self.leave();
        // parse_stmts(true) only returns Ok in front of '}'
        self.expect_p("}")?;
        Ok(json!({"k": "namespace", "export": export, "declare": declare, "name": name, "body": body}))
    }

    fn parse_alias(&mut self, export: bool, declare: bool, doc: bool) -> PR<Value> {
        let (name, line, col) = self.ident()?;
        let mut params: Vec<Value> = Vec::new();
        if self.eat_p("<") {
            loop {
                if self.eat_p(">") {
                    break;
                }
                while (self.is_id(0, "in") || self.is_id(0, "out") || self.is_id(0, "const"))
                    && self.is_kind(1, TK::Ident)
                {
                    self.pos += 1;
                }
                params.push(Value::String(self.ident()?.0));
                // drop constraint / default
                self.scan_balanced(&[",", ">"], true)?;
                if self.eat_p(",") {
                    continue;
                }
                if !self.is_p(0, ">") {
                    return Err(Fail::Soft);
                }
            }
            if params.is_empty() {
                return Err(Fail::Soft);
            }
        }
        self.expect_p("=")?;
        let t = self.parse_type_slot(&[";"])?;
        self.expect_p(";")?;
        Ok(json!({"k": "type", "export": export, "declare": declare, "name": name, "params": params,
                  "doc": doc, "t": t, "line": line, "col": col}))
    }

    fn parse_const(&mut self, export: bool, declare: bool) -> PR<Value> {
        let (name, line, col) = self.ident()?;
        let t = if self.eat_p(":") {
            self.parse_type_slot(&["=", ";"])?
        } else {
            json!({"k": "kw", "n": "any"})
        };
        let mut has_init = false;
        let mut init = Value::Object(Map::new());
        // a flat object literal `{ key: "text", ... }` read syntactically (keys: identifiers or strings; values: string literals)
        let mut obj = json!({"ok": false, "props": [], "asConst": false});
        if self.eat_p("=") {
            has_init = true;
            let first = self.pos;
            let mut stack: Vec<&'static str> = Vec::new();
            loop {
                let tk = match self.toks.get(self.pos) {
                    Some(tk) => tk,
                    None => return Err(Fail::Soft),
                };
                if stack.is_empty() {
                    if tk.kind == TK::Punct && tk.text == ";" {
                        break;
                    }
                    if tk.kind == TK::Ident && tk.text == "as" && self.pos > first {
                        break;
                    }
                }
                if tk.kind == TK::Punct {
                    let s = tk.text.as_str();
                    if s == "(" || s == "[" || s == "{" {
                        stack.push(closer_of(s));
                    } else if s == ")" || s == "]" || s == "}" {
                        match stack.pop() {
                            Some(want) if want == s => {}
                            _ => return Err(Fail::Soft),
                        }
                    }
                }
                self.pos += 1;
            }
            let last = self.pos;
            if last <= first {
                return Err(Fail::Soft);
            }
            let (b0, b1) = match (self.toks.get(first), self.toks.get(last - 1)) {
                (Some(a), Some(b)) => (a.start, b.end),
                _ => return Err(Fail::Soft),
            };
            let text = self.src.get(b0..b1).unwrap_or("");
            init = match serde_json::from_str::<Value>(text) {
                Ok(v) if !v.is_null() => v,
                _ => {
                    let tokens: Vec<Value> = self
                        .toks
                        .get(first..last)
                        .unwrap_or(&[])
                        .iter()
                        .map(|t| Value::String(t.text.clone()))
                        .collect();
                    json!({"k": "rawinit", "tokens": tokens})
                }
            };
            obj = self.flat_object_literal(first, last);
            if self.is_id(0, "as") {
                if self.is_id(1, "const") && self.is_p(2, ";") {
                    obj["asConst"] = json!(true);
                }
                // `as unknown as T2` / `as const`: skipped
                self.scan_balanced(&[";"], false)?;
            }
        }
        self.expect_p(";")?;
        Ok(json!({"k": "const", "export": export, "declare": declare, "name": name, "t": t,
                  "hasInit": has_init, "init": init, "obj": obj, "line": line, "col": col}))
    }

    fn flat_object_literal(&self, first: usize, last: usize) -> Value {
        let no = json!({"ok": false, "props": [], "asConst": false});
        let toks = match self.toks.get(first..last) {
            Some(t) if t.len() >= 2 => t,
            _ => return no,
        };
        let is_p = |t: &Tok, s: &str| t.kind == TK::Punct && t.text == s;
        if !is_p(&toks[0], "{") || !is_p(&toks[toks.len() - 1], "}") {
            return no;
        }
        let body = &toks[1..toks.len() - 1];
        let mut props = Vec::new();
        let mut i = 0;
        while i < body.len() {
            if i + 2 >= body.len() {
                return no;
            }
            let (k, c, v) = (&body[i], &body[i + 1], &body[i + 2]);
            let key = match k.kind {
                TK::Ident => k.text.clone(),
                TK::Str => k.val.clone(),
                _ => return no,
            };
            if !is_p(c, ":") || v.kind != TK::Str {
                return no;
            }
            props.push(json!({"key": key, "keyQuoted": k.kind == TK::Str, "val": v.val.clone()}));
            i += 3;
            if i < body.len() {
                if !is_p(&body[i], ",") {
                    return no;
                }
                i += 1;
            }
        }
        json!({"ok": true, "props": props, "asConst": false})
    }

    /// Collects token texts up to (not including) a punctuation in `terms` at bracket depth 0.
    /// Soft failure on end of input or unbalanced brackets.  `angle`: also balance `<>`.
    fn scan_balanced(&mut self, terms: &[&str], angle: bool) -> PR<Vec<Value>> {
        let mut stack: Vec<&'static str> = Vec::new();
        let mut out: Vec<Value> = Vec::new();
        loop {
            let t = match self.toks.get(self.pos) {
                Some(t) => t,
                None => return Err(Fail::Soft),
            };
            if t.kind == TK::Punct {
                let s = t.text.as_str();
                if stack.is_empty() && terms.contains(&s) {
                    break;
                }
                if s == "(" || s == "[" || s == "{" || (angle && s == "<") {
                    stack.push(closer_of(s));
                } else if s == ")" || s == "]" || s == "}" || (angle && s == ">") {
                    match stack.pop() {
                        Some(want) if want == s => {}
                        _ => return Err(Fail::Soft),
                    }
                }
            }
            out.push(Value::String(t.text.clone()));
            self.pos += 1;
        }
        Ok(out)
    }

    // ---- types ------------------------------------------------------------------------------

    /// A top-level type position (alias right-hand side, const annotation).  Either the whole
    /// expression is covered by the structured grammar, or the whole expression becomes "raw".
    fn parse_type_slot(&mut self, terms: &[&str]) -> PR<Value> {
        let start = self.pos;
        let depth = self.depth;
        match self.parse_union() {
            Ok(t) => {
                if matches!(self.peek(0), Some(tk) if tk.kind == TK::Punct && terms.contains(&tk.text.as_str()))
                {
                    return Ok(t);
                }
            }
            Err(Fail::Hard(m)) => return Err(Fail::Hard(m)),
            Err(Fail::Soft) => {}
        }
        self.pos = start;
        self.depth = depth;
        let tokens = self.scan_balanced(terms, true)?;
        if tokens.is_empty() {
            return Err(Fail::Soft);
        }
        Ok(json!({"k": "raw", "tokens": tokens}))
    }

    fn parse_union(&mut self) -> PR<Value> {
        self.enter()?;
        let r = self.parse_union_inner();
        self.leave();
        r
    }

    fn parse_union_inner(&mut self) -> PR<Value> {
        // a leading '|' is allowed and ignored
        self.eat_p("|");
        let mut ts = vec![self.parse_inter()?];
        while self.eat_p("|") {
            ts.push(self.parse_inter()?);
        }
        if ts.len() == 1 {
            Ok(ts.pop().unwrap_or(Value::Bool(false)))
        } else {
            Ok(json!({"k": "union", "ts": ts}))
        }
    }

    fn parse_inter(&mut self) -> PR<Value> {
        self.eat_p("&");
        let mut ts = vec![self.parse_postfix()?];
        while self.eat_p("&") {
            ts.push(self.parse_postfix()?);
        }
        if ts.len() == 1 {
            Ok(ts.pop().unwrap_or(Value::Bool(false)))
        } else {
            Ok(json!({"k": "inter", "ts": ts}))
        }
    }

    fn parse_postfix(&mut self) -> PR<Value> {
        let mut readonly = false;
        if self.is_id(0, "readonly") {
            let starts_type = match self.peek(1) {
                Some(t) => match t.kind {
                    TK::Ident | TK::Str | TK::Num | TK::Template => true,
                    TK::Punct => matches!(t.text.as_str(), "(" | "{" | "[" | "-"),
                },
                None => false,
            };
            if starts_type {
                readonly = true;
                self.pos += 1;
            }
        }
        let mut t = self.parse_primary()?;
        let mut is_array = false;
        let mut extra = 0usize;
        while self.is_p(0, "[") {
            if !self.is_p(1, "]") {
                // indexed access type / tuple-ish: not covered
                return Err(Fail::Soft);
            }
            self.pos += 2;
            // each `[]` nests the value one level deeper: charge it to the depth budget
            // (a deeply nested serde_json::Value would overflow the stack when dropped)
            extra += 1;
            if self.depth + extra > MAX_DEPTH {
                return Err(Fail::Hard(format!("{}: nesting too deep", self.loc_at(self.pos))));
            }
            t = json!({"k": "array", "readonly": false, "of": t});
            is_array = true;
        }
        if readonly {
            if !is_array {
                return Err(Fail::Soft);
            }
            if let Some(o) = t.as_object_mut() {
                o.insert("readonly".to_string(), Value::Bool(true));
            }
        }
        Ok(t)
    }

    fn parse_primary(&mut self) -> PR<Value> {
        let (kind, text, val) = match self.peek(0) {
            Some(t) => (t.kind, t.text.clone(), t.val.clone()),
            None => return Err(Fail::Soft),
        };
        match kind {
            TK::Punct => match text.as_str() {
                "(" => {
                    self.pos += 1;
                    let t = self.parse_union()?;
                    self.expect_p(")")?;
                    Ok(t)
                }
                "{" => self.parse_obj(),
                "-" => {
                    if self.is_kind(1, TK::Num) {
                        let n = self.peek(1).map(|t| t.text.clone()).unwrap_or_default();
                        self.pos += 2;
                        Ok(json!({"k": "litnum", "s": format!("-{}", n)}))
                    } else {
                        Err(Fail::Soft)
                    }
                }
                _ => Err(Fail::Soft),
            },
            TK::Str => {
                self.pos += 1;
                Ok(json!({"k": "lit", "s": val}))
            }
            TK::Num => {
                self.pos += 1;
                Ok(json!({"k": "litnum", "s": text}))
            }
            TK::Template => Err(Fail::Soft),
            TK::Ident => {
                let dotted = self.is_p(1, ".");
                if !dotted && (text == "true" || text == "false") {
                    self.pos += 1;
                    return Ok(json!({"k": "litbool", "v": text == "true"}));
                }
                if !dotted && KEYWORD_TYPES.contains(&text.as_str()) {
                    self.pos += 1;
                    return Ok(json!({"k": "kw", "n": text}));
                }
                self.pos += 1;
                let mut path = vec![Value::String(text)];
                while self.is_p(0, ".") {
                    self.pos += 1;
                    path.push(Value::String(self.ident()?.0));
                }
                let mut args: Vec<Value> = Vec::new();
                if self.eat_p("<") {
                    loop {
                        if self.eat_p(">") {
                            break;
                        }
                        args.push(self.parse_union()?);
                        if self.eat_p(",") {
                            continue;
                        }
                        if !self.is_p(0, ">") {
                            return Err(Fail::Soft);
                        }
                    }
                    if args.is_empty() {
                        return Err(Fail::Soft);
                    }
                }
                Ok(json!({"k": "ref", "path": path, "args": args}))
            }
        }
    }

    fn parse_obj(&mut self) -> PR<Value> {
        self.expect_p("{")?;
        let mut fs: Vec<Value> = Vec::new();
        loop {
            if self.eat_p("}") {
                break;
            }
            let doc = self.peek(0).map(|t| t.doc).unwrap_or(false);
            let mut readonly = false;
            if self.is_id(0, "readonly")
                && (self.is_kind(1, TK::Ident) || self.is_kind(1, TK::Str) || self.is_kind(1, TK::Num))
            {
                readonly = true;
                self.pos += 1;
            }
            let (key, line, col) = match self.peek(0) {
                Some(t) if t.kind == TK::Ident || t.kind == TK::Num => (t.text.clone(), t.line, t.col),
                Some(t) if t.kind == TK::Str => (t.val.clone(), t.line, t.col),
                _ => return Err(Fail::Soft), // index signature, mapped type, ...
            };
            self.pos += 1;
            let opt = self.eat_p("?");
            self.expect_p(":")?; // method signature etc. -> not covered
            let t = self.parse_union()?;
            fs.push(json!({"key": key, "opt": opt, "readonly": readonly, "doc": doc, "t": t,
                           "line": line, "col": col}));
            if self.eat_p(";") || self.eat_p(",") {
                continue;
            }
            if !self.is_p(0, "}") {
                return Err(Fail::Soft);
            }
        }
        Ok(json!({"k": "obj", "fs": fs}))
    }
}

// ---------------------------------------------------------------------------------------------
// Public API
// ---------------------------------------------------------------------------------------------

/// Parses emitted TypeScript text into the "File" shape of TS_AST.md.
pub fn read_ts(text: &str) -> Result<Value, String> {
    let lexed = lex(text)?;
    let mut p = P {
        src: text,
        toks: lexed.toks,
        pos: 0,
        depth: 0,
        eof_line: lexed.eof_line,
        eof_col: lexed.eof_col,
    };
    let stmts = p.parse_stmts(false)?;
    Ok(json!({"stmts": stmts, "sourceMappingURL": lexed.source_mapping_url}))
}

/// For insta `.snap` files: the text after the header (up to and including the second `---` line).
pub fn strip_snap_header(text: &str) -> &str {
    let mut off = 0usize;
    let mut seen = 0;
    for (i, line) in text.split_inclusive('\n').enumerate() {
        if i == 0 && line.trim_end() != "---" {
            return text;
        }
        off += line.len();
        if line.trim_end() == "---" {
            seen += 1;
            if seen == 2 {
                return text.get(off..).unwrap_or("");
            }
        }
    }
    text
}

fn summarize(v: &Value, ctx: &str, unknown: &mut Vec<String>, raw: &mut Vec<String>, counts: &mut Map<String, Value>) {
    match v {
        Value::Object(o) => {
            let k = o.get("k").and_then(|k| k.as_str()).unwrap_or("");
            let mut ctx2 = ctx.to_string();
            if matches!(k, "import" | "type" | "namespace" | "const" | "exportList" | "unknown") && o.contains_key("k") {
                let n = counts.get(k).and_then(|n| n.as_u64()).unwrap_or(0);
                counts.insert(k.to_string(), json!(n + 1));
            }
            if let Some(n) = o.get("name").and_then(|n| n.as_str()) {
                if matches!(k, "type" | "namespace" | "const") {
                    ctx2 = if ctx.is_empty() { n.to_string() } else { format!("{}.{}", ctx, n) };
                }
            }
            if k == "unknown" {
                let toks: Vec<&str> = o
                    .get("tokens")
                    .and_then(|t| t.as_array())
                    .map(|a| a.iter().filter_map(|x| x.as_str()).take(8).collect())
                    .unwrap_or_default();
                unknown.push(format!("{}: {}", ctx, toks.join(" ")));
                return;
            }
            if k == "raw" || k == "rawinit" {
                raw.push(format!("{}({})", ctx, k));
                return;
            }
            if k == "const" {
                // do not descend into (possibly huge) JSON initializers, except to spot rawinit
                if let Some(t) = o.get("t") {
                    summarize(t, &ctx2, unknown, raw, counts);
                }
                if o.get("init").and_then(|i| i.get("k")).and_then(|k| k.as_str()) == Some("rawinit") {
                    raw.push(format!("{}(rawinit)", ctx2));
                }
                return;
            }
            for (_, c) in o {
                summarize(c, &ctx2, unknown, raw, counts);
            }
        }
        Value::Array(a) => {
            for c in a {
                summarize(c, ctx, unknown, raw, counts);
            }
        }
        _ => {}
    }
}

/// CLI.  `tsread <file>` prints the JSON (pretty) or `ERR <msg>`.
/// `tsread --summary <file>...` prints one line per file.  `.snap` files have their header stripped.
pub fn run(args: &[String]) -> i32 {
    let summary = args.first().map(|a| a == "--summary").unwrap_or(false);
    let files: &[String] = if summary { args.get(1..).unwrap_or(&[]) } else { args };
    if files.is_empty() {
        println!("ERR usage: tsread [--summary] <file.ts>...");
        return 0;
    }
    for path in files {
        let text = match std::fs::read_to_string(path) {
            Ok(t) => t,
            Err(e) => {
                println!("ERR {}: {}", path, e);
                continue;
            }
        };
        let body = if path.ends_with(".snap") { strip_snap_header(&text) } else { text.as_str() };
        match read_ts(body) {
            Ok(v) => {
                if summary {
                    let (mut unknown, mut raw, mut counts) = (Vec::new(), Vec::new(), Map::new());
                    summarize(v.get("stmts").unwrap_or(&Value::Null), "", &mut unknown, &mut raw, &mut counts);
                    println!(
                        "OK {} counts={} unknown={:?} raw={:?}",
                        path,
                        Value::Object(counts),
                        unknown,
                        raw
                    );
                } else {
                    println!("{}", serde_json::to_string_pretty(&v).unwrap_or_else(|e| format!("ERR {}", e)));
                }
            }
            Err(e) => {
                if summary {
                    println!("ERR {} {}", path, e);
                } else {
                    println!("ERR {}", e);
                }
            }
        }
    }
    0
}

#[cfg(test)]
mod tests {
    use super::*;

    const SAMPLES: &[&str] = &[
        "/verif/harness/samples/p1/gen/schema.d.ts",
        "/verif/harness/samples/p1/gen/resolvers.d.ts",
        "/verif/harness/samples/p1/ops/q.graphql.ts",
        "/verif/harness/samples/p1/ops/frag.graphql.ts",
    ];

    fn snap_files() -> Vec<String> {
        let mut out = Vec::new();
        for dir in ["operation_js_printer", "operation_type_printer", "resolver_type_printer", "schema_type_printer"] {
            let d = format!("/repo/crates/printer/src/{}/tests/snapshots", dir);
            if let Ok(rd) = std::fs::read_dir(&d) {
                for e in rd.flatten() {
                    let p = e.path().to_string_lossy().to_string();
                    if p.ends_with(".snap") {
                        out.push(p);
                    }
                }
            }
        }
        out.sort();
        out
    }

    fn load(path: &str) -> Option<String> {
        let t = std::fs::read_to_string(path).ok()?;
        Some(if path.ends_with(".snap") { strip_snap_header(&t).to_string() } else { t })
    }

    fn count_kind(v: &Value, kind: &str) -> usize {
        match v {
            Value::Object(o) => {
                let me = (o.get("k").and_then(|k| k.as_str()) == Some(kind)) as usize;
                // do not count inside const initializers (GraphQL document JSON has "kind", not "k", but be safe)
                me + o.iter().filter(|(k, _)| k.as_str() != "init").map(|(_, c)| count_kind(c, kind)).sum::<usize>()
            }
            Value::Array(a) => a.iter().map(|c| count_kind(c, kind)).sum(),
            _ => 0,
        }
    }

    #[test]
    fn all_real_files_parse_structured() {
        let mut files: Vec<String> = SAMPLES.iter().map(|s| s.to_string()).collect();
        files.extend(snap_files());
        assert!(files.len() > 50, "expected the snapshot corpus, got {}", files.len());
        for f in files {
            let Some(text) = load(&f) else { continue };
            let v = read_ts(&text).unwrap_or_else(|e| panic!("{}: {}", f, e));
            assert_eq!(count_kind(&v, "unknown"), 0, "{}", f);
            // only the prelude helpers are raw
            let stmts = v["stmts"].as_array().unwrap();
            for s in stmts {
                if count_kind(s, "raw") > 0 {
                    let name = s["name"].as_str().unwrap_or("");
                    assert!(
                        ["__Beautify", "__SelectionSet", "__Resolver", "__TypeResolver", "ResolverOutput"].contains(&name),
                        "{}: raw type in {}",
                        f,
                        name
                    );
                    assert_eq!(s["t"]["k"], "raw");
                }
            }
        }
    }

    #[test]
    fn shapes() {
        let v = read_ts(
            "export type { a as b, c, } ; export { as as as }; import type { X as Y, } from 'x';\n\
             import * as Z from \"z\"; import D from 'd'; export default X; export * from 'y'; ;",
        )
        .unwrap();
        let s = v["stmts"].as_array().unwrap();
        assert_eq!(s[0], json!({"k":"exportList","typeOnly":true,"items":[{"name":"a","as":"b"},{"name":"c","as":"c"}]}));
        assert_eq!(s[1], json!({"k":"exportList","typeOnly":false,"items":[{"name":"as","as":"as"}]}));
        assert_eq!(s[2], json!({"k":"import","typeOnly":true,"star":"","names":[{"name":"X","as":"Y"}],"from":"x"}));
        assert_eq!(s[3], json!({"k":"import","typeOnly":false,"star":"Z","names":[],"from":"z"}));
        assert_eq!(s[4]["k"], "unknown");
        assert_eq!(s[5]["k"], "unknown");
        assert_eq!(s[6]["k"], "unknown");
        assert_eq!(s[7], json!({"k":"unknown","tokens":[";"]}));

        let v = read_ts(
            "type T<in out A extends B<C> = D<E>, F = {a: 1}> = -1 | 1.5e+3 | true | 'a\\u0041\\x41\\n\\u{1F600}' \
             | readonly string[][] | A.B.C<D,>[] | (A & B)[] ;\n\
             declare const x: (a: A) => B = 1 as const; let y = 2;\n\
             namespace N { function g() { x; } }",
        )
        .unwrap();
        let s = v["stmts"].as_array().unwrap();
        assert_eq!(s[0]["params"], json!(["A", "F"]));
        let ts = s[0]["t"]["ts"].as_array().unwrap();
        assert_eq!(ts[0], json!({"k":"litnum","s":"-1"}));
        assert_eq!(ts[1], json!({"k":"litnum","s":"1.5e+3"}));
        assert_eq!(ts[2], json!({"k":"litbool","v":true}));
        assert_eq!(ts[3], json!({"k":"lit","s":"aAA\n\u{1F600}"}));
        assert_eq!(ts[4], json!({"k":"array","readonly":true,"of":{"k":"array","readonly":false,"of":{"k":"kw","n":"string"}}}));
        assert_eq!(ts[5]["of"], json!({"k":"ref","path":["A","B","C"],"args":[{"k":"ref","path":["D"],"args":[]}]}));
        assert_eq!(ts[6]["of"]["k"], "inter");
        assert_eq!(s[1]["k"], "const");
        assert_eq!(s[1]["t"]["k"], "raw");
        assert_eq!(s[1]["init"], json!(1));
        assert_eq!(s[2]["k"], "unknown");
        // a ';'-less statement inside a namespace ends at the namespace's '}'
        assert_eq!(s[3]["k"], "namespace");
        assert_eq!(s[3]["body"], json!([{"k":"unknown","tokens":["function","g","(",")","{","x",";","}"]}]));
        assert_eq!(s.len(), 4);
        // at top level a statement with no ';' at depth 0 runs to end of input -> Err
        assert!(read_ts("function f() { return 1; }").is_err());

        let v = read_ts("type X = { readonly: 1, readonly readonly?: 2; 'q-k': 3; 5: 4 }; type Y = { [k: string]: 1 }; type Z = { m(): void };").unwrap();
        let s = v["stmts"].as_array().unwrap();
        let fs = s[0]["t"]["fs"].as_array().unwrap();
        assert_eq!(fs.len(), 4);
        assert_eq!(fs[0]["key"], "readonly");
        assert_eq!(fs[0]["readonly"], false);
        assert_eq!(fs[1]["key"], "readonly");
        assert_eq!(fs[1]["readonly"], true);
        assert_eq!(fs[1]["opt"], true);
        assert_eq!(fs[2]["key"], "q-k");
        assert_eq!(fs[3]["key"], "5");
        assert_eq!(s[1]["t"]["k"], "raw");
        assert_eq!(s[2]["t"]["k"], "raw");

        // positions: UTF-16 columns, BOM skipped as whitespace, last sourceMappingURL wins
        let v = read_ts("\u{feff}type X = \"\u{1F600}\"; type Yy = 1;\n//# sourceMappingURL=a.map\n  /** d */ type Z = 1;//# sourceMappingURL= b.map  ").unwrap();
        assert_eq!(v["sourceMappingURL"], "b.map");
        let s = v["stmts"].as_array().unwrap();
        assert_eq!((s[0]["line"].as_i64(), s[0]["col"].as_i64()), (Some(0), Some(6)));
        assert_eq!((s[1]["line"].as_i64(), s[1]["col"].as_i64()), (Some(0), Some(21)));
        assert_eq!(s[2]["doc"], true);
        assert_eq!((s[2]["line"].as_i64(), s[2]["col"].as_i64()), (Some(2), Some(16)));

        // namespace closed by '}' terminates a ';'-less unknown statement
        let v = read_ts("export declare namespace A { let x = 1 }").unwrap();
        assert_eq!(v["stmts"][0]["body"][0], json!({"k":"unknown","tokens":["let","x","=","1"]}));

        // enum runtime object
        let v = read_ts("export const R = {\n  A: \"A\",\n} as const;\nexport declare const Q: { A: \"A\" };").unwrap();
        assert_eq!(v["stmts"][0]["t"], json!({"k":"kw","n":"any"}));
        assert_eq!(v["stmts"][0]["init"]["k"], "rawinit");
        assert_eq!(v["stmts"][0]["hasInit"], true);
        assert_eq!(v["stmts"][1]["hasInit"], false);
        assert_eq!(v["stmts"][1]["init"], json!({}));
        assert_eq!(v["stmts"][1]["t"]["k"], "obj");
    }

    #[test]
    fn doc_comment_ends_at_first_close() {
        // the stray `*/` is code: balanced and ';'-terminated, so it surfaces as an unknown statement
        let v = read_ts("/** a */ */ type X = 1;").unwrap();
        assert_eq!(v["stmts"], json!([{"k":"unknown","tokens":["*","/","type","X","=","1",";"]}]));
        // inside an object type it makes the alias raw
        let v = read_ts("type X = { /** a */ */ b: 1; };").unwrap();
        assert_eq!(v["stmts"][0]["t"]["k"], "raw");
        // unbalanced leftovers are an error
        assert!(read_ts("/** a */ ) */ type X = 1;").is_err());
    }

    #[test]
    fn errors_not_panics() {
        for bad in [
            "/** unterminated",
            "type X = 'abc",
            "type X = `abc ${ `x` } ;",
            "type X = 1",
            "export declare namespace A { type X = 1; } }",
            "export declare namespace A { type X = 1;",
            "type \u{1F600} = 1;",
            "type X = (;",
            "foo ( ] ;",
        ] {
            assert!(read_ts(bad).is_err(), "{:?} should fail", bad);
        }
    }

    #[test]
    fn adversarial_depth_terminates() {
        let n = 100_000;
        let cases = vec![
            format!("type A = {}X{};", "(".repeat(n), ")".repeat(n)),
            format!("type A = {}X{};", "{a:".repeat(n), "}".repeat(n)),
            format!("type A = {}X{};", "B<".repeat(n), ">".repeat(n)),
            format!("{}{}", "namespace a {".repeat(n), "}".repeat(n)),
            format!("type A = X{};", "[]".repeat(n)),
            format!("type A = {};", "|X".repeat(n)),
            format!("const a = {}{};", "[".repeat(n), "]".repeat(n)),
            format!("const a = {}{};", "[".repeat(100), "]".repeat(100)),
        ];
        // run on a deliberately small stack to prove the recursion bound leaves headroom
        let h = std::thread::Builder::new()
            .stack_size(512 * 1024)
            .spawn(move || {
                for c in cases {
                    let r = read_ts(&c);
                    drop(r);
                }
            })
            .unwrap();
        h.join().unwrap();
    }

    /// Deterministic mutation fuzzing: truncations and random edits of the real files never panic.
    #[test]
    fn mutation_fuzz() {
        let mut seed: u64 = 0x9E3779B97F4A7C15;
        let mut rnd = move |n: usize| -> usize {
            seed ^= seed << 13;
            seed ^= seed >> 7;
            seed ^= seed << 17;
            (seed % (n.max(1) as u64)) as usize
        };
        let pool: Vec<char> = "{}()[]<>;:,.|&=?*/\"'`\\-\u{e9} \u{1F600}\n".chars().collect();
        let mut files: Vec<String> = SAMPLES.iter().map(|s| s.to_string()).collect();
        files.extend(snap_files().into_iter().filter(|f| f.contains("schema_type_printer") || f.contains("resolver_type")));
        let (mut ok, mut err) = (0, 0);
        for f in files {
            let Some(text) = load(&f) else { continue };
            let chars: Vec<char> = text.chars().collect();
            if chars.is_empty() {
                continue;
            }
            for _ in 0..150 {
                let k = rnd(chars.len());
                let s: String = chars[..k].iter().collect();
                match read_ts(&s) { Ok(_) => ok += 1, Err(_) => err += 1 }
            }
            for _ in 0..300 {
                let mut t = chars.clone();
                for _ in 0..(1 + rnd(5)) {
                    let k = rnd(t.len());
                    match rnd(5) {
                        0 | 1 => { t.remove(k); }
                        2 | 3 => t.insert(k, pool[rnd(pool.len())]),
                        _ => t[k] = pool[rnd(pool.len())],
                    }
                    if t.is_empty() { break; }
                }
                let s: String = t.iter().collect();
                match read_ts(&s) { Ok(_) => ok += 1, Err(_) => err += 1 }
            }
        }
        eprintln!("mutation_fuzz: ok={} err={}", ok, err);
        assert!(ok > 0 && err > 0);
    }
}
