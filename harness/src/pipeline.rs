//! In-process "library route": the same sequence of public library calls that `nitrogql generate`
//! makes (parse with file indices -> merge -> builtins -> resolve extensions -> check ->
//! SchemaTypePrinter / print_types_for_operation_document), used by C17 to compare bytes with the CLI
//! and by the type-level properties (C01/C02/C09/C10) to obtain generated text without a process per case.
#[path = "/repo/crates/cli/src/builtins.rs"]
#[allow(dead_code)]
pub mod cli_builtins;

use graphql_builtins::generate_builtins;
use nitrogql_ast::{OperationDocument, TypeSystemOrExtensionDocument, set_current_file_of_pos};
use nitrogql_checker::{OperationCheckContext, check_operation_document, check_type_system_document};
use nitrogql_config_file::{Config, parse_config};
use nitrogql_error::PositionedError;
use nitrogql_printer::{OperationTypePrinterOptions, SchemaTypePrinter, SchemaTypePrinterOptions, print_types_for_operation_document};
use nitrogql_semantics::{
    OperationExtension, OperationResolver, ast_to_type_system, resolve_operation_extensions, resolve_operation_imports,
    resolve_schema_extensions,
};
use sourcemap_writer::SourceWriter;
use std::borrow::Cow;
use std::collections::HashMap;
use std::path::{Path, PathBuf};

pub struct LibOutput {
    pub schema_dts: Option<String>,
    /// operation file path -> declaration text
    pub op_dts: Vec<(String, String)>,
    pub diags: Vec<String>,
}

struct MapResolver<'a>(HashMap<PathBuf, (&'a OperationDocument<'static>, &'a OperationExtension<'static>)>);
impl<'a> OperationResolver<'static> for MapResolver<'a> {
    fn resolve(&self, path: &Path) -> Option<(&OperationDocument<'static>, &OperationExtension<'static>)> {
        self.0.get(path).map(|(d, e)| (*d, *e))
    }
}

fn leak(s: &str) -> &'static str {
    Box::leak(s.to_string().into_boxed_str())
}

/// schema / ops: (absolute path, text) in the order the CLI would load them. `schema_source`: module specifier
/// written into operation declaration files.
pub fn lib_generate(schema: &[(String, String)], ops: &[(String, String)], config_text: &str, schema_source: &str) -> Result<LibOutput, String> {
    let config: Config = parse_config(config_text).ok_or("config")?;
    let mut diags = vec![];
    let mut docs = vec![];
    let mut idx = 0usize;
    for (_, text) in schema {
        set_current_file_of_pos(idx);
        idx += 1;
        match nitrogql_parser::parse_type_system_document(leak(text)) {
            Ok(d) => docs.push(d),
            Err(e) => return Err(format!("schema parse: {}", e.into_message())),
        }
    }
    let mut merged = TypeSystemOrExtensionDocument::merge(docs);
    merged.extend(generate_builtins());
    merged.extend(cli_builtins::nitrogql_builtins());
    let mut parsed_ops = vec![];
    for (path, text) in ops {
        set_current_file_of_pos(idx);
        let file_index = idx;
        idx += 1;
        match nitrogql_parser::parse_operation_document(leak(text)) {
            Ok(d) => parsed_ops.push((PathBuf::from(path), d, file_index)),
            Err(e) => return Err(format!("operation parse: {}", e.into_message())),
        }
    }
    set_current_file_of_pos(0);
    let resolved = resolve_schema_extensions(merged).map_err(|e| {
        let pe: PositionedError = e.into();
        format!("extension: {}", pe.into_inner())
    })?;
    for e in check_type_system_document(&resolved) {
        let pe: PositionedError = e.into();
        diags.push(pe.message());
    }
    if !diags.is_empty() {
        return Ok(LibOutput { schema_dts: None, op_dts: vec![], diags });
    }
    let ts = ast_to_type_system(&resolved);
    let mut resolved_ops = vec![];
    for (path, doc, fi) in parsed_ops {
        match resolve_operation_extensions(doc) {
            Ok((d, e)) => resolved_ops.push((path, d, e, fi)),
            Err(e) => {
                let pe: PositionedError = e.into();
                diags.push(pe.message());
            }
        }
    }
    if !diags.is_empty() {
        return Ok(LibOutput { schema_dts: None, op_dts: vec![], diags });
    }
    let resolver = MapResolver(resolved_ops.iter().map(|(p, d, e, _)| (p.clone(), (d, e))).collect());
    let mut full_ops = vec![];
    for (path, doc, ext, _) in resolved_ops.iter() {
        match resolve_operation_imports((path, doc, ext), &resolver) {
            Ok(d) => full_ops.push((path.clone(), d)),
            Err(e) => {
                let pe: PositionedError = e.into();
                diags.push(pe.message());
            }
        }
    }
    if !diags.is_empty() {
        return Ok(LibOutput { schema_dts: None, op_dts: vec![], diags });
    }
    let ctx = OperationCheckContext::new(&ts);
    for (_, doc) in full_ops.iter() {
        for e in check_operation_document(doc, &ctx) {
            let pe: PositionedError = e.into();
            diags.push(pe.message());
        }
    }
    if !diags.is_empty() {
        return Ok(LibOutput { schema_dts: None, op_dts: vec![], diags });
    }
    // generate
    let mut w = SourceWriter::new();
    let mut printer = SchemaTypePrinter::new(SchemaTypePrinterOptions::from_config(&config), &mut w);
    printer.print_document(&resolved).map_err(|e| format!("schema printer: {e:?}"))?;
    let schema_dts = w.into_buffers().buffer;
    let schema_cow = ts;
    let mut op_dts = vec![];
    for (path, doc) in full_ops.iter() {
        let mut w = SourceWriter::new();
        let mut options = OperationTypePrinterOptions::from_config(&config);
        options.schema_source = schema_source.to_string();
        let s: &graphql_type_system::Schema<Cow<str>, nitrogql_ast::base::Pos> = &schema_cow;
        print_types_for_operation_document(options, s, doc, &mut w);
        op_dts.push((path.to_string_lossy().to_string(), w.into_buffers().buffer));
    }
    Ok(LibOutput { schema_dts: Some(schema_dts), op_dts, diags })
}
