//! C15 driver: the same schema as SDL files and as the JSON result of the standard introspection query, the same
//! configuration and the same operation documents.  Four CLI runs per case: `check` over all documents (valid and faulty)
//! on each route, `generate` over the valid documents on each route.  Records, per route, which operation files were
//! reported and the exported type aliases of every declaration file (read by the TS-subset reader).  No interpretation.
use crate::cli::run_project;
use crate::render::{render_op_doc, render_ts_doc};
use crate::tsread::read_ts;
use crate::util::*;
use serde_json::{Value, json};
use std::path::PathBuf;

fn aliases(ast: &Value, prefix: &str, out: &mut Vec<Value>) {
    for s in ast.as_array().unwrap() {
        match s["k"].as_str().unwrap() {
            "type" => out.push(json!({"name": format!("{prefix}{}", s["name"].as_str().unwrap()), "base": s["name"], "params": s["params"], "t": s["t"]})),
            "namespace" => aliases(&s["body"], &format!("{prefix}{}.", s["name"].as_str().unwrap()), out),
            "exportList" => {
                for it in s["items"].as_array().unwrap() {
                    out.push(json!({"name": format!("{prefix}{}", it["as"].as_str().unwrap()), "base": it["as"], "params": [],
                                    "t": {"k": "ref", "path": [it["name"]], "args": []}}));
                }
            }
            _ => {}
        }
    }
}

fn offending(stdout: &str, dir: &std::path::Path) -> (Vec<String>, i64, String) {
    // files named by located check errors, number of schema errors, command-level error message
    let Ok(v) = serde_json::from_str::<Value>(stdout) else { return (vec![], 0, "stdout is not JSON".into()) };
    let mut files = vec![];
    let mut schema_errors = 0;
    for e in v["check"]["errors"].as_array().map(|a| a.as_slice()).unwrap_or(&[]) {
        if e["fileType"] == "schema" {
            schema_errors += 1;
            continue;
        }
        if let Some(p) = e["file"]["path"].as_str() {
            let base = format!("{}/", dir.to_string_lossy());
            let rel = p.strip_prefix(&base).unwrap_or(p).replace("/./", "/");
            let rel = rel.strip_prefix("./").unwrap_or(&rel).to_string();
            if !files.contains(&rel) {
                files.push(rel);
            }
        } else {
            files.push("<unlocated>".into());
        }
    }
    files.sort();
    (files, schema_errors, v["error"]["message"].as_str().unwrap_or("").to_string())
}

fn route(cli: &str, dir: &std::path::Path, config: &str, schema: &[(String, String)], docs: &[(String, String, bool)]) -> Value {
    let mut files: Vec<(String, String)> = vec![("graphql.config.yaml".into(), config.to_string())];
    files.extend(schema.iter().cloned());
    let mut all = files.clone();
    all.extend(docs.iter().map(|(p, t, _)| (p.clone(), t.clone())));
    let chk = run_project(cli, dir, &all, &["--output-format".into(), "json".into(), "check".into()], 60);
    let (off, schema_errors, cmd_err) = offending(&chk.stdout, dir);
    let mut valid = files.clone();
    valid.extend(docs.iter().filter(|(_, _, v)| *v).map(|(p, t, _)| (p.clone(), t.clone())));
    let genr = run_project(cli, dir, &valid, &["--output-format".into(), "json".into(), "generate".into()], 60);
    let written = genr.written();
    let mut als = vec![];
    let mut unreadable = vec![];
    for (name, text) in written.iter().filter(|(k, _)| k.ends_with(".ts")) {
        match read_ts(text) {
            Ok(ast) => {
                let mut v = vec![];
                aliases(&ast["stmts"], "", &mut v);
                als.push(json!({"file": name, "aliases": v}));
            }
            Err(w) => unreadable.push(json!({"file": name, "why": w})),
        }
    }
    json!({"check": {"exit": chk.exit, "panicked": chk.panicked(), "offending": off, "schemaErrors": schema_errors, "commandError": cmd_err},
           "gen": {"exit": genr.exit, "panicked": genr.panicked(), "files": als, "unreadable": unreadable,
                   "diag": if genr.exit != 0 { genr.stdout.chars().take(1200).collect::<String>() } else { String::new() }}})
}

/// twin <cli> <cases.ndjson> <events.ndjson> <scratch> [workers]
/// case: {id, schemaFiles: [{path, items}], introText, intro (null-free JSON), docs: [{path, doc, valid}], configText}
pub fn run(args: &[String]) -> i32 {
    let cli = args[0].clone();
    let cases = std::sync::Arc::new(read_ndjson(&args[1]));
    let out = std::sync::Arc::new(std::sync::Mutex::new(Out::create(&args[2])));
    let scratch = PathBuf::from(&args[3]);
    let workers: usize = args.get(4).and_then(|w| w.parse().ok()).unwrap_or(8);
    let next = std::sync::Arc::new(std::sync::Mutex::new(0usize));
    let mut hs = vec![];
    for w in 0..workers {
        let (cases, out, next, cli, scratch) = (cases.clone(), out.clone(), next.clone(), cli.clone(), scratch.clone());
        hs.push(std::thread::spawn(move || {
            loop {
                let i = {
                    let mut n = next.lock().unwrap();
                    let i = *n;
                    *n += 1;
                    i
                };
                if i >= cases.len() {
                    break;
                }
                let c = &cases[i];
                let config = c["configText"].as_str().unwrap();
                let sdl: Vec<(String, String)> = c["schemaFiles"].as_array().unwrap().iter()
                    .map(|f| (strs(&f["path"]).join("/"), render_ts_doc(&json!({"defs": f["items"]})).0)).collect();
                let js = vec![("schema/introspection.json".to_string(), c["introText"].as_str().unwrap().to_string())];
                let docs: Vec<(String, String, bool)> = c["docs"].as_array().unwrap().iter()
                    .map(|d| (strs(&d["path"]).join("/"), render_op_doc(&d["doc"]).0, d["valid"].as_bool().unwrap())).collect();
                let dir = scratch.join(format!("w{w}_p{i}"));
                let a = route(&cli, &dir, config, &sdl, &docs);
                let b = route(&cli, &dir, config, &js, &docs);
                let _ = std::fs::remove_dir_all(&dir);
                let mut e = json!({"ev": "Twin", "id": c["id"], "schemaFiles": c["schemaFiles"], "intro": c["intro"], "sdl": a, "json": b,
                                   "docs": c["docs"].as_array().unwrap().iter().map(|d| json!({"path": d["path"], "valid": d["valid"], "fault": d["fault"]})).collect::<Vec<_>>()});
                if c["keepTexts"] == true {
                    e["texts"] = json!(sdl.iter().chain(docs.iter().map(|(p, t, _)| (p.clone(), t.clone())).collect::<Vec<_>>().iter()).map(|(p, t)| json!({"rel": p, "text": t})).collect::<Vec<_>>());
                }
                out.lock().unwrap().emit(&e);
            }
        }));
    }
    for h in hs {
        h.join().unwrap();
    }
    out.lock().unwrap().flush();
    0
}
