//! C03 / C04 driver: abstract schema + abstract operation files -> text -> real parser, extension and
//! import resolution -> real operation checker (with the CLI's built-ins) -> diagnostics.
use crate::render::{render_op_doc, render_ts_doc};
use crate::util::*;
use graphql_builtins::generate_builtins;
use nitrogql_ast::{OperationDocument, set_current_file_of_pos};
use nitrogql_checker::{OperationCheckContext, check_operation_document, check_type_system_document};
use nitrogql_error::PositionedError;
use nitrogql_semantics::{
    OperationExtension, OperationResolver, ast_to_type_system, resolve_operation_extensions, resolve_operation_imports,
    resolve_schema_extensions,
};
use serde_json::{Value, json};
use std::collections::HashMap;
use std::path::{Path, PathBuf};

struct MapResolver<'a>(HashMap<PathBuf, (&'a OperationDocument<'static>, &'a OperationExtension<'static>)>);
impl<'a> OperationResolver<'static> for MapResolver<'a> {
    fn resolve(&self, path: &Path) -> Option<(&OperationDocument<'static>, &OperationExtension<'static>)> {
        self.0.get(path).map(|(d, e)| (*d, *e))
    }
}
fn leak(s: String) -> &'static str {
    Box::leak(s.into_boxed_str())
}
fn abs(p: &Value) -> PathBuf {
    PathBuf::from(format!("/{}", strs(p).join("/")))
}

type Schema = graphql_type_system::Schema<std::borrow::Cow<'static, str>, nitrogql_ast::base::Pos>;

fn build_schema(model: &Value) -> Result<&'static Schema, String> {
    let text = leak(render_ts_doc(model).0);
    set_current_file_of_pos(0);
    let mut doc = nitrogql_parser::parse_type_system_document(text).map_err(|e| format!("schema parse: {}", e.into_message()))?;
    doc.extend(generate_builtins());
    let resolved = resolve_schema_extensions(doc).map_err(|e| {
        let pe: PositionedError = e.into();
        format!("schema extension: {}", pe.message())
    })?;
    let errs = check_type_system_document(&resolved);
    if !errs.is_empty() {
        let pe: PositionedError = errs.into_iter().next().unwrap().into();
        return Err(format!("schema check: {}", pe.message()));
    }
    let resolved: &'static _ = Box::leak(Box::new(resolved));
    Ok(Box::leak(Box::new(ast_to_type_system(resolved))))
}

/// diagnostics of checking the root file of `files` against `schema`
fn check_files(schema: &'static Schema, files: &Value, root: &Value) -> Value {
    let r = guarded(|| {
        let mut parsed = vec![];
        for (i, f) in files.as_array().unwrap().iter().enumerate() {
            set_current_file_of_pos(i + 1);
            let text = leak(render_op_doc(&f["doc"]).0);
            let doc = match nitrogql_parser::parse_operation_document(text) {
                Ok(d) => d,
                Err(e) => return json!({"k": "stage-error", "stage": "parse", "msg": e.into_message(), "text": text}),
            };
            match resolve_operation_extensions(doc) {
                Ok((d, e)) => parsed.push((abs(&f["path"]), d, e)),
                Err(e) => {
                    let pe: PositionedError = e.into();
                    return json!({"k": "stage-error", "stage": "extensions", "msg": pe.message()});
                }
            }
        }
        set_current_file_of_pos(0);
        let rootp = abs(root);
        let resolver = MapResolver(parsed.iter().map(|(p, d, e)| (p.clone(), (d, e))).collect());
        let Some((rp, rd, re)) = parsed.iter().find(|(p, _, _)| *p == rootp) else {
            return json!({"k": "stage-error", "stage": "root", "msg": "root not among files"});
        };
        let full = match resolve_operation_imports((rp, rd, re), &resolver) {
            Ok(d) => d,
            Err(e) => {
                let pe: PositionedError = e.into();
                return json!({"k": "stage-error", "stage": "imports", "msg": pe.message()});
            }
        };
        let ctx = OperationCheckContext::new(schema);
        let diags: Vec<Value> = check_operation_document(&full, &ctx)
            .into_iter()
            .map(|e| {
                let pe: PositionedError = e.into();
                let pos = pe.position();
                json!({"msg": pe.message(), "line": pos.map(|p| p.line as i64).unwrap_or(-1), "col": pos.map(|p| p.column as i64).unwrap_or(-1),
                       "file": pos.map(|p| p.file as i64).unwrap_or(-1)})
            })
            .collect();
        json!({"k": "ok", "diags": diags})
    });
    match r {
        Ok(v) => v,
        Err(m) => json!({"k": "panic", "msg": m}),
    }
}

/// checkops <schemas.ndjson> <cases.ndjson> <events.ndjson>
/// schemas: [{name, model}] ; case: {schema: name, files, root, mode, fault?, base?: files of the unmutated document}
pub fn run(args: &[String]) -> i32 {
    let mut schemas: HashMap<String, (&'static Schema, Value)> = HashMap::new();
    for s in read_ndjson(&args[0]) {
        // the SDL that is parsed may spell the same schema with `extend` items (renderModel); `model` is its merged form
        match build_schema(if s["renderModel"].is_object() { &s["renderModel"] } else { &s["model"] }) {
            Ok(sc) => {
                schemas.insert(s["name"].as_str().unwrap().to_string(), (sc, s["model"].clone()));
            }
            Err(e) => {
                eprintln!("fixture schema {} is not valid: {e}", s["name"]);
                return 3;
            }
        }
    }
    let cases = read_ndjson(&args[1]);
    let mut out = Out::create(&args[2]);
    let mut base_cache: HashMap<String, usize> = HashMap::new();
    for c in &cases {
        let (schema, model) = &schemas[c["schema"].as_str().unwrap()];
        let o = check_files(schema, &c["files"], &c["root"]);
        let mut e = json!({"ev": "CheckOps", "schemaName": c["schema"], "schema": model, "files": c["files"], "root": c["root"], "mode": c["mode"], "out": o});
        if c["mode"] == "fault" {
            e["fault"] = c["fault"].clone();
            let key = c["base"].to_string();
            let n = *base_cache.entry(key).or_insert_with(|| {
                let b = check_files(schema, &c["base"], &c["root"]);
                if b["k"] == "ok" { b["diags"].as_array().unwrap().len() } else { 1 }
            });
            e["baseDiags"] = json!(n);
        }
        out.emit(&e);
    }
    0
}
