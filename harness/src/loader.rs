//! C19 driver: replays call histories through the real `extern "C"` loader functions
//! (linked natively from the unmodified /repo/crates/graphql-loader/src/main.rs).
//! Each history runs on a fresh thread (fresh thread-local TASKS/RESULT/CONFIG).
//! The replay itself runs in a child process so that an abort inside a call is observed
//! as a `Crash` event instead of killing the harness.
use crate::util::*;
use nq_loader_abi as abi;
use serde_json::{Value, json};
use std::io::{BufRead, BufReader, Write};
use std::process::{Command, Stdio};

/// Renders an abstract file descriptor as GraphQL text (no semantics: a fixed template).
pub fn render_desc(d: &Value) -> String {
    if !d["ok"].as_bool().unwrap() {
        return "query Broken {".to_string();
    }
    let mut s = String::new();
    for imp in d["imports"].as_array().unwrap() {
        let spec = strs(&imp["spec"]).join("/");
        let names = if imp["wild"].as_bool().unwrap() { "*".to_string() } else { strs(&imp["names"]).join(", ") };
        s.push_str(&format!("#import {names} from \"{spec}\"\n"));
    }
    for op in d["ops"].as_array().unwrap() {
        let name = op["name"].as_str().unwrap();
        s.push_str(&format!("query {name} {{ f"));
        for sp in strs(&op["spreads"]) {
            s.push_str(&format!(" ...{sp}"));
        }
        s.push_str(" }\n");
    }
    for fr in d["frags"].as_array().unwrap() {
        let name = fr["name"].as_str().unwrap();
        s.push_str(&format!("fragment {name} on Query {{ g{name}: f"));
        for sp in strs(&fr["spreads"]) {
            s.push_str(&format!(" ...{sp}"));
        }
        s.push_str(" }\n");
    }
    s
}

fn path_str(p: &Value) -> String {
    format!("/{}", strs(p).join("/"))
}

/// Passes a string the way the TypeScript wrapper does: alloc_string, copy, call, free_string.
fn with_abi_str<T>(s: &str, f: impl FnOnce(*const u8, usize) -> T) -> T {
    let len = s.len();
    let ptr = abi::alloc_string(len);
    unsafe {
        std::ptr::copy_nonoverlapping(s.as_ptr(), ptr, len);
    }
    let r = f(ptr as *const u8, len);
    unsafe { abi::free_string(ptr, len) };
    r
}

fn read_result() -> String {
    let p = abi::get_result_ptr();
    let n = abi::get_result_size();
    let sl = unsafe { std::slice::from_raw_parts(p, n) };
    String::from_utf8_lossy(sl).into_owned()
}

fn own_events() -> Value {
    let v: Vec<Value> = abi::verif_drain_ownership()
        .into_iter()
        .map(|(k, p, l, c, ap, al)| {
            json!({"kind": (k as char).to_string(), "ptr": format!("{p:x}"), "len": l, "cap": c,
                   "aptr": format!("{ap:x}"), "alen": al})
        })
        .collect();
    Value::Array(v)
}

fn initiate(p: &str, src: &str) -> usize {
    with_abi_str(p, |pp, pl| with_abi_str(src, |sp, sl| abi::initiate_task(pp, pl, sp, sl)))
}
fn load(t: usize, p: &str, src: &str) -> bool {
    with_abi_str(p, |pp, pl| with_abi_str(src, |sp, sl| abi::load_file(t, pp, pl, sp, sl)))
}

/// What a fresh task (fresh thread) emits when given exactly these (path, source) calls.
fn fresh_emit(calls: &[(String, String)]) -> Option<(bool, String)> {
    let calls = calls.to_vec();
    std::thread::spawn(move || {
        let mut it = calls.iter();
        let (p0, s0) = it.next()?;
        let id = initiate(p0, s0);
        if id == 0 {
            return None;
        }
        for (p, s) in it {
            load(id, p, s);
        }
        let ok = abi::emit_js(id);
        let r = read_result();
        abi::free_task(id);
        abi::verif_drain_ownership();
        Some((ok, r))
    })
    .join()
    .ok()
    .flatten()
}

fn split_files(s: &str) -> Value {
    let v: Vec<Value> = s
        .split('\n')
        .filter(|x| !x.is_empty())
        .map(|x| crate::paths::split_path(std::path::Path::new(x)))
        .collect();
    Value::Array(v)
}

fn text_res(s: String) -> Value {
    json!({"k": "text", "s": s})
}

fn replay_history(hist: &Value, out: &mut Out) {
    out.emit(&json!({"ev": "Reset"}));
    out.flush();
    let steps = hist.as_array().unwrap().clone();
    std::thread::scope(|sc| {
        sc.spawn(|| {
            abi::verif_drain_ownership();
            // what this driver passed under each returned id (its own call log, no semantics)
            let mut log: std::collections::HashMap<usize, Vec<(String, String)>> = Default::default();
            for st in &steps {
                let c = &st["c"];
                let ev = match c["call"].as_str().unwrap() {
                    "initiate" => {
                        let (p, src) = (path_str(&c["p"]), render_desc(&c["d"]));
                        let id = initiate(&p, &src);
                        let mut e = json!({"ev": "Initiate", "p": c["p"], "d": c["d"], "ret": id});
                        if id == 0 {
                            e["res"] = text_res(read_result());
                        } else {
                            log.entry(id).or_default().push((p, src));
                        }
                        e
                    }
                    "required" => {
                        let t = c["t"].as_u64().unwrap() as usize;
                        let ok = abi::get_required_files(t);
                        let r = read_result();
                        json!({"ev": "Required", "t": t, "ret": ok,
                               "res": if ok { json!({"k": "files", "list": split_files(&r)}) } else { text_res(r) }})
                    }
                    "load" => {
                        let t = c["t"].as_u64().unwrap() as usize;
                        let (p, src) = (path_str(&c["p"]), render_desc(&c["d"]));
                        let ok = load(t, &p, &src);
                        let mut e = json!({"ev": "Load", "t": t, "p": c["p"], "d": c["d"], "ret": ok});
                        if !ok {
                            e["res"] = text_res(read_result());
                        }
                        if let Some(l) = log.get_mut(&t) {
                            l.push((p, src));
                        }
                        e
                    }
                    "emit" => {
                        let t = c["t"].as_u64().unwrap() as usize;
                        let ok = abi::emit_js(t);
                        let r = read_result();
                        let own = own_events();
                        let res = if ok {
                            let fresh = log.get(&t).and_then(|l| fresh_emit(l));
                            json!({"k": "js", "fresh": fresh == Some((true, r.clone())), "bytes": r.len()})
                        } else {
                            text_res(r)
                        };
                        let e = json!({"ev": "Emit", "t": t, "ret": ok, "res": res, "own": own});
                        out.emit(&e);
                        out.flush();
                        continue;
                    }
                    "free" => {
                        let t = c["t"].as_u64().unwrap() as usize;
                        abi::free_task(t);
                        log.remove(&t);
                        json!({"ev": "Free", "t": t})
                    }
                    "read" => json!({"ev": "Read", "res": text_or_any(read_result())}),
                    other => panic!("unknown call {other}"),
                };
                let mut e = ev;
                e["own"] = own_events();
                out.emit(&e);
                out.flush();
            }
        });
    });
}

/// A bare read cannot know which kind of result is in the cell; it reports the raw text and the
/// trace spec only requires that a read was possible.
fn text_or_any(s: String) -> Value {
    json!({"k": "any", "s": s.chars().take(200).collect::<String>()})
}

/// loader-child <cases> <events> <start>   — prints "done <i>" after each history
pub fn run_child(args: &[String]) -> i32 {
    let cases = read_ndjson(&args[0]);
    let start: usize = args[2].parse().unwrap();
    let mut out = Out::append(&args[1]);
    let stdout = std::io::stdout();
    for (i, h) in cases.iter().enumerate().skip(start) {
        replay_history(h, &mut out);
        let mut so = stdout.lock();
        writeln!(so, "done {i}").unwrap();
        so.flush().unwrap();
    }
    0
}

/// loader <cases> <events>
pub fn run(args: &[String]) -> i32 {
    let ncases = read_ndjson(&args[0]).len();
    std::fs::write(&args[1], b"").unwrap();
    let exe = std::env::current_exe().unwrap();
    let mut start = 0usize;
    let mut crashes = 0usize;
    while start < ncases {
        let mut child = Command::new(&exe)
            .args(["loader-child", &args[0], &args[1], &start.to_string()])
            .stdout(Stdio::piped())
            .stderr(Stdio::null())
            .spawn()
            .expect("spawn child");
        let rd = BufReader::new(child.stdout.take().unwrap());
        let mut last_done: Option<usize> = None;
        for line in rd.lines() {
            let line = line.unwrap();
            if let Some(n) = line.strip_prefix("done ") {
                last_done = n.trim().parse().ok();
            }
        }
        let status = child.wait().unwrap();
        let next = last_done.map(|d| d + 1).unwrap_or(start);
        if status.success() && next >= ncases {
            break;
        }
        // the child died inside history `next`
        crashes += 1;
        let mut out = Out::append(&args[1]);
        out.emit(&json!({"ev": "Crash", "history": next, "status": format!("{status}")}));
        out.flush();
        start = next + 1;
        if crashes > 2000 {
            eprintln!("too many crashes");
            return 3;
        }
    }
    0
}
