//! Abstract JSON documents (see ABSTRACT_JSON.md) -> GraphQL token stream -> text.
//!
//! Purely syntactic: one token sequence per grammar production, then a layout that joins the
//! tokens with separators ("gaps") and records where every token landed.  Every token carries
//! a `tag` naming the abstract node field whose position it is (e.g. `defs.0.namePos`), so a
//! caller can fill the expected positions into the abstract document.  The TLA+ lexer
//! (Lexer.tla) independently re-derives the token stream from the text, so this module is
//! not part of the trusted base for C07/C16.
use serde_json::{Value, json};

#[derive(Clone, Debug)]
pub struct Tok {
    pub text: String,
    /// dotted path of the position field this token is the anchor of ("" if none)
    pub tag: String,
}

fn t(text: &str) -> Tok {
    Tok { text: text.to_string(), tag: String::new() }
}
fn tt(text: &str, tag: String) -> Tok {
    Tok { text: text.to_string(), tag }
}
fn s(v: &Value) -> &str {
    v.as_str().unwrap_or("")
}
fn b(v: &Value) -> bool {
    v.as_bool().unwrap_or(false)
}
fn arr(v: &Value) -> &[Value] {
    v.as_array().map(|a| a.as_slice()).unwrap_or(&[])
}

fn cps_to_string(v: &Value) -> String {
    arr(v).iter().filter_map(|c| char::from_u32(c.as_u64().unwrap_or(0xFFFD) as u32)).collect()
}

/// Source text of a string literal: `raw` (verbatim) if given, else a canonical quoted form.
pub fn string_literal(node: &Value) -> String {
    if let Some(raw) = node.get("raw").and_then(|r| r.as_array()) {
        return raw.iter().filter_map(|c| char::from_u32(c.as_u64().unwrap() as u32)).collect();
    }
    let val = cps_to_string(&node["cp"]);
    if b(&node["block"]) {
        return format!("\"\"\"{}\"\"\"", val.replace("\"\"\"", "\\\"\"\""));
    }
    let mut out = String::from("\"");
    for ch in val.chars() {
        match ch {
            '"' => out.push_str("\\\""),
            '\\' => out.push_str("\\\\"),
            '\n' => out.push_str("\\n"),
            '\r' => out.push_str("\\r"),
            '\t' => out.push_str("\\t"),
            c if (c as u32) < 0x20 || c as u32 == 0x7f => out.push_str(&format!("\\u{:04X}", c as u32)),
            c => out.push(c),
        }
    }
    out.push('"');
    out
}

pub fn value_tokens(v: &Value, path: &str, out: &mut Vec<Tok>) {
    let tag = format!("{path}.pos");
    match s(&v["k"]) {
        "int" | "float" | "enum" => out.push(tt(s(&v["v"]), tag)),
        "string" => out.push(tt(&string_literal(v), tag)),
        "bool" => out.push(tt(if b(&v["v"]) { "true" } else { "false" }, tag)),
        "null" => out.push(tt("null", tag)),
        "var" => {
            out.push(tt("$", tag));
            out.push(t(s(&v["n"])));
        }
        "list" => {
            out.push(tt("[", tag));
            for (i, x) in arr(&v["vs"]).iter().enumerate() {
                value_tokens(x, &format!("{path}.vs.{i}"), out);
            }
            out.push(t("]"));
        }
        "object" => {
            out.push(tt("{", tag));
            for (i, f) in arr(&v["fs"]).iter().enumerate() {
                out.push(tt(s(&f["name"]), format!("{path}.fs.{i}.pos")));
                out.push(t(":"));
                value_tokens(&f["v"], &format!("{path}.fs.{i}.v"), out);
            }
            out.push(t("}"));
        }
        other => panic!("unknown value kind {other}"),
    }
}

pub fn type_tokens(ty: &Value, path: &str, out: &mut Vec<Tok>) {
    let tag = format!("{path}.pos");
    match s(&ty["k"]) {
        "named" => out.push(tt(s(&ty["n"]), tag)),
        "list" => {
            out.push(tt("[", tag));
            type_tokens(&ty["of"], &format!("{path}.of"), out);
            out.push(t("]"));
        }
        "nn" => {
            // the position of a non-null type is that of the type it wraps
            let start = out.len();
            type_tokens(&ty["of"], &format!("{path}.of"), out);
            if start < out.len() {
                // additional anchor with the same location
                let first = out[start].clone();
                out[start] = Tok { text: first.text, tag: format!("{}|{}", first.tag, tag) };
            }
            out.push(t("!"));
        }
        other => panic!("unknown type kind {other}"),
    }
}

fn args_tokens(args: &Value, path: &str, out: &mut Vec<Tok>) {
    let a = arr(args);
    if a.is_empty() {
        return;
    }
    out.push(t("("));
    for (i, x) in a.iter().enumerate() {
        out.push(tt(s(&x["name"]), format!("{path}.{i}.pos")));
        out.push(t(":"));
        value_tokens(&x["v"], &format!("{path}.{i}.v"), out);
    }
    out.push(t(")"));
}

fn dirs_tokens(dirs: &Value, path: &str, out: &mut Vec<Tok>) {
    for (i, d) in arr(dirs).iter().enumerate() {
        out.push(tt("@", format!("{path}.{i}.pos")));
        out.push(t(s(&d["name"])));
        args_tokens(&d["args"], &format!("{path}.{i}.args"), out);
    }
}

fn sel_tokens(sel: &Value, path: &str, out: &mut Vec<Tok>) {
    out.push(tt("{", format!("{path}Pos")));
    for (i, x) in arr(sel).iter().enumerate() {
        let p = format!("{path}.{i}");
        match s(&x["k"]) {
            "field" => {
                if b(&x["hasAlias"]) {
                    out.push(tt(s(&x["alias"]), format!("{p}.aliasPos")));
                    out.push(t(":"));
                }
                out.push(tt(s(&x["name"]), format!("{p}.pos")));
                args_tokens(&x["args"], &format!("{p}.args"), out);
                dirs_tokens(&x["dirs"], &format!("{p}.dirs"), out);
                if b(&x["hasSel"]) {
                    sel_tokens(&x["sel"], &format!("{p}.sel"), out);
                }
            }
            "spread" => {
                out.push(tt("...", format!("{p}.pos")));
                out.push(tt(s(&x["name"]), format!("{p}.namePos")));
                dirs_tokens(&x["dirs"], &format!("{p}.dirs"), out);
            }
            "inline" => {
                out.push(tt("...", format!("{p}.pos")));
                if b(&x["hasOn"]) {
                    out.push(t("on"));
                    out.push(tt(s(&x["on"]), format!("{p}.onPos")));
                }
                dirs_tokens(&x["dirs"], &format!("{p}.dirs"), out);
                sel_tokens(&x["sel"], &format!("{p}.sel"), out);
            }
            other => panic!("unknown selection kind {other}"),
        }
    }
    out.push(t("}"));
}

/// Tokens of one executable definition. `shorthand`: render an anonymous query without keyword.
pub fn exec_def_tokens(d: &Value, path: &str, out: &mut Vec<Tok>) {
    match s(&d["k"]) {
        "op" => {
            let shorthand = b(&d["shorthand"]);
            if !shorthand {
                out.push(tt(s(&d["opType"]), format!("{path}.pos")));
                if b(&d["hasName"]) {
                    out.push(tt(s(&d["name"]), format!("{path}.namePos")));
                }
                let vars = arr(&d["vars"]);
                if !vars.is_empty() {
                    out.push(t("("));
                    for (i, v) in vars.iter().enumerate() {
                        let p = format!("{path}.vars.{i}");
                        out.push(tt("$", format!("{p}.pos")));
                        out.push(t(s(&v["name"])));
                        out.push(t(":"));
                        type_tokens(&v["type"], &format!("{p}.type"), out);
                        if b(&v["hasDefault"]) {
                            out.push(t("="));
                            value_tokens(&v["default"], &format!("{p}.default"), out);
                        }
                        dirs_tokens(&v["dirs"], &format!("{p}.dirs"), out);
                    }
                    out.push(t(")"));
                }
                dirs_tokens(&d["dirs"], &format!("{path}.dirs"), out);
                sel_tokens(&d["sel"], &format!("{path}.sel"), out);
            } else {
                let start = out.len();
                sel_tokens(&d["sel"], &format!("{path}.sel"), out);
                let first = out[start].clone();
                out[start] = Tok { text: first.text, tag: format!("{}|{path}.pos", first.tag) };
            }
        }
        "frag" => {
            out.push(tt("fragment", format!("{path}.pos")));
            out.push(tt(s(&d["name"]), format!("{path}.namePos")));
            out.push(t("on"));
            out.push(tt(s(&d["on"]), format!("{path}.onPos")));
            dirs_tokens(&d["dirs"], &format!("{path}.dirs"), out);
            sel_tokens(&d["sel"], &format!("{path}.sel"), out);
        }
        other => panic!("unknown executable definition kind {other}"),
    }
}

fn desc_tokens(d: &Value, path: &str, out: &mut Vec<Tok>) {
    if b(&d["has"]) {
        out.push(tt(&string_literal(d), format!("{path}.pos")));
    }
}

fn input_values_tokens(vals: &Value, path: &str, open: &str, close: &str, out: &mut Vec<Tok>) {
    let a = arr(vals);
    if a.is_empty() {
        return;
    }
    out.push(t(open));
    for (i, v) in a.iter().enumerate() {
        let p = format!("{path}.{i}");
        desc_tokens(&v["desc"], &format!("{p}.desc"), out);
        out.push(tt(s(&v["name"]), format!("{p}.pos")));
        out.push(t(":"));
        type_tokens(&v["type"], &format!("{p}.type"), out);
        if b(&v["hasDefault"]) {
            out.push(t("="));
            value_tokens(&v["default"], &format!("{p}.default"), out);
        }
        dirs_tokens(&v["dirs"], &format!("{p}.dirs"), out);
    }
    out.push(t(close));
}

/// Tokens of one type-system definition or extension.
pub fn ts_def_tokens(d: &Value, path: &str, out: &mut Vec<Tok>) {
    let k = s(&d["k"]);
    let ext = b(&d["ext"]);
    if !ext {
        desc_tokens(&d["desc"], &format!("{path}.desc"), out);
    }
    let postag = format!("{path}.pos");
    let kw = match k {
        "schema" => "schema",
        "scalar" => "scalar",
        "object" => "type",
        "interface" => "interface",
        "union" => "union",
        "enum" => "enum",
        "input" => "input",
        "directive" => "directive",
        other => panic!("unknown type-system definition kind {other}"),
    };
    if ext {
        out.push(tt("extend", format!("{path}.extPos")));
        out.push(tt(kw, postag));
    } else {
        out.push(tt(kw, postag));
    }
    match k {
        "schema" => {
            dirs_tokens(&d["dirs"], &format!("{path}.dirs"), out);
            let ops = arr(&d["ops"]);
            if !ops.is_empty() {
                out.push(t("{"));
                for (i, o) in ops.iter().enumerate() {
                    out.push(tt(s(&o["op"]), format!("{path}.ops.{i}.pos")));
                    out.push(t(":"));
                    out.push(t(s(&o["type"])));
                }
                out.push(t("}"));
            }
        }
        "directive" => {
            out.push(t("@"));
            out.push(tt(s(&d["name"]), format!("{path}.namePos")));
            input_values_tokens(&d["args"], &format!("{path}.args"), "(", ")", out);
            if b(&d["repeatable"]) {
                out.push(t("repeatable"));
            }
            out.push(t("on"));
            for (i, l) in arr(&d["locations"]).iter().enumerate() {
                if i > 0 || b(&d["leadingPipe"]) {
                    out.push(t("|"));
                }
                out.push(tt(s(&l["n"]), format!("{path}.locations.{i}.pos")));
            }
        }
        _ => {
            out.push(tt(s(&d["name"]), format!("{path}.namePos")));
            let ifs = arr(&d["interfaces"]);
            if !ifs.is_empty() {
                out.push(t("implements"));
                for (i, x) in ifs.iter().enumerate() {
                    if i > 0 || b(&d["leadingAmp"]) {
                        out.push(t("&"));
                    }
                    out.push(tt(s(&x["n"]), format!("{path}.interfaces.{i}.pos")));
                }
            }
            dirs_tokens(&d["dirs"], &format!("{path}.dirs"), out);
            let fields = arr(&d["fields"]);
            if !fields.is_empty() {
                out.push(t("{"));
                for (i, f) in fields.iter().enumerate() {
                    let p = format!("{path}.fields.{i}");
                    desc_tokens(&f["desc"], &format!("{p}.desc"), out);
                    out.push(tt(s(&f["name"]), format!("{p}.pos")));
                    input_values_tokens(&f["args"], &format!("{p}.args"), "(", ")", out);
                    out.push(t(":"));
                    type_tokens(&f["type"], &format!("{p}.type"), out);
                    dirs_tokens(&f["dirs"], &format!("{p}.dirs"), out);
                }
                out.push(t("}"));
            }
            let members = arr(&d["members"]);
            if !members.is_empty() {
                out.push(t("="));
                for (i, m) in members.iter().enumerate() {
                    if i > 0 || b(&d["leadingPipe"]) {
                        out.push(t("|"));
                    }
                    out.push(tt(s(&m["n"]), format!("{path}.members.{i}.pos")));
                }
            }
            let values = arr(&d["values"]);
            if !values.is_empty() {
                out.push(t("{"));
                for (i, v) in values.iter().enumerate() {
                    let p = format!("{path}.values.{i}");
                    desc_tokens(&v["desc"], &format!("{p}.desc"), out);
                    out.push(tt(s(&v["name"]), format!("{p}.pos")));
                    dirs_tokens(&v["dirs"], &format!("{p}.dirs"), out);
                }
                out.push(t("}"));
            }
            input_values_tokens(&d["inputFields"], &format!("{path}.inputFields"), "{", "}", out);
        }
    }
}

pub struct Layout {
    pub text: String,
    /// (tag, line, col) for every tagged token; col counts Unicode scalar values
    pub positions: Vec<(String, usize, usize)>,
    /// (line, col, text) for every token, in order
    pub tokens: Vec<(usize, usize, String)>,
}

/// Joins tokens: `gaps[i]` precedes token i (gaps.len() == toks.len()), `tail` ends the text.
pub fn layout(toks: &[Tok], gaps: &[String], tail: &str) -> Layout {
    let mut text = String::new();
    let (mut line, mut col) = (0usize, 0usize);
    let mut positions = vec![];
    let mut tokens = vec![];
    let mut advance = |text: &mut String, piece: &str, line: &mut usize, col: &mut usize| {
        let cs: Vec<char> = piece.chars().collect();
        let mut i = 0;
        while i < cs.len() {
            let c = cs[i];
            if c == '\r' && i + 1 < cs.len() && cs[i + 1] == '\n' {
                i += 1;
                *line += 1;
                *col = 0;
            } else if c == '\n' || c == '\r' {
                *line += 1;
                *col = 0;
            } else {
                *col += 1;
            }
            i += 1;
        }
        text.push_str(piece);
    };
    for (i, tk) in toks.iter().enumerate() {
        advance(&mut text, &gaps[i], &mut line, &mut col);
        for tag in tk.tag.split('|').filter(|x| !x.is_empty()) {
            positions.push((tag.to_string(), line, col));
        }
        tokens.push((line, col, tk.text.clone()));
        advance(&mut text, &tk.text, &mut line, &mut col);
    }
    text.push_str(tail);
    Layout { text, positions, tokens }
}

/// Default layout: tokens separated by one space, each definition on its own line.
pub fn default_gaps(toks: &[Tok], def_starts: &[usize]) -> Vec<String> {
    (0..toks.len())
        .map(|i| {
            if i == 0 {
                String::new()
            } else if def_starts.contains(&i) {
                "\n".to_string()
            } else {
                " ".to_string()
            }
        })
        .collect()
}

/// Renders a TsDoc with the default layout. Returns text + positions of each definition's first token.
pub fn render_ts_doc(doc: &Value) -> (String, Vec<(usize, usize)>, Layout) {
    let mut toks = vec![];
    let mut starts = vec![];
    for (i, d) in arr(&doc["defs"]).iter().enumerate() {
        starts.push(toks.len());
        ts_def_tokens(d, &format!("defs.{i}"), &mut toks);
    }
    let gaps = default_gaps(&toks, &starts);
    let lay = layout(&toks, &gaps, "\n");
    let pos = starts.iter().map(|&s| (lay.tokens[s].0, lay.tokens[s].1)).collect();
    (lay.text.clone(), pos, lay)
}

pub fn render_op_doc(doc: &Value) -> (String, Vec<(usize, usize)>, Layout) {
    let mut toks = vec![];
    let mut starts = vec![];
    let mut header = String::new();
    for (i, d) in arr(&doc["defs"]).iter().enumerate() {
        if s(&d["k"]) == "import" {
            let names = if b(&d["wild"]) {
                "*".to_string()
            } else {
                arr(&d["names"]).iter().map(|n| s(n).to_string()).collect::<Vec<_>>().join(", ")
            };
            header.push_str(&format!("#import {names} from \"{}\"\n", s(&d["path"])));
            continue;
        }
        starts.push(toks.len());
        exec_def_tokens(d, &format!("defs.{i}"), &mut toks);
    }
    let mut gaps = default_gaps(&toks, &starts);
    if !gaps.is_empty() {
        gaps[0] = header;
    }
    let lay = layout(&toks, &gaps, "\n");
    let pos = starts.iter().map(|&s| (lay.tokens[s].0, lay.tokens[s].1)).collect();
    (lay.text.clone(), pos, lay)
}

pub fn positions_json(lay: &Layout) -> Value {
    Value::Array(lay.positions.iter().map(|(t, l, c)| json!({"tag": t, "line": l, "col": c})).collect())
}
