//! C11 driver: items -> SDL (one item per line, split into files) -> real parser per file
//! (file index set as the CLI does) -> concatenation -> resolve_schema_extensions -> projection.
use crate::project::{pos_file, project_type_system_document};
use crate::render;
use crate::util::*;
use nitrogql_ast::{TypeSystemOrExtensionDocument, set_current_file_of_pos};
use nitrogql_error::PositionedError;
use nitrogql_parser::parse_type_system_document;
use nitrogql_semantics::resolve_schema_extensions;
use serde_json::{Value, json};

fn named(n: &str) -> Value {
    json!({"k": "named", "n": n, "pos": {"line": -1, "col": -1}})
}
fn nodesc() -> Value {
    json!({"has": false, "cp": [], "block": false, "pos": {"line": -1, "col": -1}})
}
fn names(v: &Value) -> Vec<String> {
    strs(v)
}

/// Expands a simplified item (component names only) into the full TsDef shape for rendering.
pub fn expand_item(it: &Value) -> Value {
    let k = it["k"].as_str().unwrap();
    let dirs: Vec<Value> = names(&it["dirs"]).iter().map(|d| json!({"name": d, "args": []})).collect();
    if k == "directive" {
        return json!({"k": "directive", "name": it["name"], "desc": nodesc(), "args": [], "repeatable": false,
                      "locations": [{"n": "FIELD"}]});
    }
    if k == "schema" {
        let ops: Vec<Value> =
            it["ops"].as_array().unwrap().iter().map(|o| json!({"op": o[0], "type": o[1]})).collect();
        return json!({"k": "schema", "ext": it["ext"], "desc": nodesc(), "dirs": dirs, "ops": ops});
    }
    let fields: Vec<Value> = names(&it["fields"])
        .iter()
        .map(|f| json!({"name": f, "desc": nodesc(), "args": [], "type": named("Int"), "dirs": []}))
        .collect();
    let input_fields: Vec<Value> = names(&it["inputFields"])
        .iter()
        .map(|f| json!({"name": f, "desc": nodesc(), "type": named("Int"), "hasDefault": false, "dirs": []}))
        .collect();
    let values: Vec<Value> =
        names(&it["values"]).iter().map(|v| json!({"name": v, "desc": nodesc(), "dirs": []})).collect();
    let ns = |key: &str| -> Vec<Value> { names(&it[key]).iter().map(|n| json!({"n": n})).collect() };
    json!({"k": k, "ext": it["ext"], "name": it["name"], "desc": nodesc(), "dirs": dirs,
           "interfaces": ns("interfaces"), "fields": fields, "members": ns("members"),
           "values": values, "inputFields": input_fields})
}

pub fn resolve_case(c: &Value) -> Value {
    let items = c["items"].as_array().unwrap();
    // render: one item per line, per file
    let nfiles = items.iter().map(|i| i["file"].as_u64().unwrap()).max().unwrap_or(1) as usize;
    let mut texts = vec![String::new(); nfiles];
    let mut where_: Vec<(usize, usize)> = vec![]; // (file index 0-based, line) of each item
    let mut lines = vec![0usize; nfiles];
    for it in items {
        let f = it["file"].as_u64().unwrap() as usize - 1;
        let mut toks = vec![];
        render::ts_def_tokens(&expand_item(it), "d", &mut toks);
        let line: Vec<String> = toks.into_iter().map(|t| t.text).collect();
        // a little leading indentation that differs per item, so columns differ
        let indent = " ".repeat(it["id"].as_u64().unwrap() as usize % 3);
        texts[f].push_str(&indent);
        texts[f].push_str(&line.join(" "));
        texts[f].push('\n');
        where_.push((f, lines[f]));
        lines[f] += 1;
    }
    let mut docs = vec![];
    for (i, t) in texts.iter().enumerate() {
        if t.is_empty() {
            continue;
        }
        let text: &'static str = Box::leak(t.clone().into_boxed_str());
        set_current_file_of_pos(i);
        match parse_type_system_document(text) {
            Ok(d) => docs.push(d),
            Err(e) => return json!({"k": "discard", "why": format!("parse: {}", e.into_message()), "text": t}),
        }
    }
    set_current_file_of_pos(0);
    let merged = TypeSystemOrExtensionDocument::merge(docs);
    let id_at = |file: usize, line: i64| -> u64 {
        items
            .iter()
            .zip(where_.iter())
            .find(|(_, (f, l))| *f == file && *l as i64 == line)
            .map(|(it, _)| it["id"].as_u64().unwrap())
            .unwrap_or(0)
    };
    match resolve_schema_extensions(merged) {
        Ok(doc) => {
            let mut p = project_type_system_document(&doc);
            // attach to each definition the id of the item whose line its position is on
            let files: Vec<usize> = doc
                .definitions
                .iter()
                .map(|d| {
                    use nitrogql_ast::base::HasPos;
                    pos_file(d.position())
                })
                .collect();
            for (d, f) in p["defs"].as_array_mut().unwrap().iter_mut().zip(files) {
                let line = d["pos"]["line"].as_i64().unwrap();
                d["id"] = json!(id_at(f, line));
            }
            json!({"k": "ok", "defs": p["defs"]})
        }
        Err(e) => {
            let pe: PositionedError = e.into();
            let at = pe.position().map(|p| if p.builtin { 0 } else { id_at(p.file, p.line as i64) }).unwrap_or(0);
            json!({"k": "err", "at": at, "msg": format!("{}", pe.into_inner())})
        }
    }
}

/// extmerge <cases.ndjson> <events.ndjson>
pub fn run(args: &[String]) -> i32 {
    let cases = read_ndjson(&args[0]);
    let mut out = Out::create(&args[1]);
    for c in &cases {
        if c["items"].as_array().map(|a| a.is_empty()).unwrap_or(true) {
            continue;
        }
        let o = match guarded(|| resolve_case(c)) {
            Ok(v) => v,
            Err(m) => json!({"k": "panic", "msg": m}),
        };
        out.emit(&json!({"ev": "ResolveSchema", "items": c["items"], "out": o}));
    }
    0
}
