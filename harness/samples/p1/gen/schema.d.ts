export type __nitrogql_schema = {
  query: Query;
  mutation: Mutation;
};

type __Beautify<Obj> = { [K in keyof Obj]: Obj[K] } & {};
export type __SelectionSet<Orig, Obj, Others> =
  __Beautify<Pick<{
    [K in keyof Orig]: Obj extends { [P in K]?: infer V } ? V : unknown
  }, Extract<keyof Orig, keyof Obj>> & Others>;

export declare namespace __OperationInput {






  export type Int = number;

  export type Float = number;

  export type String = string;

  export type Boolean = boolean;

  export type ID = string | number;

  export type Date = string;







  export type Role = "ADMIN" | "USER";

  export type UserFilter = {
    readonly role?: Role | null | undefined;
    readonly nameLike?: String | null | undefined;
    readonly ids?: readonly (ID)[] | null | undefined;
    readonly nested?: UserFilter | null | undefined;
  };

}

export declare namespace __OperationOutput {






  export type Int = number;

  export type Float = number;

  export type String = string;

  export type Boolean = boolean;

  export type ID = string;

  export type Date = string;

  /**
   * Root
   */
  export type Query = {
    __typename: "Query";
    /**
     * me
     */
    me: User;
    users: (User)[] | null;
    node: Node | null;
    search: (SearchResult | null)[] | null;
  };

  export type User = {
    __typename: "User";
    id: ID;
    name: String | null;
    age: Int | null;
    role: Role;
    posts: (Post)[];
    created: Date | null;
  };

  export type Post = {
    __typename: "Post";
    id: ID;
    title: String;
    author: User;
  };

  export type Mutation = {
    __typename: "Mutation";
    rename: User | null;
  };

  export type Node = User | Post;

  export type SearchResult = User | Post;

  export type Role = "ADMIN" | "USER";


}

export declare namespace __ResolverInput {






  export type Int = number;

  export type Float = number;

  export type String = string;

  export type Boolean = boolean;

  export type ID = string;

  export type Date = string;







  export type Role = "ADMIN" | "USER";

  export type UserFilter = {
    readonly role?: Role | null | undefined;
    readonly nameLike?: String | null | undefined;
    readonly ids?: readonly (ID)[] | null | undefined;
    readonly nested?: UserFilter | null | undefined;
  };

}

export declare namespace __ResolverOutput {






  export type Int = number;

  export type Float = number;

  export type String = string;

  export type Boolean = boolean;

  export type ID = string | number;

  export type Date = string;

  /**
   * Root
   */
  export type Query = {
    __typename: "Query";
    /**
     * me
     */
    me: User;
    users: (User)[] | null;
    node: Node | null;
    search: (SearchResult | null)[] | null;
  };

  export type User = {
    __typename: "User";
    id: ID;
    name: String | null;
    age: Int | null;
    role: Role;
    posts: (Post)[];
    created: Date | null;
  };

  export type Post = {
    __typename: "Post";
    id: ID;
    title: String;
    author: User;
  };

  export type Mutation = {
    __typename: "Mutation";
    rename: User | null;
  };

  export type Node = User | Post;

  export type SearchResult = User | Post;

  export type Role = "ADMIN" | "USER";


}







export type Int = __OperationOutput.Int;

export type Float = __OperationOutput.Float;

export type String = __OperationOutput.String;

export type Boolean = __OperationOutput.Boolean;

export type ID = __OperationOutput.ID;

export type Date = __OperationOutput.Date;

export type Query = __OperationOutput.Query;

export type User = __OperationOutput.User;

export type Post = __OperationOutput.Post;

export type Mutation = __OperationOutput.Mutation;

export type Node = __OperationOutput.Node;

export type SearchResult = __OperationOutput.SearchResult;

export type Role = __OperationOutput.Role;

export type UserFilter = __ResolverInput.UserFilter;


//# sourceMappingURL=schema.d.ts.map
