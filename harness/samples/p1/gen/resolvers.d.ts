import type { GraphQLResolveInfo } from "graphql";
import type * as Schema from "./schema.js";
type __Resolver<Parent, Args, Context, Result> = (parent: Parent, args: Args, context: Context, info: GraphQLResolveInfo) => Result | Promise<Result>;
type __TypeResolver<Obj, Context, Result> = (object: Obj, context: Context, info: GraphQLResolveInfo) => Result | Promise<Result>;
type Int = Schema.__ResolverOutput.Int;
type Float = Schema.__ResolverOutput.Float;
type String = Schema.__ResolverOutput.String;
type Boolean = Schema.__ResolverOutput.Boolean;
type ID = Schema.__ResolverOutput.ID;
type Date = Schema.__ResolverOutput.Date;
type Query = Omit<Schema.__ResolverOutput.Query, "__typename">;
type User = Omit<Schema.__ResolverOutput.User, "__typename">;
type Post = Omit<Schema.__ResolverOutput.Post, "__typename">;
type Mutation = Omit<Schema.__ResolverOutput.Mutation, "__typename">;
type Node = User | Post;
type SearchResult = User | Post;
type Role = Schema.__ResolverOutput.Role;
export type Resolvers<Context> = {
  Query: {
    me: __Resolver<Query, {}, Context, User>;
    users: __Resolver<Query, {
      readonly first: Schema.__ResolverInput.Int | null;
      readonly filter: Schema.__ResolverInput.UserFilter | null;
    }, Context, (User)[] | null>;
    node: __Resolver<Query, {
      readonly id: Schema.__ResolverInput.ID;
    }, Context, Node | null>;
    search: __Resolver<Query, {}, Context, (SearchResult | null)[] | null>;
  };
  User: {
    id: __Resolver<User, {}, Context, ID>;
    name: __Resolver<User, {}, Context, String | null>;
    age: __Resolver<User, {}, Context, Int | null>;
    role: __Resolver<User, {}, Context, Role>;
    posts: __Resolver<User, {}, Context, (Post)[]>;
    created: __Resolver<User, {}, Context, Date | null>;
  };
  Post: {
    id: __Resolver<Post, {}, Context, ID>;
    title: __Resolver<Post, {}, Context, String>;
    author: __Resolver<Post, {}, Context, User>;
  };
  Mutation: {
    rename: __Resolver<Mutation, {
      readonly id: Schema.__ResolverInput.ID;
      readonly name: Schema.__ResolverInput.String;
    }, Context, User | null>;
  };
  Node: {
    __resolveType: __TypeResolver<User | Post, Context, "User" | "Post">;
  };
  SearchResult: {
    __resolveType: __TypeResolver<User | Post, Context, "User" | "Post">;
  };
};
export type ResolverOutput<T extends "Int" | "Float" | "String" | "Boolean" | "ID" | "Date" | "Query" | "User" | "Post" | "Mutation" | "Node" | "SearchResult" | "Role"> = 
{
  Int: Int;
  Float: Float;
  String: String;
  Boolean: Boolean;
  ID: ID;
  Date: Date;
  Query: Query;
  User: User;
  Post: Post;
  Mutation: Mutation;
  Node: Node;
  SearchResult: SearchResult;
  Role: Role;
}[T];

//# sourceMappingURL=resolvers.d.ts.map
