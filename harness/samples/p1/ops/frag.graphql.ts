import type { TypedDocumentNode } from "@graphql-typed-document-node/core";
import type * as Schema from "../gen/schema.js";

export type UserBits = Schema.__SelectionSet<Schema.__OperationOutput.User, {
  name: Schema.__OperationOutput.String | null;
  role: Schema.__OperationOutput.Role;
  posts: (Schema.__SelectionSet<Schema.__OperationOutput.Post, {
    title: Schema.__OperationOutput.String;
  }, {}>)[];
}, {}>;

export const UserBits: TypedDocumentNode<UserBits, never> = {"kind":"Document","definitions":[{"kind":"FragmentDefinition","name":{"kind":"Name","value":"UserBits"},"typeCondition":{"kind":"NamedType","name":{"kind":"Name","value":"User"}},"directives":[],"selectionSet":{"kind":"SelectionSet","selections":[{"kind":"Field","name":{"kind":"Name","value":"name"},"arguments":[],"directives":[]},{"kind":"Field","name":{"kind":"Name","value":"role"},"arguments":[],"directives":[]},{"kind":"Field","name":{"kind":"Name","value":"posts"},"arguments":[],"directives":[],"selectionSet":{"kind":"SelectionSet","selections":[{"kind":"Field","name":{"kind":"Name","value":"title"},"arguments":[],"directives":[]}]}}]}}]} as unknown as TypedDocumentNode<UserBits, never>;


//# sourceMappingURL=frag.graphql.ts.map
