import type { TypedDocumentNode } from "@graphql-typed-document-node/core";
import type * as Schema from "../gen/schema.js";

type GetMeResult = Schema.__SelectionSet<Schema.__OperationOutput.Query, {
  me: Schema.__SelectionSet<Schema.__OperationOutput.User, {
    id: Schema.__OperationOutput.ID;
    age?: never;
    name: Schema.__OperationOutput.String | null;
    role: Schema.__OperationOutput.Role;
    posts: (Schema.__SelectionSet<Schema.__OperationOutput.Post, {
      title: Schema.__OperationOutput.String;
    }, {}>)[];
  }, {}> | Schema.__SelectionSet<Schema.__OperationOutput.User, {
    id: Schema.__OperationOutput.ID;
    age: Schema.__OperationOutput.Int | null;
    name: Schema.__OperationOutput.String | null;
    role: Schema.__OperationOutput.Role;
    posts: (Schema.__SelectionSet<Schema.__OperationOutput.Post, {
      title: Schema.__OperationOutput.String;
    }, {}>)[];
  }, {}>;
  users: (Schema.__SelectionSet<Schema.__OperationOutput.User, {
    __typename: "User";
    name: Schema.__OperationOutput.String | null;
  }, {}>)[] | null;
  search: (Schema.__SelectionSet<Schema.__OperationOutput.User, {
    __typename: "User";
    name: Schema.__OperationOutput.String | null;
  }, {}> | Schema.__SelectionSet<Schema.__OperationOutput.Post, {
    __typename: "Post";
    title: Schema.__OperationOutput.String;
  }, {}> | null)[] | null;
}, {}>;

type GetMeVariables = {
  readonly withAge: Schema.__OperationInput.Boolean;
  readonly f?: Schema.__OperationInput.UserFilter | null | undefined;
  readonly n?: Schema.__OperationInput.Int | null | undefined;
};

const GetMeQuery: TypedDocumentNode<GetMeResult, GetMeVariables> = {"kind":"Document","definitions":[{"kind":"OperationDefinition","operation":"query","name":{"kind":"Name","value":"GetMe"},"variableDefinitions":[{"kind":"VariableDefinition","variable":{"kind":"Variable","name":{"kind":"Name","value":"withAge"}},"type":{"kind":"NonNullType","type":{"kind":"NamedType","name":{"kind":"Name","value":"Boolean"}}},"directives":[]},{"kind":"VariableDefinition","variable":{"kind":"Variable","name":{"kind":"Name","value":"f"}},"type":{"kind":"NamedType","name":{"kind":"Name","value":"UserFilter"}},"directives":[]},{"kind":"VariableDefinition","variable":{"kind":"Variable","name":{"kind":"Name","value":"n"}},"type":{"kind":"NamedType","name":{"kind":"Name","value":"Int"}},"defaultValue":{"kind":"IntValue","value":"3"},"directives":[]}],"directives":[],"selectionSet":{"kind":"SelectionSet","selections":[{"kind":"Field","name":{"kind":"Name","value":"me"},"arguments":[],"directives":[],"selectionSet":{"kind":"SelectionSet","selections":[{"kind":"Field","name":{"kind":"Name","value":"id"},"arguments":[],"directives":[]},{"kind":"FragmentSpread","name":{"kind":"Name","value":"UserBits"},"directives":[]},{"kind":"Field","name":{"kind":"Name","value":"age"},"arguments":[],"directives":[{"kind":"Directive","name":{"kind":"Name","value":"include"},"arguments":[{"kind":"Argument","name":{"kind":"Name","value":"if"},"value":{"kind":"Variable","name":{"kind":"Name","value":"withAge"}}}]}]}]}},{"kind":"Field","name":{"kind":"Name","value":"users"},"arguments":[{"kind":"Argument","name":{"kind":"Name","value":"first"},"value":{"kind":"Variable","name":{"kind":"Name","value":"n"}}},{"kind":"Argument","name":{"kind":"Name","value":"filter"},"value":{"kind":"Variable","name":{"kind":"Name","value":"f"}}}],"directives":[],"selectionSet":{"kind":"SelectionSet","selections":[{"kind":"Field","name":{"kind":"Name","value":"__typename"},"arguments":[],"directives":[]},{"kind":"Field","name":{"kind":"Name","value":"name"},"arguments":[],"directives":[]}]}},{"kind":"Field","name":{"kind":"Name","value":"search"},"arguments":[],"directives":[],"selectionSet":{"kind":"SelectionSet","selections":[{"kind":"Field","name":{"kind":"Name","value":"__typename"},"arguments":[],"directives":[]},{"kind":"InlineFragment","typeCondition":{"kind":"NamedType","name":{"kind":"Name","value":"User"}},"directives":[],"selectionSet":{"kind":"SelectionSet","selections":[{"kind":"Field","name":{"kind":"Name","value":"name"},"arguments":[],"directives":[]}]}},{"kind":"InlineFragment","typeCondition":{"kind":"NamedType","name":{"kind":"Name","value":"Post"}},"directives":[],"selectionSet":{"kind":"SelectionSet","selections":[{"kind":"Field","name":{"kind":"Name","value":"title"},"arguments":[],"directives":[]}]}}]}}]}},{"kind":"FragmentDefinition","name":{"kind":"Name","value":"UserBits"},"typeCondition":{"kind":"NamedType","name":{"kind":"Name","value":"User"}},"directives":[],"selectionSet":{"kind":"SelectionSet","selections":[{"kind":"Field","name":{"kind":"Name","value":"name"},"arguments":[],"directives":[]},{"kind":"Field","name":{"kind":"Name","value":"role"},"arguments":[],"directives":[]},{"kind":"Field","name":{"kind":"Name","value":"posts"},"arguments":[],"directives":[],"selectionSet":{"kind":"SelectionSet","selections":[{"kind":"Field","name":{"kind":"Name","value":"title"},"arguments":[],"directives":[]}]}}]}}]} as unknown as TypedDocumentNode<GetMeResult, GetMeVariables>;

export { GetMeQuery as default };

type UserBits = Schema.__SelectionSet<Schema.__OperationOutput.User, {
  name: Schema.__OperationOutput.String | null;
  role: Schema.__OperationOutput.Role;
  posts: (Schema.__SelectionSet<Schema.__OperationOutput.Post, {
    title: Schema.__OperationOutput.String;
  }, {}>)[];
}, {}>;

const UserBits: TypedDocumentNode<UserBits, never> = {"kind":"Document","definitions":[{"kind":"FragmentDefinition","name":{"kind":"Name","value":"UserBits"},"typeCondition":{"kind":"NamedType","name":{"kind":"Name","value":"User"}},"directives":[],"selectionSet":{"kind":"SelectionSet","selections":[{"kind":"Field","name":{"kind":"Name","value":"name"},"arguments":[],"directives":[]},{"kind":"Field","name":{"kind":"Name","value":"role"},"arguments":[],"directives":[]},{"kind":"Field","name":{"kind":"Name","value":"posts"},"arguments":[],"directives":[],"selectionSet":{"kind":"SelectionSet","selections":[{"kind":"Field","name":{"kind":"Name","value":"title"},"arguments":[],"directives":[]}]}}]}}]} as unknown as TypedDocumentNode<UserBits, never>;


//# sourceMappingURL=q.graphql.ts.map
