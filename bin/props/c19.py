"""C19 — loader tasks are isolated and safe under any call sequence (Loader.tla)."""
import json, vlib

PATHS = [["p", "m.graphql"], ["p", "a.graphql"], ["p", "b.graphql"], ["p", "c.graphql"], ["p", "s", "..", "a.graphql"],
         ["p", "s", "d.graphql"]]
SPECS = {"m.graphql": [".", "m.graphql"], "a.graphql": [".", "a.graphql"], "b.graphql": [".", "b.graphql"],
         "c.graphql": [".", "c.graphql"], "d.graphql": [".", "s", "d.graphql"]}
FRAGS = ["A", "B", "C", "D"]


def rand_desc(rng, acyclic_rank=None):
    """Random file descriptor. The import graph is kept a forest of chains (each file imports from at most one
    other file) so that this tier exercises the loader, not the import-graph defects that belong to C13."""
    if rng.chance(1, 8):
        return {"ok": False, "imports": [], "frags": [], "ops": []}
    nfr = rng.below(3)
    frags = []
    names = list(FRAGS)
    for _ in range(nfr):
        n = names.pop(rng.below(len(names)))
        frags.append({"name": n, "spreads": []})
    ops = [{"name": "Q%d" % rng.below(3), "spreads": []}] if (rng.chance(1, 2) or not frags) else []
    imports = []
    if rng.chance(3, 5):
        tgt = rng.choice(sorted(SPECS))
        spec = list(SPECS[tgt])
        if rng.chance(1, 5):
            spec = [".", "s", ".."] + spec[1:]
        if rng.chance(1, 3):
            imports.append({"spec": spec, "wild": True, "names": []})
        else:
            k = 1 + rng.below(2)
            nm = []
            pool = list(FRAGS)
            for _ in range(k):
                nm.append(pool.pop(rng.below(len(pool))))
            imports.append({"spec": spec, "wild": False, "names": nm})
    return {"ok": True, "imports": imports, "frags": frags, "ops": ops}


def rand_history(rng, n):
    h = []
    issued = 0
    for _ in range(n):
        r = rng.below(100)
        ids = list(range(1, issued + 2)) + [0, 99]
        t = rng.choice(ids)
        if r < 15 or issued == 0:
            c = {"call": "initiate", "p": rng.choice(PATHS), "d": rand_desc(rng)}
            if c["d"]["ok"]:
                issued += 1
        elif r < 50:
            c = {"call": "load", "t": t, "p": rng.choice(PATHS), "d": rand_desc(rng)}
        elif r < 70:
            c = {"call": "required", "t": t}
        elif r < 88:
            c = {"call": "emit", "t": t}
        elif r < 96:
            c = {"call": "free", "t": t}
        else:
            c = {"call": "read"} if any(x["c"]["call"] in ("required", "emit") for x in h) else {"call": "required", "t": t}
        h.append({"c": c})
    return h


def events_for(ctx, res, cases):
    vlib.write_ndjson(ctx.path("cases.ndjson"), cases)
    vlib.run_harness(["loader", ctx.path("cases.ndjson"), ctx.path("events.ndjson")], timeout=3000)
    return vlib.read_ndjson(ctx.path("events.ndjson"))


def group_histories(events):
    """tag each event with the index of its history so that shards never split one"""
    k = -1
    keys = []
    for e in events:
        if e["ev"] == "Reset":
            k += 1
        keys.append(k)
    return keys


def validate(ctx, res, events):
    keys = group_histories(events)
    idx = {id(e): k for e, k in zip(events, keys)}
    # contiguous blocks of whole histories per shard
    n = vlib.NSHARDS
    nh = (keys[-1] + 1) if keys else 0
    per = max(1, (nh + n - 1) // n)
    o = vlib.validate_trace("Trace_C19", "Trace_C19.cfg", events, workdir=ctx.work,
                            group_key=lambda e: idx[id(e)] // per, timeout=1500)
    return o


def run(ctx, res):
    vlib.build_harness()
    mc = vlib.tlc("Gen_C19", "MC_Loader.cfg" if ctx.quick else "MC_Loader_thorough.cfg", workdir=ctx.work, workers=8,
                  timeout=1500, xmx="6g")
    res.add_tlc(mc)
    # unbounded histories: the ownership / identity core (LoaderInv.tla) has an inductive invariant, discharged by Apalache
    ok0, out0 = vlib.apalache("LoaderInv", ["--cinit=CInit", "--init=Init", "--inv=IndInv", "--length=0"], workdir=ctx.work)
    ok1, out1 = vlib.apalache("LoaderInv", ["--cinit=CInit", "--init=IndInit", "--inv=IndInv", "--length=1"], workdir=ctx.work)
    if not (ok0 and ok1):
        raise vlib.ToolError("LoaderInv!IndInv is not inductive: %s" % (out1 if ok0 else out0)[-800:])
    res.extra["inductive_invariant"] = {"module": "LoaderInv", "invariant": "IndInv (IdsNeverReused, OwnedOnce, NoUseAfterFree, DeadTasksOwnNothing)",
                                        "initiation": "NoError", "consecution": "NoError", "tool": "apalache-mc 0.58",
                                        "bounds": "ids 1..4, buffers 1..6, 3 paths; any history length"}
    g = vlib.tlc("Gen_C19", "Gen_C19_quick.cfg" if ctx.quick else "Gen_C19_thorough.cfg", workdir=ctx.work, workers=8,
                 timeout=1500, xmx="6g")
    res.add_tlc(g)
    cases = g.tagged("CASE")
    ngen = len(cases)
    nrand, rlen = (300, 40) if ctx.quick else (4000, 120)
    for _ in range(nrand):
        cases.append(rand_history(ctx.rng, rlen))
    events = events_for(ctx, res, cases)
    o = validate(ctx, res, events)
    res.add_trace(o)
    # byte-level observation (monitoring, outside the specification): the same ABI driver under valgrind memcheck on a sample of histories
    if not ctx.quick:
        import subprocess
        sample = cases[:150] + cases[ngen:ngen + 60]
        vlib.write_ndjson(ctx.path("vg_cases.ndjson"), sample)
        p = subprocess.run(["valgrind", "--quiet", "--error-exitcode=97", "--errors-for-leak-kinds=none", "--leak-check=no",
                            vlib.HARNESS_BIN, "loader-child", ctx.path("vg_cases.ndjson"), ctx.path("vg_events.ndjson"), "0"],
                           stdout=subprocess.PIPE, stderr=subprocess.STDOUT, text=True, timeout=3000)
        res.extra["memcheck"] = {"histories": len(sample), "exit": p.returncode, "report": p.stdout[-1500:] if p.returncode else ""}
        if p.returncode == 97:
            res.items.append({"cls": "memcheck", "what": "valgrind memcheck reports an invalid read / write / free while replaying call histories through the ABI",
                              "report": p.stdout[-3000:]})
        elif p.returncode != 0:
            raise vlib.ToolError("loader driver failed under valgrind: rc=%s %s" % (p.returncode, p.stdout[-500:]))
    res.traces = ngen + nrand
    res.evaluations = o.events
    res.distinct_nontrivial = ngen + nrand
    res.exhaustive = True
    res.rule = ("Spec->impl: one call history per transition of Loader.tla's state graph (history length <= %d, <= 2 live "
                "tasks, ids {1,2,7}, files m->a->b plus a re-spelled path and a non-parsing source), replayed through the "
                "real extern \"C\" functions on a fresh thread each; impl->spec: every call's return value, RESULT, "
                "fresh-task equality of emitted JS and leaked/released buffer triples validated by Trace_C19. Plus %d "
                "seeded random histories of %d calls with random file contents. Non-trivial: every history has >= 1 call."
                % (4 if ctx.quick else 5, nrand, rlen))
    res.samples = [cases[0], cases[min(len(cases) - 1, 5000)], cases[-1][:6]]
    res.extra["tlc_generated_histories"] = ngen
    res.extra["random_histories"] = nrand
    res.extra["calls_validated"] = o.events
    res.extra["trace_action_coverage"] = o.coverage
    res.extra["mc_loader_distinct_states"] = mc.distinct
    res.assumptions = ["memory safety is judged at the level of the ownership protocol (hook events); byte-level accesses "
                       "are outside TLC's reach (see DESIGN.md section 6); the thorough tier additionally replays a sample of histories under valgrind memcheck",
                       "RESULT is read only after calls that set it, as the TypeScript wrapper does"]


def selftest(ctx):
    vlib.build_harness()
    g = vlib.tlc("Gen_C19", "Gen_C19_quick.cfg", workdir=ctx.work, workers=8, timeout=600)
    cases = [c for c in g.tagged("CASE") if len(c) == 4][:200]
    events = events_for(ctx, vlib.Result("C19", "quick", 1), cases)
    # corrupt one field per event kind
    done, bad_events, expect = set(), [], 0
    cur = []
    hist_events = []
    for e in events:
        if e["ev"] == "Reset":
            if cur:
                hist_events.append(cur)
            cur = [e]
        else:
            cur.append(e)
    hist_events.append(cur)
    for h in hist_events:
        for i, e in enumerate(h):
            kind = e["ev"]
            if kind in done or kind == "Reset":
                continue
            b = json.loads(json.dumps(e))
            if kind == "Initiate":
                b["ret"] = b["ret"] + 1
            elif kind in ("Required", "Load", "Emit"):
                b["ret"] = not b["ret"]
            elif kind == "Free":
                if not b["own"]:
                    continue
                b["own"] = b["own"] + [b["own"][-1]]      # the same buffer released twice
            elif kind == "Read":
                continue
            done.add(kind)
            bad_events.extend(h[:i] + [b] + h[i + 1:])
            expect += 1
            break
    o = vlib.validate_trace("Trace_C19", "Trace_C19.cfg", bad_events, workdir=ctx.work, nshards=1)
    ok = len(o.items) >= expect and expect == 5
    print("SELFTEST C19: %d corrupted histories, %d items -> %s" % (expect, len(o.items), "ok" if ok else "FAILED"))
    ctx.cleanup()
    return 0 if ok else 2
