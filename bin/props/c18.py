"""C18 — CLI status, diagnostics and written files are consistent and well-located (Nitrogql.tla)."""
import json, re, vlib

FORMATS = ["json", "rdjson", "human"]


# a block string whose middle line starts with multi-byte Unicode white space (ideographic space, no-break space, em space) while its
# neighbours are indented with ASCII: the lines around a diagnostic are what the renderers print as context
UNI_WS = ["\u3000\u5168\u89d2\u306e\u8aac\u660e", "\u00a0note", "\u2003\u2003wide"]


def schema_text(i, faults, uni=False):
    base = ["type Query { a: Int, b(x: Int, s: String): String, e%d: Extra%d, c(since: Date): Int }" % (0, 0), "type Extra0 { x: Int }", "scalar Date"] if i == 0 else \
           ["type Extra%d { x: Int }" % i, "extend type Query { e%d: Extra%d }" % (i, i)]
    lines = ["# schema file %d" % i] + base
    if "check" in faults:
        if uni:
            lines += ['  """', UNI_WS[i % 3], '  """']
        lines.append("  type Bad%d { x: Missing%d }" % (i, i))
    if "ext" in faults:
        # a fault of the extension-resolution stage: an orphan extension, or (every second run) a built-in scalar declared again
        lines.append("scalar ID" if uni else "extend type Nope%d { a: Int }" % i)
    if "parse" in faults:
        lines.append("   type {")
    return "\n".join(lines) + "\n"


def op_text(j, faults, lib_from=None, libv_from=None, uni=False):
    lines = []
    if lib_from is not None:
        lines.append("#import Lib%d from \"./o%d.graphql\"" % (lib_from, lib_from))
    if libv_from is not None:
        lines.append("#import LibV%d from \"./o%d.graphql\"" % (libv_from, libv_from))
    if "import" in faults:
        lines.append("#import Gone from \"./missing%d.graphql\"" % j)
    # every second file passes a LITERAL for a custom scalar (the checker cannot judge it and says so in its log: not on stdout)
    lines += ["query Q%d {" % j, "  a", "  b(x: %d)" % j] + (['  c(since: "2024-01-0%d")' % (j % 9 + 1)] if j % 2 == 0 else []) + ["}"]
    if lib_from is not None:
        lines.append("query UseLib%d { ...Lib%d }" % (lib_from, lib_from))
    if libv_from is not None:
        lines.append("query UseLibV%d { ...LibV%d }" % (libv_from, libv_from))
    if "libcheck" in faults:
        lines.append("  fragment Lib%d on Query { a nopeLib }" % j)       # same message and position in every such file
    if "libvar" in faults:
        lines.append("  fragment LibV%d on Query { a b(x: $undefinedHere%d) }" % (j, j))
    if "check" in faults:
        if uni:
            lines += ['  query Pre%d { b(s: """' % j, UNI_WS[j % 3], '  """) }']
        lines.append("  query Bad%d { a nope }" % j)                      # same message and position in every such file
    if "parse" in faults:
        lines.append(" query {")
    return "\n".join(lines) + "\n"


CONFIG = """schema: ./schema/*.graphql
documents: ./ops/*.graphql
extensions:
  nitrogql:
    generate:
      schemaOutput: ./gen/schema.d.ts
      type:
        scalarTypes:
          Date: string
"""


def materialise(p, fmt, pid):
    cfg = CONFIG
    if "noschema" in p.get("gen", []):
        cfg = cfg.replace("      schemaOutput: ./gen/schema.d.ts\n", "")
    if "runtime" in p.get("gen", []):
        cfg = cfg.replace("./gen/schema.d.ts", "./gen/schema.ts") + "      emitSchemaRuntime: true\n"
    if "runtimeDts" in p.get("gen", []):
        cfg += "      emitSchemaRuntime: true\n"
    if "resolvers" in p.get("gen", []):
        cfg += "      resolversOutput: ./gen/resolvers.d.ts\n"
    if "server" in p.get("gen", []):
        cfg += "      serverGraphqlOutput: ./gen/server.ts\n"
    files = [{"rel": "graphql.config.yaml", "text": cfg}]
    meta = []
    uni = pid % 2 == 1          # every second run: Unicode white space at the start of a line next to the faults
    for i, f in enumerate(p["schema"]):
        t = schema_text(i, f, uni)
        files.append({"rel": "schema/s%d.graphql" % i, "text": t})
        meta.append({"id": ["schema", i + 1], "rel": "schema/s%d.graphql" % i, "cp": [ord(c) for c in t]})
    n = len(p["ops"])
    for j, f in enumerate(p["ops"]):
        # the fragment of a "libcheck" file is imported and spread by the NEXT operation file (cyclically)
        prev = (j - 1) % n
        lib_from = prev if ("libcheck" in p["ops"][prev] and (n > 1 or True)) else None
        libv_from = prev if "libvar" in p["ops"][prev] else None
        t = op_text(j, f, lib_from, libv_from, uni)
        files.append({"rel": "ops/o%d.graphql" % j, "text": t})
        meta.append({"id": ["operation", j + 1], "rel": "ops/o%d.graphql" % j, "cp": [ord(c) for c in t]})
    args = (["--output-format", fmt] if fmt != "human" else []) + list(p["commands"])
    case = {"id": pid, "files": files, "args": args, "texts": False}
    if "generate" in p["commands"] and pid % 4 in (0, 1):
        # run a second time in the same directory after the source maps (or the generated code) of the first run were deleted
        case["rerunAfterDelete"] = [".map"] if pid % 4 == 0 else [".ts"]
    return case, meta


# a primary location starts its line; indented ones are "additional info" (e.g. where a type is defined)
LOC = re.compile(r"^(?:\x1b\[[0-9;]*m)*([^\s:]+\.graphql):(\d+):(\d+)", re.M)


def observe(ev, meta, fmt):
    """structural extraction of what the run printed and wrote (no judgement)"""
    by_rel = {m["rel"]: m["id"] for m in meta}
    proj = ev["dir"].rstrip("/") + "/"

    def file_id(path):
        path = path.replace("\\/", "/")
        if proj in path:
            path = path.split(proj, 1)[1]
        path = re.sub(r"^(\./)+", "", path)
        return by_rel.get(path, ["unknown", path])

    diags, listed, one_json = [], [], False
    if fmt in ("json", "rdjson"):
        try:
            doc = json.loads(ev["stdout"])
            one_json = isinstance(doc, dict)
        except Exception:
            doc = None
        if one_json and fmt == "json":
            for d in (doc.get("check") or {}).get("errors", []):
                f = d.get("file")
                diags.append({"src": "check", "fileType": d.get("fileType", ""), "hasFile": bool(f),
                              "file": file_id(f["path"]) if f else ["none", 0], "line": f["line"] if f else -1, "col": f["column"] if f else -1})
            msg = (doc.get("error") or {}).get("message", "") or ""
            for m in LOC.finditer(msg):
                diags.append({"src": "message", "fileType": "", "hasFile": True, "file": file_id(m.group(1)),
                              "line": int(m.group(2)) - 1, "col": int(m.group(3)) - 1})
            for f in (doc.get("generate") or {}).get("files", []):
                listed.append(file_id_out(f["path"], proj))
        if one_json and fmt == "rdjson":
            for d in doc.get("diagnostics", []):
                loc = d.get("location") or {}
                if "path" in loc:
                    st = loc.get("range", {}).get("start", {})
                    diags.append({"src": "check", "fileType": "", "hasFile": True, "file": file_id(loc["path"]),
                                  "line": st.get("line", 0) - 1, "col": st.get("column", 0) - 1})
    else:
        txt = re.sub(r"\x1b\[[0-9;]*m", "", ev["stderr"])
        for m in LOC.finditer(txt):
            diags.append({"src": "human", "fileType": "", "hasFile": True, "file": file_id(m.group(1)),
                          "line": int(m.group(2)) - 1, "col": int(m.group(3)) - 1})
    written = [file_id_out(proj + w, proj) for w in ev["written"]]
    other = [w for w in ev["deleted"]]
    second = {"ran": False, "exit": 0, "panicked": False, "listed": [], "exists": [], "changed": []}
    if ev.get("second"):
        s2 = ev["second"]
        l2 = []
        try:
            d2 = json.loads(s2["stdout"])
            l2 = [file_id_out(f["path"], proj) for f in (d2.get("generate") or {}).get("files", [])] if isinstance(d2, dict) else []
        except Exception:
            pass
        outs = lambda xs: [i for i in (file_id_out(proj + w, proj) for w in xs) if i[0] != "other"]
        second = {"ran": True, "exit": s2["exit"], "panicked": bool(s2["panicked"] or s2["signal"]), "listed": l2,
                  "exists": outs(s2["existsAfter"]), "changed": outs(s2["written"])}
    return {"exit": ev["exit"], "panicked": ev["panicked"] or ev["signal"], "oneJson": one_json, "diags": diags,
            "written": written, "listed": listed, "otherChanges": other, "second": second}


def map_stages(ev, meta):
    """stage events of the CLI hook with file indices / paths replaced by model identities (plumbing: the order of `meta` is load order)"""
    nschema = sum(1 for m in meta if m["id"][0] == "schema")
    proj = ev["dir"].rstrip("/") + "/"
    out = []
    for s in ev.get("stages", []):
        k = s["stage"]
        if k in ("parseSchemaStart", "parseSchemaOk"):
            out.append({"stage": k, "i": s["file"] + 1, "j": 0, "name": "", "out": ["none"], "code": -1})
        elif k in ("parseOpStart", "parseOpOk"):
            out.append({"stage": k, "i": 0, "j": s["file"] - nschema + 1, "name": "", "out": ["none"], "code": -1})
        elif k == "command":
            out.append({"stage": k, "i": 0, "j": 0, "name": s["name"], "out": ["none"], "code": -1})
        elif k == "write":
            out.append({"stage": k, "i": 0, "j": 0, "name": "", "out": file_id_out(s["path"], proj), "code": -1})
        elif k == "exit":
            out.append({"stage": k, "i": 0, "j": 0, "name": "", "out": ["none"], "code": s["code"]})
        else:
            out.append({"stage": k, "i": 0, "j": 0, "name": "", "out": ["none"], "code": -1})
    return out


def file_id_out(path, proj):
    path = path.replace("\\/", "/")
    if proj in path:
        path = path.split(proj, 1)[1]
    path = re.sub(r"^(\./)+", "", path)
    if path in ("gen/schema.d.ts", "gen/schema.ts"):
        return ["schemaTypes"]
    if path in ("gen/schema.d.ts.map", "gen/schema.ts.map"):
        return ["schemaTypesMap"]
    if path in ("gen/resolvers.d.ts", "gen/resolvers.d.ts.map", "gen/server.ts"):
        return [{"gen/resolvers.d.ts": "resolvers", "gen/resolvers.d.ts.map": "resolversMap", "gen/server.ts": "server"}[path]]
    m = re.match(r"ops/o(\d+)\.d\.graphql\.ts(\.map)?$", path)
    if m:
        return ["opTypesMap" if m.group(2) else "opTypes", int(m.group(1)) + 1]
    return ["other", path]


def run(ctx, res):
    vlib.build_harness()
    vlib.build_cli()
    mc = vlib.tlc("MC_Nitrogql", "MC_Nitrogql.cfg" if ctx.quick else "MC_Nitrogql_thorough.cfg", workdir=ctx.work, workers=8, timeout=1500, xmx="6g")
    res.add_tlc(mc)
    live = vlib.tlc("MC_Nitrogql", "MC_Nitrogql_live.cfg", workdir=ctx.work, workers=8, timeout=900)     # PipelineTerminates under weak fairness
    res.add_tlc(live)
    res.extra["liveness_pipeline_terminates_states"] = live.distinct
    g = vlib.tlc("MC_Nitrogql", "Gen_C18_quick.cfg" if ctx.quick else "Gen_C18_thorough.cfg", workdir=ctx.work, workers=8, timeout=1500, xmx="6g")
    res.add_tlc(g)
    seen, projects = set(), []
    for c in g.tagged("CASE"):
        k = json.dumps(c, sort_keys=True)
        if k not in seen:
            seen.add(k)
            projects.append(c)
    cases, metas = [], []
    for p in projects:
        for fmt in FORMATS:
            c, m = materialise(p, fmt, len(cases))
            cases.append(c)
            metas.append((p, fmt, m))
    vlib.write_ndjson(ctx.path("cases.ndjson"), cases)
    vlib.run_harness(["cliproj", vlib.CLI_BIN, ctx.path("cases.ndjson"), ctx.path("runs.ndjson"), ctx.path("proj"), "12"], timeout=3000)
    runs = vlib.read_ndjson(ctx.path("runs.ndjson"))
    runs.sort(key=lambda r: r["id"])
    events = []
    for r in runs:
        p, fmt, m = metas[r["id"]]
        events.append({"ev": "CliRun", "project": p, "format": fmt, "files": m, "obs": observe(r, m, fmt), "stages": map_stages(r, m)})
    o = vlib.validate_trace("Trace_C18", "Trace_C18.cfg", events, workdir=ctx.work, timeout=2400)
    res.add_trace(o)
    st = [s for s in o.stats if "stages" in s]
    if any(s["stages"] == 0 and not s["panicked"] for s in st):
        raise vlib.ToolError("a CLI run recorded no stage events: the CLI was not built with --cfg nitrogql_verif")
    res.extra["stage_events_validated"] = sum(s["stages"] for s in st)
    res.traces = o.events
    res.evaluations = o.events
    res.distinct_nontrivial = sum(1 for (p, fmt, m) in metas if any(p["schema"][i] for i in range(len(p["schema"]))) or any(f for f in p["ops"]))
    res.exhaustive = True
    res.rule = ("Spec->impl: MC_Nitrogql enumerates every project with <= 2 schema files, <= %d operation files, <= 2 injected faults "
                "(schema: parse / orphan extension / check; operation: parse / dangling import / check) and every command list "
                "(check | generate | check generate | generate check): %d projects x 3 output formats, each materialised and run "
                "with the real CLI binary. Impl->spec: Trace_C18 judges exit status, JSON well-formedness, which files are named, "
                "token-start positions (Lexer.tla), written = listed = expected files against Nitrogql!Expected (the terminal state "
                "of the pipeline model, which TLC checks against the C18 invariants). Non-trivial = run of a project with >= 1 fault."
                % (2 if ctx.quick else 3, len(projects)))
    res.samples = [events[0]["project"], {"format": events[5]["format"], "obs": events[5]["obs"]}]
    res.extra.update({"projects": len(projects), "runs": len(events), "mc_pipeline_distinct_states": mc.distinct,
                      "exit_codes": {str(k): sum(1 for e in events if e["obs"]["exit"] == k) for k in (0, 1)},
                      "trace_action_coverage": o.coverage})
    res.assumptions = ["locations in the human format and in command-error messages are read with the pattern <path>.graphql:<line>:<col> (1-based)",
                       "the orphan-extension sub-stage reports only its first error (modelled: at least one offending file named)"]


def selftest(ctx):
    """Binding demonstration for the stage trace: drop one hook event / reorder two / change the exit code; each must be rejected."""
    import copy
    vlib.build_harness()
    vlib.build_cli()
    p = {"schema": [[]], "ops": [[], []], "commands": ["check", "generate"], "gen": ["resolvers"]}
    c, m = materialise(p, "json", 0)
    vlib.write_ndjson(ctx.path("cases.ndjson"), [c])
    vlib.run_harness(["cliproj", vlib.CLI_BIN, ctx.path("cases.ndjson"), ctx.path("runs.ndjson"), ctx.path("proj"), "1"])
    r = vlib.read_ndjson(ctx.path("runs.ndjson"))[0]
    good = {"ev": "CliRun", "project": p, "format": "json", "files": m, "obs": observe(r, m, "json"), "stages": map_stages(r, m)}
    muts = []
    a = copy.deepcopy(good)
    a["stages"] = [s for s in a["stages"] if s["stage"] != "checkStart"]          # a hook removed
    b = copy.deepcopy(good)
    i = next(k for k, s in enumerate(b["stages"]) if s["stage"] == "generateStart")
    j = next(k for k, s in enumerate(b["stages"]) if s["stage"] == "checkOk")
    b["stages"][i], b["stages"][j] = b["stages"][j], b["stages"][i]                 # generation before the check finished
    d = copy.deepcopy(good)
    d["stages"] = [s for s in d["stages"] if not (s["stage"] == "write" and s["out"] == ["resolvers"])]      # an output never written
    o = vlib.validate_trace("Trace_C18", "Trace_C18.cfg", [good, a, b, d], workdir=ctx.work, nshards=1)
    got = [i["l"] for i in o.items if i["cls"] == "stage-trace"]
    ok = sorted(got) == [2, 3, 4] and not [i for i in o.items if i["l"] == 1]
    print("SELFTEST C18: unmodified run accepted, 3 corrupted stage traces, rejected at events %s -> %s" % (sorted(got), "ok" if ok else "FAILED"))
    ctx.cleanup()
    return 0 if ok else 2
