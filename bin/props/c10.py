"""C10 — schema and resolver declaration files describe exactly the schema (SchemaDecl.tla over TsTypes.tla)."""
import copy, json, vlib, tsgen as TG, schemagen as SG, docgen as G


def scalar_forms(rng, clash_name):
    """(config entry or None, directive or None, per-target texts) for one custom scalar"""
    k = rng.below(7)
    if k == 0:
        return "string", None, dict(ri="string", ro="string", oi="string", oo="string")
    if k == 1:
        return clash_name, None, dict(ri=clash_name, ro=clash_name, oi=clash_name, oo=clash_name)
    if k == 2:
        sr = {"send": "string | %s" % clash_name, "receive": "string"}
        return sr, None, dict(ri=sr["receive"], oo=sr["receive"], ro=sr["send"], oi=sr["send"])
    if k == 3:
        sep = {"resolverInput": "number", "resolverOutput": "number | bigint", "operationInput": "string | number", "operationOutput": "string"}
        return sep, None, dict(ri=sep["resolverInput"], ro=sep["resolverOutput"], oi=sep["operationInput"], oo=sep["operationOutput"])
    if k == 4:
        # all four positions different from each other (a mix-up of any two of them is observable)
        t = rng.choice([dict(ri="string", ro="string | Date", oi="string | number", oo="string | boolean"),
                        dict(ri="number", ro="number | bigint", oi="string | number", oo="string"),
                        dict(ri="string", ro="string | Date", oi="string", oo="string")])
        d = G.directive("nitrogql_ts_type", [G.arg("resolverInput", G.v_str(t["ri"])), G.arg("resolverOutput", G.v_str(t["ro"])),
                                              G.arg("operationInput", G.v_str(t["oi"])), G.arg("operationOutput", G.v_str(t["oo"]))])
        return None, d, t
    if k == 5:
        return '"a" | "b"', None, dict(ri='"a" | "b"', ro='"a" | "b"', oi='"a" | "b"', oo='"a" | "b"')
    return "readonly number[]", None, dict(ri="readonly number[]", ro="readonly number[]", oi="readonly number[]", oo="readonly number[]")


def make_case(ctx, i, strings=None):
    r = ctx.rng
    m = TG.TsGen(r).schema()
    # optionally give a schema type the name of an identifier used in a scalar's TypeScript text (name clash)
    clash = r.choice(["Date", "Buffer", "Money"])
    if r.chance(2, 3):
        victims = [d["name"] for d in m["defs"] if d["k"] in ("object", "enum", "input", "interface", "union") and d["name"] not in ("Query", "Mutation", "Q", "M")]
        TG.rename_type(m, r.choice(victims), clash)
    if strings:
        m = SG.decorate(m, strings)
    elif r.chance(1, 2):
        k = r.below(len(SG.AWKWARD))
        m = SG.decorate(m, SG.AWKWARD[k:] + SG.AWKWARD[:k])
    scalars_cfg, scalar_texts = {}, {}
    for d in m["defs"]:
        if d["k"] == "scalar":
            entry, directive, texts = scalar_forms(r, clash)
            if entry is not None:
                scalars_cfg[d["name"]] = entry
            if directive is not None:
                d["dirs"] = [x for x in d["dirs"]] + [directive]
            scalar_texts[d["name"]] = texts
    if r.chance(1, 4):
        scalars_cfg["ID"] = "string"
        scalar_texts["ID"] = dict(ri="string", ro="string", oi="string", oo="string")
    # the model plugin: @model(type: "...") on whole objects, @model on single object fields
    model_plugin = r.chance(1, 3)
    model_types = {}
    if model_plugin:
        for d in m["defs"]:
            if d["k"] != "object":
                continue
            if r.chance(1, 4):
                t = r.choice(["%sModel" % d["name"], "{ readonly id: string }", "Models.%s" % d["name"]])
                d["dirs"] = d["dirs"] + [G.directive("model", [G.arg("type", G.v_str(t))])]
                model_types[d["name"]] = t
            else:
                for f in d["fields"]:
                    if r.chance(1, 3):
                        f["dirs"] = f["dirs"] + [G.directive("model")]
    allow = r.chance(2, 3)
    tcfg = {"scalarTypes": scalars_cfg}
    if not allow or r.chance(1, 2):
        tcfg["allowUndefinedAsOptionalInput"] = allow
    config = {"schema": "./schema/*.graphql", "documents": "./ops/*.graphql",
              "extensions": {"nitrogql": {"generate": {"schemaOutput": "./gen/schema.d.ts", "resolversOutput": "./gen/resolvers.d.ts", "type": tcfg}}}}
    if model_plugin:
        config["extensions"]["nitrogql"]["plugins"] = ["nitrogql:model-plugin"]
    # emitSchemaRuntime: the schema module is then a .ts file that also exports one runtime object per enum type
    runtime = r.chance(1, 3)
    gen = config["extensions"]["nitrogql"]["generate"]
    if runtime:
        gen["schemaOutput"] = "./gen/schema.ts"
        gen["emitSchemaRuntime"] = True
    elif r.chance(1, 4):
        gen["emitSchemaRuntime"] = False
    files = TG.split_files(m, r, 1 + r.below(3))
    for f in files:
        f["path"] = f["path"][1:]       # relative to the project root: schema/s0.graphql
    return {"id": "g%d" % i, "schemaFiles": files, "opFiles": [], "configText": json.dumps(config), "scalarTexts": scalar_texts,
            "cfg": {"allowUndefined": allow, "modelPlugin": model_plugin, "runtime": runtime}, "modelTypeTexts": model_types, "want": {"resolvers": True},
            "schemaOutRel": "gen/schema.ts" if runtime else "gen/schema.d.ts"}


def run(ctx, res):
    vlib.build_harness()
    vlib.build_cli()
    n = 40 if ctx.quick else 600
    cases = [make_case(ctx, i) for i in range(n)]
    for j, s in enumerate(SG.AWKWARD):
        cases.append(make_case(ctx, n + j, [s]))
    vlib.write_ndjson(ctx.path("cases.ndjson"), cases)
    vlib.run_harness(["typegen", vlib.CLI_BIN, ctx.path("cases.ndjson"), ctx.path("events.ndjson"), ctx.path("proj"), "12"], timeout=3000)
    events = vlib.read_ndjson(ctx.path("events.ndjson"))
    o = vlib.validate_trace("Trace_C10", "Trace_C10.cfg", events, workdir=ctx.work, timeout=3000, xmx="3g")
    res.add_trace(o)
    ok = [s for s in o.stats if s.get("ok")]
    res.traces = o.events
    res.evaluations = o.events
    res.distinct_nontrivial = len({json.dumps(e["schemaFiles"], sort_keys=True) for e in events})
    res.rule = ("%d seeded valid schema models (tsgen: interface chains, unions, enums, nested input objects, lists to depth 2, custom scalars) x "
                "scalar configurations (single / send-receive / separate / @nitrogql_ts_type / literal unions / array types / a TypeScript identifier "
                "that clashes with a renamed schema type) x allowUndefinedAsOptionalInput x tables of awkward descriptions (quotes, backslashes, */, "
                "newlines, control characters), each generated by the real CLI; for every type and each of the four targets TLC compares the exported "
                "alias with the reference denotation on canonical members and all one-position perturbations, checks module-level representatives, "
                "and checks the Resolvers map (parent, args, result per field; type resolvers over exactly the possible types). "
                "Non-trivial = distinct schema/config case." % len(cases))
    res.samples = [{"schemaFile0_first_item": events[0]["schemaFiles"][0]["items"][0], "scalars": events[0]["scalars"]}]
    res.extra.update({"cases": len(cases), "cases_fully_conforming": len(ok), "types_checked": sum(s["types"] for s in o.stats),
                      "outcomes": {"panicked": sum(1 for e in events if e["panicked"]), "exit_nonzero": sum(1 for e in events if e["exit"] != 0),
                                   "unreadable": sum(1 for e in events if e["schemaTs"]["k"] == "unreadable")},
                      "trace_action_coverage": o.coverage})
    res.assumptions = ["denotation of the emitted TypeScript subset as defined in TsTypes.tla (no TypeScript compiler is available offline)",
                       "one-level abstraction: references to other schema types are judged by which declaration they resolve to",
                       "whether a nullable field argument may be omitted in resolver Args is not judged"]


def walk_types(node, fn):
    """apply fn to every TS type node (dict with key k) reachable from a statement list / type"""
    if isinstance(node, list):
        for x in node:
            walk_types(x, fn)
    elif isinstance(node, dict):
        if "k" in node and node["k"] in ("kw", "lit", "ref", "array", "union", "inter", "obj", "raw"):
            fn(node)
        for v in node.values():
            walk_types(v, fn)


def corrupt_first(stmts, pred, mutate):
    done = []

    def fn(t):
        if not done and pred(t):
            mutate(t)
            done.append(1)
    walk_types(stmts, fn)
    return bool(done)


def selftest(ctx):
    """Binding demonstration: three corruptions of the recorded schema.d.ts AST, each must be rejected."""
    import copy
    vlib.build_harness()
    vlib.build_cli()
    c = make_case(ctx, 0)
    vlib.write_ndjson(ctx.path("cases.ndjson"), [c])
    vlib.run_harness(["typegen", vlib.CLI_BIN, ctx.path("cases.ndjson"), ctx.path("events.ndjson"), ctx.path("proj"), "1"])
    e = vlib.read_ndjson(ctx.path("events.ndjson"))[0]
    muts = []

    def ns_body(ev, name="__OperationOutput"):
        return [st for st in ev["schemaTs"]["stmts"] if st["k"] == "namespace" and st["name"] == name][0]["body"]
    a = copy.deepcopy(e)      # a required object member becomes optional
    if corrupt_first(ns_body(a), lambda t: t["k"] == "obj" and any(not f["opt"] and f["key"] != "__typename" for f in t["fs"]),
                     lambda t: [f for f in t["fs"] if not f["opt"] and f["key"] != "__typename"][0].__setitem__("opt", True)):
        muts.append(a)
    b = copy.deepcopy(e)      # `| null` lost somewhere
    if corrupt_first(ns_body(b), lambda t: t["k"] == "union" and any(x["k"] == "kw" and x["n"] == "null" for x in t["ts"]) and len(t["ts"]) == 2,
                     lambda t: t.__setitem__("ts", [x for x in t["ts"] if not (x["k"] == "kw" and x["n"] == "null")] * 2)):
        muts.append(b)
    d = copy.deepcopy(e)      # a __typename literal renamed
    if corrupt_first(ns_body(d, "__ResolverOutput"), lambda t: t["k"] == "obj" and any(f["key"] == "__typename" for f in t["fs"]),
                     lambda t: [f for f in t["fs"] if f["key"] == "__typename"][0]["t"].__setitem__("s", "Elsewhere")):
        muts.append(d)
    # a run with emitSchemaRuntime: one key of an enum's runtime object lost / `as const` lost; and a run without it that gains a const
    rt = None
    for k in range(1, 200):
        c2 = make_case(ctx, k)
        if c2["cfg"]["runtime"] and any(d["k"] == "enum" and len(d.get("values", [])) > 1 for f in c2["schemaFiles"] for d in f["items"]):
            vlib.write_ndjson(ctx.path("cases2.ndjson"), [c2])
            vlib.run_harness(["typegen", vlib.CLI_BIN, ctx.path("cases2.ndjson"), ctx.path("events2.ndjson"), ctx.path("proj2"), "1"])
            rt = vlib.read_ndjson(ctx.path("events2.ndjson"))[0]
            break
    if rt is not None:
        consts = [st for st in rt["schemaTs"]["stmts"] if st["k"] == "const"]
        if consts:
            x = copy.deepcopy(rt)
            cs = [st for st in x["schemaTs"]["stmts"] if st["k"] == "const" and len(st["obj"]["props"]) > 1][0]
            cs["obj"]["props"].pop()
            muts.append(x)
            y = copy.deepcopy(rt)
            [st for st in y["schemaTs"]["stmts"] if st["k"] == "const"][0]["obj"]["asConst"] = False
            muts.append(y)
            z = copy.deepcopy(rt)
            z["cfg"]["runtime"] = False
            muts.append(z)
    for i, m in enumerate(muts):
        m["id"] = "mut%d" % i
    o = vlib.validate_trace("Trace_C10", "Trace_C10.cfg", muts + ([rt] if rt else []), workdir=ctx.work, nshards=1)
    rejected = {i["id"] for i in o.items}
    ok = len(muts) == 6 and rejected == {"mut%d" % i for i in range(6)}
    print("SELFTEST C10: %d corrupted ASTs, rejected %s -> %s" % (len(muts), sorted(rejected), "ok" if ok else "FAILED"))
    ctx.cleanup()
    return 0 if ok else 2
