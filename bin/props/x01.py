"""X01 (beyond the listed properties) — the configuration a CLI run works with (CliConfig.tla): search order of the configuration
file names, --config-file, the project root, command-line overrides, the early errors."""
import json, re, vlib

NAMES = ["graphql.config.json", "graphql.config.yaml", "graphql.config.yml", ".graphqlrc", ".graphqlrc.json", ".graphqlrc.yaml", ".graphqlrc.yml"]


def config_text(name, tag, cfg_schema, k):
    cfg = {"documents": "./ops_c/*.graphql" if k % 2 else ["./ops_c/*.graphql"],
           "extensions": {"nitrogql": {"generate": {"schemaOutput": "./out_%s/schema.d.ts" % tag}}}}
    if cfg_schema in ("good", "bad"):
        pat = "./schema_%s/*.graphql" % cfg_schema
        cfg["schema"] = pat if k % 3 else [pat]
    elif cfg_schema == "invalid":
        cfg["schema"] = {"not": "a pattern"}
    if name.endswith(".json"):
        return json.dumps(cfg, indent=1)
    # YAML (block style), also for the extension-less .graphqlrc
    def y(v, ind):
        pad = "  " * ind
        if isinstance(v, dict):
            return "".join("%s%s:%s" % (pad, kk, (" " + json.dumps(vv) + "\n") if not isinstance(vv, (dict, list)) else "\n" + y(vv, ind + 1)) for kk, vv in v.items())
        return "".join("%s- %s\n" % (pad, json.dumps(x)) for x in v)
    return y(cfg, 0)


def materialise(s, cid):
    files = []
    for root in ("", "sub/"):
        files += [{"rel": root + "schema_good/s.graphql", "text": "type Query { a: Int }\n"},
                  {"rel": root + "schema_bad/s.graphql", "text": "type Query {\n"},
                  {"rel": root + "ops_c/q.graphql", "text": "query C { a }\n"},
                  {"rel": root + "ops_a/q.graphql", "text": "query A { a }\n"}]
    for k in s["present"]:
        name = NAMES[k - 1]
        files.append({"rel": name, "text": config_text(name, name, s["cfgSchema"], k)})
    files.append({"rel": "sub/custom.yaml", "text": config_text("custom.yaml", "custom", s["cfgSchema"], 1)})
    args = ["--output-format", "json"]
    if s["explicit"] == "custom":
        args += ["--config-file", "sub/custom.yaml"]
    elif s["explicit"] == "missing":
        args += ["--config-file", "missing.yaml"]
    if s["schemaArg"] != "none":
        args += ["--schema", "./schema_%s/*.graphql" % s["schemaArg"]]
    if s["opArg"]:
        args += ["--operation", "./ops_a/*.graphql"]
    if s["outArg"]:
        args += ["--schema-output", "./out_arg/schema.d.ts"]
    return {"id": cid, "files": files, "args": args + list(s["commands"]), "texts": False}


LOC = re.compile(r"([^\s:\"]+\.graphql):(\d+):(\d+)")


def observe(ev):
    proj = ev["dir"].rstrip("/") + "/"

    def rel(p):
        p = p.replace("\\/", "/")
        if proj in p:
            p = p.split(proj, 1)[1]
        p = re.sub(r"^(\./)+", "", p)
        while "/./" in p:
            p = p.replace("/./", "/")
        return p
    named, one_json = [], False
    try:
        doc = json.loads(ev["stdout"])
        one_json = isinstance(doc, dict)
    except Exception:
        doc = None
    if one_json:
        for d in (doc.get("check") or {}).get("errors", []):
            if d.get("file"):
                named.append(rel(d["file"]["path"]))
        msg = (doc.get("error") or {}).get("message", "") or ""
        for m in LOC.finditer(msg):
            named.append(rel(m.group(1)))
    return {"exit": ev["exit"], "panicked": bool(ev["panicked"] or ev["signal"]), "oneJson": one_json, "named": sorted(set(named)),
            "keys": sorted(doc.keys()) if one_json else [],
            "written": sorted(rel(proj + w) for w in ev["written"]), "otherChanges": list(ev["deleted"])}


def run(ctx, res):
    vlib.build_harness()
    vlib.build_cli()
    g = vlib.tlc("Gen_X01", "Gen_X01_quick.cfg" if ctx.quick else "Gen_X01_thorough.cfg", workdir=ctx.work, workers=8, timeout=1500, xmx="6g")
    res.add_tlc(g)
    scen = g.tagged("CASE")
    if not ctx.quick and len(scen) > 24000:
        # the full product is 73 728 runs: keep every scenario whose set of present names has <= 3 members or all 7, sample the rest
        scen = [s for s in scen if len(s["present"]) <= 3 or len(s["present"]) == 7 or ctx.rng.chance(1, 6)]
    cases = [materialise(s, i) for i, s in enumerate(scen)]
    vlib.write_ndjson(ctx.path("cases.ndjson"), cases)
    vlib.run_harness(["cliproj", vlib.CLI_BIN, ctx.path("cases.ndjson"), ctx.path("runs.ndjson"), ctx.path("proj"), "12"], timeout=6000)
    runs = vlib.read_ndjson(ctx.path("runs.ndjson"))
    runs.sort(key=lambda r: r["id"])
    events = [{"ev": "CliConfigRun", "scenario": scen[r["id"]], "obs": observe(r)} for r in runs]
    o = vlib.validate_trace("Trace_X01", "Trace_X01.cfg", events, workdir=ctx.work, timeout=2400)
    res.add_trace(o)
    res.traces = o.events
    res.evaluations = o.events
    res.distinct_nontrivial = len(events)
    res.exhaustive = ctx.quick is False
    why = {}
    for s in o.stats:
        why[s["why"]] = why.get(s["why"], 0) + 1
    res.rule = ("Spec->impl: TLC enumerates scenarios of CliConfig.tla (which of the 7 YAML/JSON configuration names exist x --config-file "
                "absent / existing in a subdirectory / missing x --schema none / good / bad x the files' `schema` entry good / bad / absent / "
                "invalid x --operation x --schema-output x command list none / check / generate / unknown): %d scenarios, each materialised "
                "and run with the real CLI binary; impl->spec: Trace_X01 judges exit status, written files (exactly those under the "
                "effective root and output directory), unchanged inputs, the named faulty file and JSON well-formedness against "
                "CliConfig!Expected. The design-level statements (first match of the search order, --config-file wins, failure writes "
                "nothing, writes stay under the root) are evaluated by TLC over all 73 728 scenarios." % len(events))
    res.samples = [events[0], events[len(events) // 2]]
    res.extra.update({"scenarios": len(events), "expected_outcomes": why, "trace_action_coverage": o.coverage})
    res.assumptions = ["JavaScript / TypeScript configuration files are out of reach offline (they need @nitrogql/core at run time)"]


def selftest(ctx):
    vlib.build_harness()
    vlib.build_cli()
    s = {"present": [2, 4], "explicit": "none", "schemaArg": "none", "cfgSchema": "good", "opArg": False, "outArg": False, "commands": ["generate"]}
    vlib.write_ndjson(ctx.path("cases.ndjson"), [materialise(s, 0)])
    vlib.run_harness(["cliproj", vlib.CLI_BIN, ctx.path("cases.ndjson"), ctx.path("runs.ndjson"), ctx.path("proj"), "1"])
    r = vlib.read_ndjson(ctx.path("runs.ndjson"))[0]
    good = {"ev": "CliConfigRun", "scenario": s, "obs": observe(r)}
    a = json.loads(json.dumps(good)); a["obs"]["written"] = [w.replace("out_graphql.config.yaml", "out_.graphqlrc") for w in a["obs"]["written"]]   # the later name won
    b = json.loads(json.dumps(good)); b["obs"]["exit"] = 1
    o = vlib.validate_trace("Trace_X01", "Trace_X01.cfg", [good, a, b], workdir=ctx.work, nshards=1)
    got = sorted(i["l"] for i in o.items)
    ok = got == [2, 3]
    print("SELFTEST X01: unmodified run accepted, 2 corrupted observations rejected at %s -> %s" % (got, "ok" if ok else "FAILED"))
    ctx.cleanup()
    return 0 if ok else 2
