"""C01 — generated result types admit every spec-conformant response (Trace_C01 over Exec.tla / TsTypes.tla); C02 shares it."""
import copy, json, vlib, tsgen as TG, schemagen as SG, docgen as G, execgen as EG
from props import c10, c04


def merged_defs(files):
    items = [copy.deepcopy(it) for f in files for it in f["items"]]
    out, by = [], {}
    for d in items:
        if d["k"] in ("directive",) or (d["k"] != "schema" and not d.get("ext")) or (d["k"] == "schema" and not d["ext"]):
            if d["k"] not in ("directive", "schema"):
                by[(d["k"], d["name"])] = d
            out.append(d)
    for d in items:
        if d.get("ext") and d["k"] != "schema":
            o = by[(d["k"], d["name"])]
            for c in ("dirs", "interfaces", "fields", "members", "values", "inputFields"):
                o[c] = o[c] + d[c]
        elif d.get("ext") and d["k"] == "schema":
            o = [x for x in out if x["k"] == "schema"][0]
            o["ops"] = o["ops"] + d["ops"]
    return out


def rename_fragment(doc, old, new):
    def ren(sel):
        for x in sel:
            if x["k"] == "spread" and x["name"] == old:
                x["name"] = new
            if x["k"] == "inline" or (x["k"] == "field" and x["hasSel"]):
                ren(x["sel"])
    for d in doc["defs"]:
        ren(d["sel"])
        if d["k"] == "frag" and d["name"] == old:
            d["name"] = new


def make_case(ctx, i, small):
    r = ctx.rng
    base = c10.make_case(ctx, i)
    cfg = json.loads(base["configText"])
    gen = cfg["extensions"]["nitrogql"]["generate"]
    gen.pop("resolversOutput", None)
    base["want"] = {"resolvers": False}
    defs = merged_defs(base["schemaFiles"])
    eg = EG.ExecGen(defs, r)
    doc = eg.document(r.below(3))
    if not small and r.chance(1, 25):
        # a fragment called like an identifier the declaration file uses itself (the schema namespace import, the imported helper type, the
        # operation's own result / variables type or document constant): spec-valid, but its exported type and constant take that very name
        frs = [d for d in doc["defs"] if d["k"] == "frag"]
        if frs:
            rename_fragment(doc, frs[0]["name"], r.choice(["Schema", "TypedDocumentNode", "OpResult", "OpVariables", "OpQuery"]))
    base["opFiles"] = [{"path": ["ops", "q.graphql"], "doc": doc}]
    # the `generate.name` options that decide what the judged types are called (only the options that are set; Naming.tla has the defaults)
    nc = {}
    if r.chance(1, 3):
        nc["operationResultTypeSuffix"] = r.choice(["Data", "Result", "_R"])
    if r.chance(1, 3):
        nc["fragmentTypeSuffix"] = r.choice(["Fragment", "", "_F"])
    if r.chance(1, 4):
        nc["capitalizeOperationNames"] = r.chance(1, 2)
    if r.chance(1, 4):
        for d in doc["defs"]:
            if d["k"] == "op":
                d["name"] = "getThing"
    if nc:
        gen["name"] = dict(nc)
    if r.chance(1, 3):
        gen.setdefault("export", {})["operationResultType"] = True
    base["nameCfg"] = nc
    if r.chance(1, 3):
        gen["mode"] = r.choice(["with-loader-ts-4.0", "standalone-ts-4.0"])
    base["configText"] = json.dumps(cfg)
    base["id"] = "x%d" % i
    return base


def fixture_case(ctx, i):
    """the four fixture schemas of C03/C04 with docgen2 documents (arguments, variables, deeper nesting; little merging)"""
    import docgen2 as G2
    r = ctx.rng
    scs = c04.schemas()
    s = scs[i % len(scs)]
    g = G2.SchemaDocGen(s["model"], r)
    d = g.document(nfrags=r.below(3), nops=1)
    for x in d["defs"]:
        if x["k"] == "op" and not x["hasName"]:
            x["hasName"], x["name"] = True, "Op0"
    # unused fragments are not spec-valid: keep only those some operation reaches
    files = [{"path": ["schema", "s0.graphql"], "items": s["model"]["defs"]}]
    scalar_texts = {dd["name"]: dict(ri="string", ro="string", oi="string", oo="string") for dd in s["model"]["defs"] if dd["k"] == "scalar"}
    cfg = {"schema": "./schema/*.graphql", "documents": "./ops/*.graphql",
           "extensions": {"nitrogql": {"generate": {"schemaOutput": "./gen/schema.d.ts", "type": {"scalarTypes": {k: "string" for k in scalar_texts}}}}}}
    return {"id": "fx%d" % i, "schemaFiles": files, "opFiles": [{"path": ["ops", "q.graphql"], "doc": d}], "configText": json.dumps(cfg),
            "scalarTexts": scalar_texts, "cfg": {"allowUndefined": True}, "want": {"resolvers": False},
            "nameCfg": {}}


TINY = None


def tiny_schema():
    """the fixed schema of Gen_C01.tla"""
    global TINY
    if TINY is None:
        N, NN, L = G.named, G.nn, G.lst
        TINY = [SG.tdef("object", "Query", fields=[SG.fdef("n", N("N")), SG.fdef("a", N("A")), SG.fdef("l", NN(L(NN(N("N"))))), SG.fdef("s", N("String"))]),
                SG.tdef("interface", "N", fields=[SG.fdef("id", NN(N("ID"))), SG.fdef("n", N("N"))]),
                SG.tdef("object", "A", interfaces=["N"], fields=[SG.fdef("id", NN(N("ID"))), SG.fdef("n", N("N")), SG.fdef("v", N("Int")), SG.fdef("o", N("A"))]),
                SG.tdef("object", "B", interfaces=["N"], fields=[SG.fdef("id", NN(N("ID"))), SG.fdef("n", N("N")), SG.fdef("w", NN(N("String")))])]
    return TINY


COND = {"none": [], "skipA": [("skip", G.v_var("a"))], "includeA": [("include", G.v_var("a"))], "skipB": [("skip", G.v_var("b"))],
        "includeB": [("include", G.v_var("b"))], "skipTrue": [("skip", {"k": "bool", "v": True})], "includeFalse": [("include", {"k": "bool", "v": False})],
        # two variable-driven conditions on ONE selection: excluded if any @skip is true or any @include is false
        "includeAskipB": [("include", G.v_var("a")), ("skip", G.v_var("b"))], "skipAincludeA": [("skip", G.v_var("a")), ("include", G.v_var("a"))]}
FRAG_TEXT = {"FN": ("N", lambda: [G.field("id"), G.inline([G.field("v")], "A", [])]),
             "FA": ("A", lambda: [G.field("v"), G.field("o", sel=[G.field("id")])])}


def doc_of_nodes(nodes):
    """flat node list of Gen_C01 (1-based parent indices, 0 = root) -> nested document (plumbing)"""
    built = []
    root = []
    used_vars, used_frags = set(), set()
    for nd in nodes:
        dirs = []
        for dn, v in COND[nd["cond"]]:
            dirs.append(G.directive(dn, [G.arg("if", copy.deepcopy(v))]))
            if v.get("k") == "var":
                used_vars.add(v["n"])
        if nd["k"] == "field":
            x = G.field(nd["name"], nd["alias"] or None, None, dirs, None)
        elif nd["k"] == "inline":
            x = G.inline([], nd["on"] or None, dirs)
        else:
            x = G.spread(nd["name"], dirs)
            used_frags.add(nd["name"])
        built.append(x)
        parent = root if nd["p"] == 0 else built[nd["p"] - 1]
        if nd["p"] != 0:
            if parent["k"] == "field":
                parent["hasSel"] = True
            parent = parent["sel"]
        parent.append(x)
    defs = [G.op("Op", root, "query", [G.vardef(v, G.nn(G.named("Boolean"))) for v in sorted(used_vars)])]
    for f in sorted(used_frags):
        on, mk = FRAG_TEXT[f]
        defs.append(G.frag(f, mk(), on))
    return {"defs": defs}


def enumerated_batches(ctx, res, per=30):
    """spec -> impl: every document Gen_C01.tla's builder reaches, batched into projects of `per` operation files"""
    g = vlib.tlc("Gen_C01", "Gen_C01_quick.cfg" if ctx.quick else "Gen_C01_thorough.cfg", workdir=ctx.work, workers=8, timeout=1800, xmx="6g")
    res.add_tlc(g)
    cases = g.tagged("CASE")
    total = len(cases)
    keep = 6000 if ctx.quick else 36000
    if total > keep:
        # a seed-dependent systematic sample (every document is reached over the seeds)
        step = -(-total // keep)
        cases = [c for i, c in enumerate(cases) if i % step == ctx.seed % step]
    if not ctx.quick:
        # beyond the exhaustive bound: random walks of the same builder (TLC simulation mode) up to 6 selection nodes
        sim = vlib.tlc("Gen_C01", "Gen_C01_sim.cfg", workdir=ctx.work, workers=1, timeout=1800, xmx="4g", simulate="num=6000", ok_rcs=(0,))
        seen = set()
        for c in sim.tagged("CASE"):
            k = json.dumps(c, sort_keys=True)
            if len(c["nodes"]) >= 4 and k not in seen:
                seen.add(k)
                cases.append(c)
    docs = [doc_of_nodes(c["nodes"]) for c in cases]
    cfg = {"schema": "./schema/*.graphql", "documents": "./ops/*.graphql", "extensions": {"nitrogql": {"generate": {"schemaOutput": "./gen/schema.d.ts"}}}}
    out = []
    for b in range(0, len(docs), per):
        out.append({"id": "gb%d" % (b // per), "schemaFiles": [{"path": ["schema", "s0.graphql"], "items": tiny_schema()}],
                    "opFiles": [{"path": ["ops", "q%d.graphql" % k], "doc": d} for k, d in enumerate(docs[b:b + per])],
                    "configText": json.dumps(cfg), "scalarTexts": {}, "cfg": {"allowUndefined": True}, "want": {"resolvers": False}, "nameCfg": {}})
    return out, total, len(docs)


def run_mode(ctx, res, mode):
    vlib.build_harness()
    vlib.build_cli()
    n = (150 if ctx.quick else 4000) if mode == "C01" else (160 if ctx.quick else 2500)
    cases = [make_case(ctx, i, mode == "C02") for i in range(n)]
    cases += [fixture_case(ctx, i) for i in range(n // 5)]
    batches, enum_total, enum_used = enumerated_batches(ctx, res)
    vlib.write_ndjson(ctx.path("cases.ndjson"), cases)
    vlib.run_harness(["typegen", vlib.CLI_BIN, ctx.path("cases.ndjson"), ctx.path("events.ndjson"), ctx.path("proj"), "12"], timeout=3000)
    # the recorded runs are never all held in memory (thousands of declaration-file ASTs): the few aggregates the evidence needs are
    # taken line by line, and TLC gets the file
    import hashlib
    n_events = n_panicked = n_exit = 0
    distinct_docs, sample_doc = set(), None
    with open(ctx.path("events.ndjson")) as fh:
        for line in fh:
            if not line.strip():
                continue
            e = json.loads(line)
            n_events += 1
            n_panicked += 1 if e["panicked"] else 0
            n_exit += 1 if e["exit"] != 0 else 0
            distinct_docs.add(hashlib.sha1(json.dumps(e["opFiles"], sort_keys=True).encode()).hexdigest())
            if sample_doc is None and e["exit"] == 0:
                sample_doc = e["opFiles"][0]["doc"]["defs"][0]["sel"][:2]
            del e
    o = vlib.validate_trace("Trace_C01", "Trace_C01.cfg", ctx.path("events.ndjson"), workdir=ctx.work, timeout=3400, xmx="3g",
                            nshards=vlib.NSHARDS if ctx.quick else 11, extra_env={"MODE": mode, "TIER": ctx.tier})
    # the enumerated documents: a large trace, written by the harness and handed to TLC as a file (never loaded here)
    for b in batches:
        b["evName"] = "TypeGenBatch"
    vlib.write_ndjson(ctx.path("enum_cases.ndjson"), batches)
    vlib.run_harness(["typegen", vlib.CLI_BIN, ctx.path("enum_cases.ndjson"), ctx.path("enum_events.ndjson"), ctx.path("proj"), "12"], timeout=6000)
    o2 = vlib.validate_trace("Trace_C01", "Trace_C01.cfg", ctx.path("enum_events.ndjson"), workdir=ctx.path("enum"), timeout=6000, xmx="3g",
                             nshards=vlib.NSHARDS if ctx.quick else 11, extra_env={"MODE": mode, "TIER": ctx.tier})
    o.events += o2.events
    o.items += o2.items
    o.stats += o2.stats
    o.generated += o2.generated
    o.distinct += o2.distinct
    for k, v in o2.coverage.items():
        o.coverage[k] = o.coverage.get(k, 0) + v
    res.add_trace(o)
    discards = [s for s in o.stats if "discard" in s]
    judged = [s for s in o.stats if "ok" in s]
    if any(not s["preludeOk"] for s in judged):
        raise vlib.ToolError("the emitted __SelectionSet prelude is not the text TsTypes.tla's semantics was derived from")
    res.traces = len(judged)
    res.evaluations = o.events
    res.distinct_nontrivial = len(distinct_docs) - len(discards)
    ndefs_ok = sum(s["ok"] for s in judged)
    ndefs_beyond = sum(s["beyond"] for s in judged)
    sizes = [x for s in judged for x in s["sizes"]]
    res.rule = ("%d seeded cases: a valid schema (tsgen, or one of the four C03/C04 fixture schemas) under a scalar configuration, plus a valid "
                "document (execgen: the same response key selected repeatedly - directly, in inline fragments with and without type condition, in "
                "named fragments - with different sub-selections and @skip/@include on literals and Boolean variables, aliases, __typename, "
                "interfaces / unions; docgen2: arguments, variables, deeper nesting); Validate.tla confirms validity (else discard), the real CLI "
                "must accept and generate; %s. Spec->impl: Gen_C01.tla's builder state graph is every document with <= %d selection nodes over a "
                "tiny schema (interface with two implementers, list, aliases, inline fragments with / without type condition, two named fragments, "
                "@skip / @include on variables and literals; children in every order): %d complete documents, of which %d are run (%s), batched %d "
                "to a project and judged the same way (Trace_C01!TGenBatch; %d discarded as not valid / not merge-consistent). "
                "Non-trivial = distinct accepted document." %
                (len(cases), "for every operation and fragment TLC enumerates Responses(X, sigma) for every runtime type and every assignment of the "
                 "Boolean variables (null / non-null, list length 0 / 1, every enum value, every possible object type) and requires each to be a "
                 "member of the emitted type" if mode == "C01" else
                 "for every operation and fragment TLC enumerates RefLocal(X), perturbs every member at one position (null, absent, other atom "
                 "kinds, other literals, list wrap / unwrap) and requires every perturbed value the emitted type admits to be in RefLocal",
                 3 if ctx.quick else 4, enum_total, enum_used, "all" if enum_total == enum_used else "a systematic sample chosen by the seed", 30,
                 sum(s.get("discardedFiles", 0) for s in judged)))
    res.extra.update({"enumerated_documents_total": enum_total, "enumerated_documents_run": enum_used,
                      "enumerated_documents_discarded": sum(s.get("discardedFiles", 0) for s in judged)})
    res.samples = [{"document": sample_doc}]
    res.extra.update({"cases": len(cases), "definitions_judged": ndefs_ok, "definitions_beyond_bound": ndefs_beyond,
                      "largest_set": max(sizes) if sizes else 0, "total_set_sizes": sum(sizes), "discarded": len(discards),
                      "discard_reasons": {k: sum(1 for s in discards if s["discard"] == k) for k in {s["discard"] for s in discards}},
                      "outcomes": {"panicked": n_panicked, "exit_nonzero": n_exit},
                      "trace_action_coverage": o.coverage})
    if len(discards) > 0.25 * n_events:
        raise vlib.ToolError("too many discarded cases: %d of %d (%s)" % (len(discards), n_events, json.dumps(discards[0])[:300]))
    res.assumptions = ["denotation of the emitted TypeScript subset as in TsTypes.tla, in particular __SelectionSet<Orig,Obj,Others> read from its "
                       "emitted definition with an optional `never` member reading as absent (DESIGN.md 4.3); no TypeScript compiler is available offline",
                       "FieldsInSetCanMerge and the absence of unused fragments/variables hold by construction of the generators",
                       "abstract data domain: list length <= 1, one representative per scalar kind"]


def run(ctx, res):
    run_mode(ctx, res, "C01")


def selftest_mode(ctx, mode):
    """Binding demonstration: corrupt the recorded result type; C01: a nullable member loses `| null`; C02: a member type becomes unknown."""
    import copy
    vlib.build_harness()
    vlib.build_cli()
    cases = [make_case(ctx, i, False) for i in range(24)]
    cases = [c for c in cases if not c["nameCfg"] and c["opFiles"][0]["doc"]["defs"][0]["name"] == "Op"][:8]       # default naming: OpResult
    vlib.write_ndjson(ctx.path("cases.ndjson"), cases)
    vlib.run_harness(["typegen", vlib.CLI_BIN, ctx.path("cases.ndjson"), ctx.path("events.ndjson"), ctx.path("proj"), "4"])
    muts = []
    for e in vlib.read_ndjson(ctx.path("events.ndjson")):
        a = copy.deepcopy(e)
        st = [x for x in a["opTs"][0]["stmts"] if x["k"] == "type" and x["name"] == "OpResult"]
        if not st:
            continue
        if mode == "C01":
            hit = c10.corrupt_first(st, lambda t: t["k"] == "union" and len(t["ts"]) == 2 and any(x["k"] == "kw" and x["n"] == "null" for x in t["ts"]),
                                    lambda t: t.__setitem__("ts", [x for x in t["ts"] if not (x["k"] == "kw" and x["n"] == "null")] * 2))
        else:
            hit = c10.corrupt_first(st, lambda t: t["k"] == "obj" and any(f["t"]["k"] in ("ref", "union") and not f["opt"] for f in t["fs"]),
                                    lambda t: [f for f in t["fs"] if f["t"]["k"] in ("ref", "union") and not f["opt"]][0].__setitem__("t", {"k": "kw", "n": "unknown"}))
        if hit:
            a["id"] = "mut%d" % len(muts)
            muts.append(a)
        if len(muts) == 3:
            break
    o = vlib.validate_trace("Trace_C01", "Trace_C01.cfg", muts, workdir=ctx.work, nshards=1, extra_env={"MODE": mode})
    want = "response-not-admitted" if mode == "C01" else "non-response-admitted"
    rejected = {i["id"] for i in o.items if i["cls"] == want}
    ok = len(muts) == 3 and len(rejected) >= 2
    print("SELFTEST %s: %d corrupted result types, %d rejected as %s -> %s" % (mode, len(muts), len(rejected), want, "ok" if ok else "FAILED"))
    ctx.cleanup()
    return 0 if ok else 2


def selftest(ctx):
    return selftest_mode(ctx, "C01")
