"""C02 — generated result types admit nothing no execution could return (Trace_C01 in mode C02)."""
from props import c01


def run(ctx, res):
    c01.run_mode(ctx, res, "C02")


def selftest(ctx):
    return c01.selftest_mode(ctx, "C02")
