"""C05 — the schema check's verdict is exact on the implemented type-system rules (TypeSysValidate.tla)."""
import json, vlib, tsgen as TG, schemagen as SG

RULES = ["ReservedName", "DuplicateField", "DuplicateArgument", "DuplicateEnumValue", "DuplicateUnionMember", "DuplicateInputField",
         "DuplicateDefinition", "UnknownType", "InputTypeInOutputPosition", "OutputTypeInInputPosition", "ImplementsNonInterface",
         "ImplementsSelf", "TransitiveInterface", "InterfaceFieldMissing", "InterfaceFieldType", "InterfaceArgumentMissing",
         "InterfaceArgumentType", "InterfaceExtraRequiredArgument", "NonObjectUnionMember", "DirectivesKnown", "DirectiveLocations",
         "DirectivesUniquePerLocation", "ArgsKnown", "ArgsRequired", "LiteralTypes", "RecursiveDirective"]


def catalogue_models():
    out = []
    for name, doc in SG.catalogue():
        out.append(doc)
    return out


def valid_cases(ctx, n):
    cases = []
    for i in range(n):
        g = TG.TsGen(ctx.rng)
        m = g.schema()
        if ctx.rng.chance(1, 3):
            # directives and types are separate name spaces: a directive may be called like a type of the schema
            # (not `mark` / `once`: the fault operators refer to those two by name)
            ds = [d["name"] for d in m["defs"] if d["k"] == "directive" and d["name"] not in ("mark", "once")]
            ts = [d["name"] for d in m["defs"] if d["k"] in ("enum", "object", "scalar", "input", "interface", "union")]
            if ds and ts:
                TG.rename_directive(m, ctx.rng.choice(ds), ctx.rng.choice(ts))
        nfiles = 1 + ctx.rng.below(3)
        cases.append({"id": "v%d" % i, "mode": "valid", "files": TG.split_files(m, ctx.rng, nfiles), "model": m})
    # the hand-written catalogue schemas too (already contain their own extensions: one file, items as they are)
    for j, m in enumerate(catalogue_models()):
        cases.append({"id": "cat%d" % j, "mode": "valid", "files": [{"path": ["p", "schema", "s0.graphql"], "items": m["defs"]}], "model": m})
    return cases


def run(ctx, res):
    vlib.build_harness()
    g = vlib.tlc("Gen_C05", "Gen_C05_quick.cfg" if ctx.quick else "Gen_C05_thorough.cfg", workdir=ctx.work, workers=8, timeout=900)
    res.add_tlc(g)
    triples = g.tagged("CASE")
    nmodels = max(t["model"] for t in triples)
    valid = valid_cases(ctx, 60 if ctx.quick else 1500)
    bases = valid[:nmodels]
    cases = [{k: v for k, v in c.items() if k != "model"} for c in valid]
    skipped = 0
    for t in triples:
        base = bases[t["model"] - 1]
        op = TG.OPERATORS[t["operator"] - 1]
        m = TG.inject(base["model"], op, t["site"])
        if m is None:
            skipped += 1
            continue
        srng = vlib.Rng(ctx.seed * 1000003 + t["model"] * 7919 + t["operator"] * 31 + t["site"])
        cases.append({"id": "f%d_%s_%d" % (t["model"], op, t["site"]), "mode": "fault", "files": TG.split_files(m, srng, 1 + srng.below(3)),
                      "fault": {"operator": op, "site": t["site"], "model": t["model"]}, "base": base["files"], "baseId": base["id"]})
    vlib.write_ndjson(ctx.path("cases.ndjson"), cases)
    vlib.run_harness(["checkschema", ctx.path("cases.ndjson"), ctx.path("events.ndjson")])
    events = vlib.read_ndjson(ctx.path("events.ndjson"))
    o = vlib.validate_trace("Trace_C05", "Trace_C05.cfg", events, workdir=ctx.work, timeout=3000)
    res.add_trace(o)
    discards = [s for s in o.stats if "discard" in s]
    reported = [s for s in o.stats if s.get("ok") == "fault-reported"]
    accepted = [s for s in o.stats if s.get("ok") == "valid-accepted"]
    rules, ops = {}, {}
    for s in reported:
        for r in s["rules"]:
            rules[r] = rules.get(r, 0) + 1
        ops[s["fault"]] = ops.get(s["fault"], 0) + 1
    nvalid = sum(1 for c in cases if c["mode"] == "valid")
    res.traces = o.events - len(discards)
    res.evaluations = o.events
    res.distinct_nontrivial = len(reported) + len(accepted) + len(o.items)
    res.exhaustive = True
    res.rule = ("Valid side: %d seeded valid-by-construction schema models (interface chains with covariant narrowing, unions, enums, nested input "
                "objects, custom scalars, stratified directive definitions incl. a diamond, built-in and user directives with arguments on all 11 "
                "type-system locations, explicit or default roots), each split into definitions and `extend` items over 1-3 files, plus the "
                "hand-written catalogue; Trace_C05 merges the items (reference merge), confirms TSViolations = {} and requires zero diagnostics. "
                "Fault side (spec->impl): Gen_C05 enumerates (base model, fault operator, site) over %d models x %d operators x sites 0..%d: "
                "%d applicable single-fault injections; TypeSysValidate independently confirms that a rule of the property's list is broken "
                "(else discard) and requires >= 1 diagnostic. Non-trivial = confirmed fault or confirmed valid model."
                % (nvalid, nmodels, len(TG.OPERATORS), max(t["site"] for t in triples), len(cases) - nvalid))
    res.samples = [cases[nvalid]["fault"] if len(cases) > nvalid else {}, events[0]["files"][0]["items"][0], events[-1]["out"]]
    res.extra.update({"valid_models": nvalid, "confirmed_valid_and_accepted": len(accepted), "injections": len(cases) - nvalid,
                      "inapplicable_sites_skipped": skipped, "confirmed_faults_reported": len(reported), "confirmed_faults_by_rule": rules,
                      "confirmed_faults_by_operator": ops, "discarded": len(discards),
                      "discard_reasons": {k: sum(1 for s in discards if s["discard"] == k) for k in {s["discard"] for s in discards}},
                      "trace_action_coverage": o.coverage})
    missing = sorted(set(RULES) - set(rules))
    res.extra["rules_never_exercised"] = missing
    never_ops = sorted(set(TG.OPERATORS) - set(ops) - {i.get("fault", {}).get("operator") for i in o.items})
    res.extra["operators_never_confirmed"] = never_ops
    if missing and not ctx.quick:
        raise vlib.ToolError("rules never exercised by a confirmed fault: %s" % missing)
    nv_disc = sum(1 for s in discards if s["discard"] == "generated model is not valid")
    if nv_disc > 0.2 * nvalid:
        raise vlib.ToolError("too many invalid generated models: %d of %d (%s)" % (nv_disc, nvalid, json.dumps(discards[0])[:400]))
    res.assumptions = ["validity of a generated model w.r.t. rules outside the property's list (non-empty types, default values of the declared "
                       "type, no non-null input cycle, a query root) holds by construction of the generator",
                       "fault side judges exactly the contrapositive (>= 1 diagnostic, from the extension resolver or the checker); which "
                       "diagnostic is recorded, not judged"]


def selftest(ctx):
    """Binding demonstration: corrupt the recorded observation of one valid and one fault event; both must be rejected."""
    vlib.build_harness()
    valid = valid_cases(ctx, 2)
    base = valid[0]
    m = TG.inject(base["model"], "dup-field", 0)
    cases = [{k: v for k, v in base.items() if k != "model"},
             {"id": "f", "mode": "fault", "files": TG.split_files(m, vlib.Rng(7), 2), "fault": {"operator": "dup-field", "site": 0, "model": 1},
              "base": base["files"], "baseId": base["id"]}]
    vlib.write_ndjson(ctx.path("cases.ndjson"), cases)
    vlib.run_harness(["checkschema", ctx.path("cases.ndjson"), ctx.path("events.ndjson")])
    ev = vlib.read_ndjson(ctx.path("events.ndjson"))
    ev[0]["out"] = {"k": "ok", "diags": [{"msg": "invented", "line": 0, "col": 0, "file": 0}]}      # a diagnostic on a valid schema
    ev[1]["out"] = {"k": "ok", "diags": []}                                                             # the fault's diagnostic removed
    o = vlib.validate_trace("Trace_C05", "Trace_C05.cfg", ev, workdir=ctx.work, nshards=1)
    got = sorted(i["cls"] for i in o.items)
    ok = got == ["false-alarm", "missed-violation"]
    print("SELFTEST C05: corrupted 2 events, items %s -> %s" % (got, "ok" if ok else "FAILED"))
    ctx.cleanup()
    return 0 if ok else 2
