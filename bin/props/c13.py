"""C13 — #import resolution brings in every requested fragment, transitively, once (Imports.tla)."""
import json, vlib

F = {"f1": ["p", "f1.graphql"], "f2": ["p", "f2.graphql"], "f3": ["p", "q", "f3.graphql"], "f4": ["p", "f4.graphql"],
     "f5": ["p", "q", "r", "f5.graphql"],
     # the same file names again in other directories: one relative spelling ("./f2.graphql", "../f2.graphql") then means
     # different files depending on where the importing file is; fragment names overlap with the namesakes
     "f6": ["p", "q", "f2.graphql"], "f7": ["p", "q", "r", "f2.graphql"], "f8": ["p", "q", "r", "f4.graphql"]}
FRAGS = {"f1": ["R"], "f2": ["A", "B"], "f3": ["C", "D"], "f4": ["E"], "f5": ["G", "H", "I"], "f6": ["A", "K"], "f7": ["B", "L"], "f8": ["E", "M"]}


# operations of the files (operation names and fragment names are separate name spaces): some are called like a fragment of the same
# file (rendered before it), f2 has one called Z - the name import lines request although no fragment Z exists
OPS = {"f1": ["Q"], "f2": ["A", "Z"], "f5": ["H"], "f6": ["K"]}


def rel(frm, to, rng):
    """a relative spelling of `to` from the directory of `frm` (possibly roundabout)"""
    d = frm[:-1]
    k = 0
    while k < len(d) and k < len(to) - 1 and d[k] == to[k]:
        k += 1
    style = rng.below(6)
    if style in (0, 4, 5):   # minimal
        ups = [".."] * (len(d) - k)
        comps = ups + to[k:]
        return comps if ups else ["."] + comps
    if style == 1:   # via the top directory
        return [".."] * (len(d) - 1) + to[1:] if len(d) > 1 else [".", "zz", ".."] + to[1:]
    if style == 2:   # dot noise
        ups = [".."] * (len(d) - k)
        return ["."] + ups + ["."] + to[k:]
    ups = [".."] * (len(d) - k)
    return (ups if ups else ["."]) + ["zz", ".."] + to[k:]


def rand_case(rng):
    files = {k: [] for k in F}
    nlines = 1 + rng.below(6)
    if rng.chance(1, 4):
        # one file repeats its import lines for two or three different targets, interleaved (x, y, x, y ...): per-file merging of
        # equal spellings must not disturb the lines of the other targets
        frm = rng.choice(sorted(F))
        tos = []
        while len(tos) < 2 + rng.below(2):
            t = rng.choice(sorted(F))
            if t not in tos and len(FRAGS[t]) >= 2:
                tos.append(t)
        specs = {t: rel(F[frm], F[t], rng) for t in tos}
        if len({tuple(v) for v in specs.values()}) == len(tos):
            order = [t for t in tos for _ in range(2)]
            for i in range(len(order) - 1, 0, -1):
                j = rng.below(i + 1)
                order[i], order[j] = order[j], order[i]
            used = {t: 0 for t in tos}
            for t in order:
                files[frm].append({"spec": specs[t], "wild": False, "names": [FRAGS[t][used[t] % len(FRAGS[t])]]})
                used[t] += 1
            nlines = rng.below(3)
    for _ in range(nlines):
        frm = rng.choice(sorted(F))
        if rng.chance(1, 12):
            to_path, to_frags = ["p", "nowhere.graphql"], ["A"]
        else:
            to = rng.choice(sorted(F))
            to_path, to_frags = F[to], FRAGS[to]
        spec = rel(F[frm], to_path, rng)
        r = rng.below(10)
        if r < 3:
            imp = {"spec": spec, "wild": True, "names": []}
        else:
            k = 1 + rng.below(len(to_frags))
            pool = list(to_frags)
            names = [pool.pop(rng.below(len(pool))) for _ in range(k)]
            if rng.chance(1, 10):
                names.append("Z")
            if rng.chance(1, 10):
                names.append(names[0])
            imp = {"spec": spec, "wild": False, "names": names}
        # stage precondition: no wildcard mixed with anything for one identical spelling in one file
        clash = [x for x in files[frm] if x["spec"] == spec]
        if clash and (imp["wild"] or any(x["wild"] for x in clash)):
            continue
        files[frm].append(imp)
    fl = []
    for k in sorted(F):
        fl.append({"path": F[k], "d": {"ok": True, "imports": files[k],
                                        "frags": [{"name": n, "spreads": []} for n in FRAGS[k]],
                                        "ops": [{"name": n, "spreads": []} for n in OPS.get(k, [])]}})
    return {"files": fl, "root": F[rng.choice(["f1", "f1", "f2", "f3"])]}


def run(ctx, res):
    vlib.build_harness()
    mc = vlib.tlc("ImportsAlgo", "MC_ImportsAlgo_fixed.cfg", workdir=ctx.work, workers=8, timeout=900)
    res.add_tlc(mc)
    # liveness: the resolution algorithm ends on every import graph (cycles, self-imports, diamonds) under weak fairness
    live = vlib.tlc("ImportsAlgo", "MC_ImportsAlgo_live.cfg", workdir=ctx.work, workers=8, timeout=900)
    res.add_tlc(live)
    res.extra["liveness_importsalgo_terminates_states"] = live.distinct
    g = vlib.tlc("Gen_C13", "Gen_C13_quick.cfg" if ctx.quick else "Gen_C13_thorough.cfg", workdir=ctx.work, workers=8,
                 timeout=1500, xmx="6g")
    res.add_tlc(g)
    cases = g.tagged("CASE")
    ngen = len(cases)
    nrand = 4000 if ctx.quick else 120000
    for _ in range(nrand):
        cases.append(rand_case(ctx.rng))
    vlib.write_ndjson(ctx.path("cases.ndjson"), cases)
    vlib.run_harness(["imports", ctx.path("cases.ndjson"), ctx.path("events.ndjson")])
    events = vlib.read_ndjson(ctx.path("events.ndjson"))
    kept = [e for e in events if e["out"]["k"] != "discard"]
    discards = len(events) - len(kept)
    if discards > 0.2 * len(events):
        raise vlib.ToolError("too many discarded cases: %d of %d" % (discards, len(events)))
    o = vlib.validate_trace("Trace_C13", "Trace_C13.cfg", kept, workdir=ctx.work, timeout=2400)
    res.add_trace(o)
    res.traces = o.events
    res.evaluations = o.events
    res.distinct_nontrivial = len({json.dumps(e["files"], sort_keys=True) + json.dumps(e["root"]) for e in kept
                                   if any(f["d"]["imports"] for f in e["files"])})
    res.exhaustive = True
    res.rule = ("Spec->impl: Gen_C13's builder state graph = every sequence of <= %d import lines over 5 files (two of them namesakes in different directories) "
                "(specific/wildcard/missing/duplicated names, two spellings per path, a dangling target, self-imports, "
                "cycles, diamonds; every permutation is a distinct state); each case is rendered to GraphQL text, parsed "
                "and resolved by the real code; impl->spec: Trace_C13 judges the resulting (file, definition) multiset "
                "and the error verdict by Imports!ImportContract. Plus %d seeded random graphs with <= 6 lines over 8 "
                "files. Non-trivial = distinct case with at least one import line." % (2 if ctx.quick else 3, nrand))
    res.samples = [kept[1], kept[len(kept) // 2], kept[-1]]
    res.extra.update({"tlc_generated_cases": ngen, "random_cases": nrand, "discarded_cases": discards,
                      "outcomes": {k: sum(1 for e in kept if e["out"]["k"] == k) for k in ("ok", "err", "panic")},
                      "mc_importsalgo_distinct_states": mc.distinct, "trace_action_coverage": o.coverage})
    res.assumptions = ["stage precondition: per-file extension resolution succeeded (a file never combines `*` with "
                       "other targets for one identically spelled path)",
                       "fragment identity is (file, name); the file of a definition is read from its position's file index"]


def selftest(ctx):
    vlib.build_harness()
    cases = [rand_case(ctx.rng) for _ in range(300)]
    vlib.write_ndjson(ctx.path("cases.ndjson"), cases)
    vlib.run_harness(["imports", ctx.path("cases.ndjson"), ctx.path("events.ndjson")])
    events = [e for e in vlib.read_ndjson(ctx.path("events.ndjson")) if e["out"]["k"] != "discard"]
    bad = []
    for e in events:
        if e["out"]["k"] == "ok" and len(e["out"]["defs"]) > 2 and len(bad) < 1:
            b = json.loads(json.dumps(e)); b["out"]["defs"].pop(); bad.append(b)           # lost
        elif e["out"]["k"] == "ok" and len(bad) == 1:
            b = json.loads(json.dumps(e)); b["out"]["defs"].append(b["out"]["defs"][0]); bad.append(b)  # duplicate
        elif e["out"]["k"] == "err" and len(bad) == 2:
            b = json.loads(json.dumps(e)); b["out"] = {"k": "ok", "defs": []}; bad.append(b)   # missed error
    o = vlib.validate_trace("Trace_C13", "Trace_C13.cfg", bad, workdir=ctx.work, nshards=1)
    ok = len(bad) == 3 and len(o.items) == 3
    print("SELFTEST C13: %d corrupted events, %d rejected (%s) -> %s" %
          (len(bad), len(o.items), ",".join(i["cls"] for i in o.items), "ok" if ok else "FAILED"))
    ctx.cleanup()
    return 0 if ok else 2
