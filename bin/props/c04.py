"""C04 — check raises no diagnostic on spec-valid operation documents (Validate.tla); shares machinery with C03."""
import json, vlib, docgen as G, docgen2 as G2, schemagen as SG


def schemas():
    # extension-free fixture schemas (the explicit-roots catalogue schema is merged by hand: no `extend`)
    out = []
    for name, doc in SG.catalogue():
        if any(d["k"] != "directive" and d.get("ext") for d in doc["defs"]):
            continue
        out.append({"name": name, "model": doc})
    out.append({"name": "explicit", "model": {"defs": [
        SG.schema_def([("query", "Q"), ("mutation", "M")]),
        SG.tdef("object", "Q", fields=[SG.fdef("a", G.named("Int")), SG.fdef("m", G.named("Mutation")), SG.fdef("u", G.named("U")),
                                             # a field of interface type whose sub-interface `Archived` no object implements (so `... on Archived` can never apply)
                                             SG.fdef("node2", G.named("Node2")),
                                             # an argument of type list-of-non-null WITH a default (the default does not reach into a supplied list)
                                             SG.fdef("wd", G.named("Int"), [SG.ival("ids", G.lst(G.nn(G.named("Int"))), {"k": "list", "vs": []})])]),
        SG.tdef("object", "M", fields=[SG.fdef("set", G.named("Int"), [SG.ival("v", G.named("In"))])]),
        SG.tdef("object", "Mutation", fields=[SG.fdef("notRoot", G.named("Int"))]),
        SG.tdef("interface", "Node2", fields=[SG.fdef("x", G.named("Int"))]),
        SG.tdef("interface", "Archived", interfaces=["Node2"], fields=[SG.fdef("x", G.named("Int"))]),
        SG.tdef("object", "A", interfaces=["Node2"], fields=[SG.fdef("x", G.named("Int"))]), SG.tdef("object", "B", fields=[SG.fdef("y", G.named("Int"))]),
        SG.tdef("object", "Lone", fields=[SG.fdef("z", G.named("Int"))]),
        SG.tdef("union", "U", members=["A", "B"]), SG.tdef("input", "In", input_fields=[SG.ival("a", G.named("Int")), SG.ival("r", G.nn(G.named("String"))),
                                                   # non-null input fields WITH a default: a nullable variable may be passed (the default stands in)
                                                   SG.ival("first", G.nn(G.named("Int")), G.v_int("10")), SG.ival("tag", G.nn(G.named("String")), G.v_str("t"))])]}})
    return out


def base_documents(ctx, n):
    """valid-by-construction documents over the fixture schemas (single file, or with an imported fragment file)"""
    scs = schemas()
    # plus seeded schemas (tsgen: interface chains with covariant fields, unions, nested input objects, lists to depth 3, custom scalars,
    # user directives on executable locations); merged, extension-free models
    import tsgen as TG
    for k in range(4):
        m = TG.TsGen(ctx.rng).schema()
        # the real checker sees the schema split into definitions and `extend` items (interfaces, fields, members, values, directives
        # contributed by extensions); the reference works on the merged model
        split = TG.split_files(m, ctx.rng, 1)
        scs.append({"name": "seeded%d" % k, "model": m, "renderModel": {"defs": [it for f in split for it in f["items"]]}})
    gens = {s["name"]: G2.SchemaDocGen(s["model"], ctx.rng) for s in scs}
    docs = []
    for i in range(n):
        s = scs[i % len(scs)]
        g = gens[s["name"]]
        d = g.document(nfrags=ctx.rng.below(3), nops=1 + (1 if ctx.rng.chance(1, 5) else 0))
        files = [{"path": ["p", "root.graphql"], "doc": d}]
        if ctx.rng.chance(1, 4):
            frs = [x for x in d["defs"] if x["k"] == "frag"]
            if frs:
                # move the LAST fragment (which spreads no other) into an imported file
                fr = frs[-1]
                d2 = {"defs": [G.imp([".", "lib", "f.graphql"], [fr["name"]])] + [x for x in d["defs"] if x is not fr]}
                lib = [fr]
                rest = [x for x in frs if x is not fr]
                if rest and ctx.rng.chance(1, 2):
                    # the imported file imports back from the root file (a cycle through the file being checked): still valid
                    back = G.imp(["..", "root.graphql"], None if ctx.rng.chance(1, 3) else [ctx.rng.choice(rest)["name"]])
                    lib = [back, fr]
                files = [{"path": ["p", "root.graphql"], "doc": d2}, {"path": ["p", "lib", "f.graphql"], "doc": {"defs": lib}}]
        docs.append({"schema": s["name"], "files": files, "root": ["p", "root.graphql"]})
    return scs, docs


def run_checkops(ctx, scs, cases):
    vlib.write_ndjson(ctx.path("schemas.ndjson"), scs)
    vlib.write_ndjson(ctx.path("cases.ndjson"), cases)
    vlib.run_harness(["checkops", ctx.path("schemas.ndjson"), ctx.path("cases.ndjson"), ctx.path("events.ndjson")])
    events = vlib.read_ndjson(ctx.path("events.ndjson"))
    for e in events:
        e.pop("schema", None)
    return events


def run(ctx, res):
    vlib.build_harness()
    scs, docs = base_documents(ctx, 1500 if ctx.quick else 40000)
    cases = [dict(d, mode="valid") for d in docs]
    events = run_checkops(ctx, scs, cases)
    o = vlib.validate_trace("Trace_C03", "Trace_C03.cfg", events, workdir=ctx.work, timeout=2400, extra_env={"SCHEMAS": ctx.path("schemas.ndjson")})
    res.add_trace(o)
    discards = [s for s in o.stats if "discard" in s]
    accepted = [s for s in o.stats if s.get("ok") == "valid-accepted"]
    res.traces = o.events - len(discards)
    res.evaluations = o.events
    res.distinct_nontrivial = len({json.dumps(e["files"], sort_keys=True) for e in events})
    res.rule = ("%d seeded valid-by-construction documents over 4 fixture schemas and 4 seeded schemas (interfaces incl. interface-implements-interface, unions, "
                "enums, nested input objects with required/default fields, custom scalar, explicit schema block, executable user directive): "
                "aliases, arguments using every input coercion (Int for Float/ID, single value for list, null), variables with and without "
                "defaults in nullable and non-null positions, named/inline fragments on every overlapping type pair, imported fragments, "
                "@skip/@include and user directives on every location. Each document is rendered, parsed, resolved and checked by the real "
                "code; Trace_C03 first confirms validity with Validate!Violations = {} (else discard) and then requires zero diagnostics. "
                "Non-trivial = distinct document." % len(cases))
    res.samples = [events[0]["files"][0]["doc"]["defs"][0], events[-1]["out"]]
    res.extra.update({"documents": len(cases), "confirmed_valid_and_accepted": len(accepted), "discarded": len(discards),
                      "discard_reasons": {k: sum(1 for s in discards if s["discard"] == k) for k in {s["discard"] for s in discards}},
                      "trace_action_coverage": o.coverage})
    if len(discards) > 0.2 * len(events):
        raise vlib.ToolError("too many discarded cases: %d of %d (%s)" % (len(discards), len(events), json.dumps(discards[0])[:300]))
    res.assumptions = ["validity = no violation of the rules in Validate.tla, on documents that are valid by construction for the remaining rules "
                       "(FieldsInSetCanMerge, uniqueness of arguments/input fields, no unused definitions)"]
