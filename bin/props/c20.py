"""C20 — relative and resolved paths are mutually inverse (Paths.tla)."""
import vlib


def gen_events(ctx, res):
    vlib.build_harness()
    cfg = "Gen_C20_quick.cfg" if ctx.quick else "Gen_C20_thorough.cfg"
    g = vlib.tlc("Gen_C20", cfg, workdir=ctx.work, workers=8, timeout=600)
    res.add_tlc(g)
    cases = g.tagged("CASE")
    # ordinary names that merely START with a dot (hidden files and directories, "..."): every pair to depth 3
    g2 = vlib.tlc("Gen_C20", "Gen_C20_dots.cfg", workdir=ctx.work, workers=8, timeout=600)
    res.add_tlc(g2)
    cases = cases + g2.tagged("CASE")
    if not cases:
        raise vlib.ToolError("Gen_C20 produced no cases")
    vlib.write_ndjson(ctx.path("cases.ndjson"), cases)
    nrand = 3000 if ctx.quick else 60000
    vlib.run_harness(["paths", ctx.path("cases.ndjson"), ctx.path("events.ndjson"), str(ctx.seed), str(nrand), "7"])
    events = vlib.read_ndjson(ctx.path("events.ndjson"))
    return cases, events


SCHEMA_OUTS = ["./gen/schema.d.ts", "./schema.generated.d.ts", "./out/deep/graphql.schema.d.ts", "./types/api.v2.types.d.mts", "./ops/s.d.ts",
               "./out/x.y/schema.d.cts", "./gen/plain.ts", "./.generated/schema.d.ts", "./ops/.hidden/s.d.ts", "./sch/t.d.ts", "./op/s.d.ts", "./Ops/s.d.ts", "./Schema/t.d.ts"]


def consumers(ctx):
    """the consumers of the path functions: the schema module specifier of every generated declaration file and the `sources`
    of every source map, from real CLI runs over output names with inner dots and output directories above / below / beside the inputs"""
    import json
    from props import c06
    vlib.build_cli()
    cases = []
    for i in range(14 if ctx.quick else 140):
        c = c06.make_case(ctx, i)
        cfg = json.loads(c["configText"])
        out = SCHEMA_OUTS[i % len(SCHEMA_OUTS)]
        gen = cfg["extensions"]["nitrogql"]["generate"]
        gen["schemaOutput"] = out
        if out.endswith("plain.ts"):
            gen["emitSchemaRuntime"] = False
        gen["resolversOutput"] = ["./gen/resolvers.d.ts", "./out/r.v1.d.ts", "./resolvers.d.ts"][i % 3]
        c["configText"] = json.dumps(cfg)
        c["schemaOutRel"] = "/".join(x for x in out.split("/") if x not in (".", ""))
        c["resolversOutRel"] = "/".join(x for x in gen["resolversOutput"].split("/") if x not in (".", ""))
        c["want"] = {"resolvers": True, "maps": True}
        c["id"] = "p%d" % i
        cases.append(c)
    vlib.write_ndjson(ctx.path("proj_cases.ndjson"), cases)
    vlib.run_harness(["typegen", vlib.CLI_BIN, ctx.path("proj_cases.ndjson"), ctx.path("proj_events.ndjson"), ctx.path("proj"), "12"], timeout=3000)
    evs = []
    for e in vlib.read_ndjson(ctx.path("proj_events.ndjson")):
        if e["exit"] != 0 or e["panicked"]:
            raise vlib.ToolError("consumer project failed to generate: %s" % e["diag"][:400])
        target = e["schemaOutRel"].split("/")
        for x, o in zip(e["expect"]["ops"], e["opTs"]):
            if o["k"] == "ok":
                evs.append({"ev": "Specifier", "id": e["id"], "at": x["gen"], "spec": o["schemaImport"], "target": target})
        if e["resolversTs"]["k"] == "ok":
            evs.append({"ev": "Specifier", "id": e["id"], "at": e["resolversOutRel"].split("/"), "spec": e["resolversTs"]["schemaImport"], "target": target})
        for m in e["maps"]:
            if m["map"]["k"] == "ok":
                evs.append({"ev": "Sources", "id": e["id"], "at": m["gen"], "sources": m["map"]["sources"], "inputs": [i["path"] for i in e["inputs"]]})
    return evs


def import_target_events(ctx):
    """the third consumer: `#import` targets.  Import graphs over directories p, p/sub, p/.hidden, p/sub/x.y that all contain a file
    frags.graphql (distinct fragment names) and a page that imports it under the SAME specifier text; resolved by the real resolver"""
    dirs = [["p"], ["p", "sub"], ["p", ".hidden"], ["p", "sub", "x.y"]]
    tag = {0: "P", 1: "S", 2: "H", 3: "X"}
    cases = []
    for mask in range(1, 16):
        used = [k for k in range(4) if mask >> k & 1]
        for spec_style in range(3):
            files = []
            for k in used:
                d = dirs[k]
                spec = [[".", "frags.graphql"], [".", ".", "frags.graphql"], [".", "zz", "..", "frags.graphql"]][spec_style]
                files.append({"path": d + ["frags.graphql"], "d": {"ok": True, "imports": [], "ops": [], "frags": [{"name": "Frag" + tag[k], "spreads": []}, {"name": "Same", "spreads": []}]}})
                files.append({"path": d + ["page.graphql"], "d": {"ok": True, "imports": [{"spec": spec, "wild": mask % 2 == 0, "names": [] if mask % 2 == 0 else ["Same", "Frag" + tag[k]]}],
                                                             "ops": [], "frags": [{"name": "Page" + tag[k], "spreads": []}]}})
            root_imports = []
            for k in used:
                rel = [".."] * 0 + (["."] + dirs[k][1:] + ["page.graphql"])
                root_imports.append({"spec": rel, "wild": True, "names": []})
            files.append({"path": ["p", "root.graphql"], "d": {"ok": True, "imports": root_imports, "ops": [{"name": "Q", "spreads": []}], "frags": []}})
            cases.append({"files": files, "root": ["p", "root.graphql"]})
    vlib.write_ndjson(ctx.path("imp_cases.ndjson"), cases)
    vlib.run_harness(["imports", ctx.path("imp_cases.ndjson"), ctx.path("imp_events.ndjson")])
    evs = []
    for e in vlib.read_ndjson(ctx.path("imp_events.ndjson")):
        if e["out"]["k"] == "discard":
            raise vlib.ToolError("import-target case discarded: %s" % str(e["out"])[:200])
        e["ev"] = "ImportTargets"
        evs.append(e)
    return evs


def run(ctx, res):
    # design level: nitrogql's algorithm against the contract, all pairs to depth 4 (5 in thorough)
    mc = vlib.tlc("PathsAlgo", "MC_PathsAlgo.cfg" if ctx.quick else "MC_PathsAlgo_thorough.cfg",
                  workdir=ctx.work, workers=8, timeout=1500, xmx="6g")
    res.add_tlc(mc)
    cases, events = gen_events(ctx, res)
    consumer_events = consumers(ctx) + import_target_events(ctx)
    events = events + consumer_events
    o = vlib.validate_trace("Trace_C20", "Trace_C20.cfg", events, workdir=ctx.work)
    res.add_trace(o)
    res.traces = o.events
    res.evaluations = o.events
    in_dom = sum(1 for c in cases if c["inDomain"])
    res.distinct_nontrivial = in_dom
    res.exhaustive = True
    res.rule = ("TLC enumerates every ordered pair of file paths over {x,y,.,..} to depth %d (Gen_C20); each pair is "
                "driven through relative_path/normalize_path/resolve_relative_path and judged by Paths!RelContract in "
                "Trace_C20; likewise every pair over {x,X,.h,...,.,..} to depth 3 (names that only start with a dot, names that differ only in case); plus seeded random pairs to depth 7. Consumers: %d events from real CLI runs (output names with inner dots, "
                ".d.ts / .d.mts / .d.cts / .ts, output directories above / below / beside the inputs): the schema module specifier of every "
                "operation and resolver declaration file must be relative and resolve to the schema declaration file after the documented "
                "TS -> JS extension rewrite, every `sources` entry of every source map must resolve to an input file, and every `#import` must resolve to the file its specifier names "
                "relative to the importing file (45 import graphs over four directories - one hidden, one dotted - that use the same specifier text). "
                "Non-trivial = pair inside the property's domain (PairInDomain)." % (4 if ctx.quick else 5, len(consumer_events)))
    res.samples = [e for e in events[:400:57]]
    res.extra["mc_pathsalgo_distinct_states"] = mc.distinct
    res.extra["trace_action_coverage"] = o.coverage
    res.extra["generated_cases"] = len(cases)
    res.assumptions = ["paths are POSIX-style; a path string is split at '/' by the harness",
                       "domain: file paths that never climb above the root; B not an ancestor directory of A"]


def selftest(ctx):
    """Binding demonstration: corrupt one recorded field per event kind; each must be rejected."""
    res = vlib.Result(ctx.pid, ctx.tier, ctx.seed)
    cases, events = gen_events(ctx, res)
    picked, kinds = [], set()
    for e in events:
        if e["ev"] in kinds or e["out"]["k"] != "ok":
            continue
        if e["ev"] == "Rel" and not (len(e["out"]["c"]) > 1):
            continue
        kinds.add(e["ev"])
        bad = dict(e)
        bad["out"] = dict(e["out"])
        bad["out"]["c"] = list(e["out"]["c"])[:-1] + ["corrupted"]
        picked.append(bad)
    o = vlib.validate_trace("Trace_C20", "Trace_C20.cfg", picked, workdir=ctx.work, nshards=1)
    ok = len(o.items) == len(picked) and len(picked) == 3
    print("SELFTEST C20: %d corrupted events, %d rejected -> %s" % (len(picked), len(o.items), "ok" if ok else "FAILED"))
    ctx.cleanup()
    return 0 if ok else 2
