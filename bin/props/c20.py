"""C20 — relative and resolved paths are mutually inverse (Paths.tla)."""
import vlib


def gen_events(ctx, res):
    vlib.build_harness()
    cfg = "Gen_C20_quick.cfg" if ctx.quick else "Gen_C20_thorough.cfg"
    g = vlib.tlc("Gen_C20", cfg, workdir=ctx.work, workers=8, timeout=600)
    res.add_tlc(g)
    cases = g.tagged("CASE")
    if not cases:
        raise vlib.ToolError("Gen_C20 produced no cases")
    vlib.write_ndjson(ctx.path("cases.ndjson"), cases)
    nrand = 3000 if ctx.quick else 60000
    vlib.run_harness(["paths", ctx.path("cases.ndjson"), ctx.path("events.ndjson"), str(ctx.seed), str(nrand), "7"])
    events = vlib.read_ndjson(ctx.path("events.ndjson"))
    return cases, events


def run(ctx, res):
    # design level: nitrogql's algorithm against the contract, all pairs to depth 4 (5 in thorough)
    mc = vlib.tlc("PathsAlgo", "MC_PathsAlgo.cfg" if ctx.quick else "MC_PathsAlgo_thorough.cfg",
                  workdir=ctx.work, workers=8, timeout=1500, xmx="6g")
    res.add_tlc(mc)
    cases, events = gen_events(ctx, res)
    o = vlib.validate_trace("Trace_C20", "Trace_C20.cfg", events, workdir=ctx.work)
    res.add_trace(o)
    res.traces = o.events
    res.evaluations = o.events
    in_dom = sum(1 for c in cases if c["inDomain"])
    res.distinct_nontrivial = in_dom
    res.exhaustive = True
    res.rule = ("TLC enumerates every ordered pair of file paths over {x,y,.,..} to depth %d (Gen_C20); each pair is "
                "driven through relative_path/normalize_path/resolve_relative_path and judged by Paths!RelContract in "
                "Trace_C20; plus seeded random pairs to depth 7. Non-trivial = pair inside the property's domain "
                "(PairInDomain)." % (4 if ctx.quick else 5))
    res.samples = [e for e in events[:400:57]]
    res.extra["mc_pathsalgo_distinct_states"] = mc.distinct
    res.extra["trace_action_coverage"] = o.coverage
    res.extra["generated_cases"] = len(cases)
    res.assumptions = ["paths are POSIX-style; a path string is split at '/' by the harness",
                       "domain: file paths that never climb above the root; B not an ancestor directory of A"]


def selftest(ctx):
    """Binding demonstration: corrupt one recorded field per event kind; each must be rejected."""
    res = vlib.Result(ctx.pid, ctx.tier, ctx.seed)
    cases, events = gen_events(ctx, res)
    picked, kinds = [], set()
    for e in events:
        if e["ev"] in kinds or e["out"]["k"] != "ok":
            continue
        if e["ev"] == "Rel" and not (len(e["out"]["c"]) > 1):
            continue
        kinds.add(e["ev"])
        bad = dict(e)
        bad["out"] = dict(e["out"])
        bad["out"]["c"] = list(e["out"]["c"])[:-1] + ["corrupted"]
        picked.append(bad)
    o = vlib.validate_trace("Trace_C20", "Trace_C20.cfg", picked, workdir=ctx.work, nshards=1)
    ok = len(o.items) == len(picked) and len(picked) == 3
    print("SELFTEST C20: %d corrupted events, %d rejected -> %s" % (len(picked), len(o.items), "ok" if ok else "FAILED"))
    ctx.cleanup()
    return 0 if ok else 2
