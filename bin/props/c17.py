"""C17 — generation is deterministic and independent of incidental ordering (Trace_C17.tla)."""
import json, subprocess, vlib, docgen as G, schemagen as SG

CONFIG = """schema: ./schema/*.graphql
documents: ./ops/*.graphql
extensions:
  nitrogql:
    generate:
      schemaOutput: ./gen/schema.d.ts
      resolversOutput: ./gen/resolvers.d.ts
      serverGraphqlOutput: ./gen/server.ts
      type:
        scalarTypes:
          Date: string
          Sc: number
"""

OPS = {
    "defaultRoots": [("ops/a.graphql", """query Q1($a: Boolean!, $b: Boolean!, $c: Boolean!, $f: Filter) {
  me { id name @skip(if: $a) age @include(if: $b) created @skip(if: $c) friends(first: 2) { id name @include(if: $c) } }
  node(id: "1") { id ... on User { name } ... on Post { title } }
  items { __typename ... on User { id } ... on Post { title author { id } } }
  search(f: $f) { ...F }
}
fragment F on Item { ... on User { id flag } ... on Post { id } }
"""), ("ops/b.graphql", """#import F from "./a.graphql"
mutation M1($id: ID!, $n: String!) { rename(id: $id, name: $n) { id name ...F } }
subscription S1 { tick }
""")],
    "explicitRoots": [("ops/a.graphql", "query A { a u { __typename ... on A { x z w } ... on B { y } } e m { notRoot } }\nmutation B($v: In) { set(v: $v) }\n")],
    "ops": [("ops/a.graphql", "query A($x: Int, $s: Boolean!, $t: Boolean!) { a @skip(if: $s) b(x: $x, o: {a: 1, b: [{s: \"x\"}]}) @include(if: $t) q { a qs { a } } n { id ... on U { name } } }\n")],
}


def render_defs(ctx, defs):
    """abstract TsDefs -> SDL text through the harness renderer (one call for all chunks)"""
    return defs


def run(ctx, res):
    vlib.build_harness()
    vlib.build_cli()
    g = vlib.tlc("Gen_C17", "Gen_C17_quick.cfg" if ctx.quick else "Gen_C17_thorough.cfg", workdir=ctx.work, workers=4, timeout=600)
    res.add_tlc(g)
    perms = g.tagged("CASE")
    nb = len(perms[0]["perm"])
    if ctx.quick:
        perms = perms[::5]
    # render every block of every catalogue schema once
    cat = SG.catalogue()
    blocks = {}
    render_cases = []
    for name, doc in cat:
        defs = doc["defs"]
        per = -(-len(defs) // nb)
        chunks = [defs[i:i + per] for i in range(0, len(defs), per)]
        while len(chunks) < nb:
            chunks.append([])
        blocks[name] = chunks
        for ch in chunks:
            render_cases.append({"kind": "ts", "A": {"defs": ch}})
    vlib.write_ndjson(ctx.path("render.ndjson"), render_cases)
    vlib.run_harness(["render", ctx.path("render.ndjson"), ctx.path("rendered.ndjson")])
    rendered = [r["text"] for r in vlib.read_ndjson(ctx.path("rendered.ndjson"))]
    texts, k = {}, 0
    for name, doc in cat:
        texts[name] = rendered[k:k + nb]
        k += nb
    cases = []
    for name, doc in cat:
        base = [{"rel": "schema/s0.graphql", "text": "".join(texts[name])}]
        pl = []
        for p in perms:
            order = [texts[name][i - 1] for i in p["perm"]]
            a, b = "".join(order[:p["split"]]), "".join(order[p["split"]:])
            fl = [{"rel": "schema/s0.graphql", "text": a}, {"rel": "schema/s1.graphql", "text": b}]
            pl.append([f for f in fl if f["text"].strip()])
        cases.append({"name": name, "schemaFiles": base, "opFiles": [{"rel": r, "text": t} for r, t in OPS[name]], "config": CONFIG,
                      "runs": 3 if ctx.quick else 10, "perms": pl, "schemaOutput": "gen/schema.d.ts", "schemaSource": "../gen/schema.js"})
    # a FAULTY schema under every arrangement: the verdict may not depend on the order of definitions either.  Two directives that use each
    # other in their argument definitions (a cycle), a third that uses one of them from outside the cycle, and the query root.
    cyc = ["directive @tagged(x: Int @labelled) on ARGUMENT_DEFINITION\n", "directive @labelled(y: Int @tagged) on ARGUMENT_DEFINITION\n",
           "directive @audit(z: Int @tagged) on FIELD_DEFINITION\n", "type Query { a: Int }\n"]
    while len(cyc) < nb:
        cyc.append("")
    if len(cyc) == nb:
        pl = []
        for p in perms:
            order = [cyc[i - 1] for i in p["perm"]]
            a, b = "".join(order[:p["split"]]), "".join(order[p["split"]:])
            pl.append([f for f in [{"rel": "schema/s0.graphql", "text": a}, {"rel": "schema/s1.graphql", "text": b}] if f["text"].strip()])
        cases.append({"name": "faulty-directive-cycle", "faulty": True, "schemaFiles": [{"rel": "schema/s0.graphql", "text": "".join(cyc)}],
                      "opFiles": [{"rel": "ops/a.graphql", "text": "query Q { a }\n"}], "config": CONFIG, "runs": 2, "perms": pl,
                      "schemaOutput": "gen/schema.d.ts", "schemaSource": "../gen/schema.js"})
    # projects WITH diagnostics: the reported diagnostics and their order must not depend on the process either (several faults at one
    # site, at several sites and in several files; operation faults and schema faults)
    ops_schema = [{"rel": "schema/s0.graphql", "text": "".join(texts["ops"])}]
    bad_ops = [("ops/a.graphql", "query A($x: Int) { a(zeta: 1, alpha: 2, mid: 3, beta: 4) @nope1 @nope2 @nope3 b(x: $x, q1: 1, q2: 2, q3: 3) nf1 nf2 nf3 q { a(u1: 1, u2: 2) } }\n"
                                 "query B { a @dq(s: 1, t1: 1, t2: 2, t3: 3) ...Gone1 ...Gone2 n { ... on U { name(a1: 1, a2: 2, a3: 3) } } }\n"),
               ("ops/b.graphql", "query C($v1: Nope1, $v2: Nope2, $v3: Nope3) { b(x: $w1, s: $w2, l: $w3) }\nfragment F1 on Nowhere1 { a }\nfragment F2 on Nowhere2 { a }\n"),
               ("ops/c.graphql", "query D { a(zeta: 1, alpha: 2, mid: 3, beta: 4) }\n"),
               # fragments that no operation of their file spreads, each with a fault of its own, one spreading another
               ("ops/d.graphql", "fragment U1 on Query { nope1 }\nfragment U2 on Query { nope2 }\nfragment U3 on Query { nope3 ...U4 }\n"
                                 "fragment U4 on Query { nope4 }\nfragment U5 on Query { nope5 ...U2 }\n")]
    cases.append({"name": "faulty-ops", "faulty": True, "schemaFiles": ops_schema, "opFiles": [{"rel": r, "text": t} for r, t in bad_ops], "config": CONFIG,
                  "runs": 4 if ctx.quick else 12, "perms": [], "schemaOutput": "gen/schema.d.ts", "schemaSource": "../gen/schema.js"})
    # the same layout in several files: diagnostics of different files at the SAME line and column (differing in message only), plus a
    # broken fragment that two of the files import (its diagnostic arises once per importing file)
    twins = [("ops/t%s.graphql" % k, "#import Broken from \"./lib.graphql\"\nquery T%s { zz%s b(x: $u%s) ...Broken }\n" % (k, k, k)) if k in "ab"
             else ("ops/t%s.graphql" % k, "\nquery T%s { zz%s b(x: $u%s) }\n" % (k, k, k)) for k in "abcdef"]
    twins.append(("ops/lib.graphql", "fragment Broken on Query { gone }\n"))
    cases.append({"name": "faulty-ops-twins", "faulty": True, "schemaFiles": ops_schema, "opFiles": [{"rel": r, "text": t} for r, t in twins], "config": CONFIG,
                  "runs": 4 if ctx.quick else 12, "perms": [], "schemaOutput": "gen/schema.d.ts", "schemaSource": "../gen/schema.js"})
    bad_schema = ("type Query { a(x: Nope1, y: Nope2, z: Nope3): Gone1 b: Gone2 c: Gone3 @u1 @u2 @u3 }\n"
                  "type T implements I1 & I2 & I3 { f: Int }\nunion U = M1 | M2 | M3\ninput In { p: Out1 q: Out2 r: Out3 }\n"
                  # an interface that itself implements several interfaces, and implementers that omit ALL of them (several diagnostics at one site)
                  "interface Node { id: ID }\ninterface Timestamped { at: Int }\ninterface Owned { by: ID }\ninterface Tagged { tag: ID }\n"
                  "interface Document implements Node & Timestamped & Owned & Tagged { id: ID at: Int by: ID tag: ID }\n"
                  "type Memo implements Document { id: ID at: Int by: ID tag: ID }\ninterface Note implements Document { id: ID at: Int by: ID tag: ID }\n")
    cases.append({"name": "faulty-schema", "faulty": True, "schemaFiles": [{"rel": "schema/s0.graphql", "text": bad_schema}],
                  "opFiles": [{"rel": "ops/a.graphql", "text": "query Q { a }\n"}], "config": CONFIG,
                  "runs": 4 if ctx.quick else 12, "perms": [], "schemaOutput": "gen/schema.d.ts", "schemaSource": "../gen/schema.js"})
    # runtime documents (generate.mode standalone-ts-4.0: the .graphql.ts files carry the document as a value): the fragments embedded
    # with an operation, and their order, may not depend on the process.  A fragment composed of many others (in the file and imported),
    # fragments reached along several paths, nesting three levels deep.
    standalone = CONFIG.replace("    generate:\n", "    generate:\n      mode: standalone-ts-4.0\n")
    comp = [("ops/card.graphql", "#import L1, L2, L3, L4, M1, M2, M3 from \"./lib.graphql\"\n"
                                 "query Card { ...Card q { ...Deep } }\nquery Two { ...P3 ...P1 ...Card }\n"
                                 "fragment Card on Query { ...P1 ...P2 ...P3 ...P4 ...P5 ...P6 ...L1 ...L2 q { ...L3 ...L4 ...P2 } }\n"
                                 "fragment P1 on Query { a }\nfragment P2 on Query { b(x: 1) }\nfragment P3 on Query { q { a } }\n"
                                 "fragment P4 on Query { n { id } }\nfragment P5 on Query { qs { a } }\nfragment P6 on Query { a2: a }\n"
                                 "fragment Deep on Query { ...D1 ...D2 ...D3 ...D4 }\nfragment D1 on Query { ...E1 ...E2 ...E3 }\nfragment D2 on Query { ...E3 ...E4 ...E1 }\n"
                                 "fragment D3 on Query { ...E2 ...E4 }\nfragment D4 on Query { a }\n"
                                 "fragment E1 on Query { a }\nfragment E2 on Query { b }\nfragment E3 on Query { n { id } }\nfragment E4 on Query { q { a } }\n"),
            ("ops/lib.graphql", "fragment L1 on Query { l1: a ...M1 ...M2 ...M3 }\nfragment L2 on Query { l2: a ...M3 ...M1 }\nfragment L3 on Query { l3: a }\n"
                                "fragment L4 on Query { l4: a ...M2 }\nfragment M1 on Query { m1: a }\nfragment M2 on Query { m2: a }\nfragment M3 on Query { m3: a }\n")]
    cases.append({"name": "standalone-composed-fragments", "schemaFiles": ops_schema, "opFiles": [{"rel": r, "text": t} for r, t in comp], "config": standalone, "opExt": "graphql.ts",
                  "runs": 6 if ctx.quick else 16, "perms": [], "schemaOutput": "gen/schema.d.ts", "schemaSource": "../gen/schema.js"})
    vlib.write_ndjson(ctx.path("cases.ndjson"), cases)
    vlib.run_harness(["determ", vlib.CLI_BIN, ctx.path("cases.ndjson"), ctx.path("events.ndjson"), ctx.path("proj")], timeout=3000)
    events = vlib.read_ndjson(ctx.path("events.ndjson"))
    o = vlib.validate_trace("Trace_C17", "Trace_C17.cfg", events, workdir=ctx.work, nshards=len(cases), group_key=lambda e: e["group"], timeout=2400)
    res.add_trace(o)
    res.traces = o.events
    res.evaluations = o.events
    res.distinct_nontrivial = len({(e["group"], e.get("perm", -1), e.get("run", -1), e["ev"]) for e in events})
    faulty_groups = {i for i, c in enumerate(cases) if c.get("faulty")}
    if any(e["ev"] == "Run" and e["group"] in faulty_groups and e["exit"] == 0 for e in events):
        raise vlib.ToolError("a C17 project meant to carry diagnostics was accepted")
    bad_exit = [e for e in events if e["ev"] == "Run" and e["exit"] != 0 and e["group"] not in faulty_groups]
    if bad_exit:
        raise vlib.ToolError("a C17 project does not generate cleanly: group %s" % bad_exit[0]["group"])
    res.rule = ("%d projects (3 catalogue projects: schema + operations incl. several Boolean variables, imports, unions/interfaces; 3 projects "
                "carrying many diagnostics: several faults per site, per file, in operations and in the schema; one with six files of the same layout, i.e. diagnostics of different files at one line and column; one in generate.mode standalone-ts-4.0 whose runtime documents embed fragments composed of many others, reached along several paths, local and imported): %d fresh CLI "
                "processes each (Rust's per-process hash seeds) + the in-process library route must agree byte for byte (declarations, "
                "source maps, server schema, stdout); spec->impl: Gen_C17 enumerates every permutation of %d blocks of schema definitions "
                "x every split over two files (%d arrangements per project%s): verdict and every exported type alias (order-insensitive "
                "normal form TsNorm.tla) must be unchanged. Non-trivial = distinct (project, run/arrangement)."
                % (len(cases), cases[0]["runs"], nb, len(perms), ", sampled 1 in 5" if ctx.quick else ""))
    res.samples = [events[0], {"perm_event_files": [f["file"] for f in next(e for e in events if e["ev"] == "Perm")["files"]]}]
    res.extra.update({"projects": len(cases), "runs_per_project": cases[0]["runs"], "arrangements_per_project": len(perms),
                      "trace_action_coverage": o.coverage})
    res.assumptions = ["hash seeds are sampled (fresh processes), not enumerated", "order-insensitive equality of the emitted TS subset is semantic equality"]
