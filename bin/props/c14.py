"""C14 — declared exports match what the loader exports at runtime (Exports.tla)."""
import json, vlib, docgen as G


def shapes():
    Q = lambda sel: sel
    f_local = G.frag("userBits", [G.field("a")])
    f_cap = G.frag("Caps", [G.field("b", None, [G.arg("x", G.v_int("1"))])])
    f_imp = G.frag("Imported", [G.field("a")])
    sh = []
    sh.append(("oneNamed", [{"path": ["ops", "s1", "a.graphql"], "doc": {"defs": [G.op("getThing", [G.field("a")])]}}]))
    sh.append(("oneAnonymous", [{"path": ["ops", "s2", "a.graphql"], "doc": {"defs": [G.op(None, [G.field("a")])]}}]))
    sh.append(("twoOps", [{"path": ["ops", "s3", "a.graphql"], "doc": {"defs": [G.op("first", [G.field("a")]),
                                                                                 G.op("Second", [G.field("m", None, [G.arg("x", G.v_int("1"))])], "mutation")]}}]))
    sh.append(("opAndFragments", [{"path": ["ops", "s4", "a.graphql"],
                                   "doc": {"defs": [G.op("withFrags", [G.field("a"), G.spread("userBits"), G.spread("Caps")]), f_local, f_cap]}}]))
    sh.append(("fragmentsOnly", [{"path": ["ops", "s5", "a.graphql"], "doc": {"defs": [f_local, f_cap]}}]))
    sh.append(("opImporting", [{"path": ["ops", "s6", "a.graphql"],
                                "doc": {"defs": [G.imp([".", "lib", "f.graphql"], ["Imported"]), G.op("usesImport", [G.spread("Imported")], "subscription") if False else
                                                 G.op("usesImport", [G.field("a", "z"), G.spread("Imported")])]}},
                               {"path": ["ops", "s6", "lib", "f.graphql"], "doc": {"defs": [f_imp]}}]))
    sh.append(("subscriptionOnly", [{"path": ["ops", "s7", "a.graphql"], "doc": {"defs": [G.op("onTick", [G.field("s")], "subscription")]}}]))
    # an operation and a fragment with the SAME name (operation names and fragment names are separate namespaces)
    sh.append(("sameNameOpFirst", [{"path": ["ops", "s8", "a.graphql"],
                                    "doc": {"defs": [G.op("Post", [G.field("a"), G.spread("Post")]), G.frag("Post", [G.field("b")])]}}]))
    sh.append(("sameNameFragFirst", [{"path": ["ops", "s9", "a.graphql"],
                                      "doc": {"defs": [G.frag("Me", [G.field("a", "z")]), G.op("Me", [G.spread("Me")])]}}]))
    sh.append(("sameNameImported", [{"path": ["ops", "s10", "a.graphql"],
                                     "doc": {"defs": [G.imp([".", "lib", "f.graphql"], ["Thing"]), G.op("Thing", [G.field("a"), G.spread("Thing")])]}},
                                    {"path": ["ops", "s10", "lib", "f.graphql"], "doc": {"defs": [G.frag("Thing", [G.field("b")])]}}]))
    # file names with more than one dot, two of them sharing the part before the first dot (each file has a declaration file of its own)
    sh.append(("dottedSibling", [{"path": ["ops", "s11", "user.graphql"], "doc": {"defs": [G.frag("UserFields", [G.field("a")])]}},
                                 {"path": ["ops", "s11", "user.queries.graphql"], "doc": {"defs": [G.op("getUser", [G.field("b", None, [G.arg("x", G.v_int("1"))])])]}}]))
    sh.append(("dottedRoot", [{"path": ["ops", "s12", "list.items.v2.graphql"], "doc": {"defs": [G.op("listItems", [G.field("a")])]}}]))
    return [{"name": n, "files": fs, "root": fs[0]["path"]} for n, fs in sh]


def same_export_name(c):
    """with equal (effective) suffixes a same-named operation and fragment would be declared under ONE identifier: outside the domain"""
    q = "Query" if c["querySuffix"] == "unset" else c["querySuffix"]
    f = "" if c["fragmentSuffix"] == "unset" else c["fragmentSuffix"]
    return q == f


def config_text(cfg):
    name, export = [], []
    if cfg["capitalize"] != "unset":
        name.append("        capitalizeOperationNames: %s" % cfg["capitalize"])
    for k, key in (("querySuffix", "queryVariableSuffix"), ("mutationSuffix", "mutationVariableSuffix"),
                   ("subscriptionSuffix", "subscriptionVariableSuffix"), ("fragmentSuffix", "fragmentVariableSuffix")):
        if cfg[k] != "unset":
            name.append("        %s: \"%s\"" % (key, cfg[k]))
    export.append("        defaultExportForOperation: %s" % ("true" if cfg["defaultExport"] else "false"))
    export.append("        operationResultType: %s" % ("true" if cfg["resultType"] else "false"))
    export.append("        variablesType: %s" % ("true" if cfg["variablesType"] else "false"))
    t = ["schema: ./schema.graphql", "documents: ./ops/**/*.graphql", "extensions:", "  nitrogql:", "    generate:",
         "      mode: %s" % cfg["mode"], "      schemaOutput: ./gen/schema.d.ts"]
    if name:
        t += ["      name:"] + name
    t += ["      export:"] + export
    return "\n".join(t) + "\n"


def run(ctx, res):
    vlib.build_harness()
    vlib.build_cli()
    g = vlib.tlc("Gen_C14", "Gen_C14_quick.cfg" if ctx.quick else "Gen_C14_thorough.cfg", workdir=ctx.work, workers=4, timeout=600)
    res.add_tlc(g)
    cfgs = g.tagged("CASE")
    sh = shapes()
    # an anonymous operation gets the name "" + querySuffix: with an empty suffix there is no identifier at all on either
    # side, so that combination is outside the property's domain (nothing is "declared")
    cases = [{"cfg": c, "configText": config_text(c), "schema": G.OPS_SCHEMA,
              "shapes": [s for s in sh if not (s["name"] == "oneAnonymous" and c["querySuffix"] == "")
                         and not (s["name"].startswith("sameName") and same_export_name(c))]} for c in cfgs]
    # the loader instance of every second shape has served ANOTHER configuration before (the one half the list away: the options differ)
    n = len(cases)
    for i, c in enumerate(cases):
        c["priorConfigText"] = cases[(i + n // 2 + 1) % n]["configText"]
        # every third project was generated once already under ANOTHER configuration of the same generate mode (same output file
        # names): the nearest one from a quarter of the list away, so that names and export options both differ
        c["rerunAfterPrior"] = False
        if i % 3 == 0:
            for d in range(n):
                o = cases[(i + n // 4 + 1 + d) % n]
                if o["cfg"]["mode"] == c["cfg"]["mode"] and o["configText"] != c["configText"]:
                    c["priorConfigText"], c["rerunAfterPrior"] = o["configText"], True
                    break
    if not any(c["rerunAfterPrior"] for c in cases):
        raise vlib.ToolError("C14: no project is regenerated over the outputs of another configuration (vacuous)")
    vlib.write_ndjson(ctx.path("cases.ndjson"), cases)
    vlib.run_harness(["exports", vlib.CLI_BIN, ctx.path("cases.ndjson"), ctx.path("events.ndjson"), ctx.path("proj"), "12"], timeout=3000)
    events = vlib.read_ndjson(ctx.path("events.ndjson"))
    o = vlib.validate_trace("Trace_C14", "Trace_C14.cfg", events, workdir=ctx.work, timeout=2400)
    res.add_trace(o)
    stats = [s for s in o.stats if "exports" in s]
    res.traces = o.events
    res.evaluations = o.events
    res.distinct_nontrivial = sum(1 for s in stats if s["exports"] + s["defaults"] > 0)
    res.exhaustive = True
    res.rule = ("Spec->impl: Gen_C14 enumerates the full product of mode x defaultExportForOperation x capitalizeOperationNames x "
                "{query,mutation,subscription,fragment}VariableSuffix in {unset,'','Doc'} (x exported result/variables types in "
                "thorough): %d configurations, each applied to %d operation-file shapes (named / anonymous / two operations / "
                "operation + lower- and upper-case fragments / fragments only / imported fragment / subscription / an operation and a local or imported fragment with the same name / file names with several dots). The real CLI "
                "writes the declaration files, the real loader ABI emits the module from the same configuration text (every second time on an instance "
                "that loaded another configuration and emitted under it before, the task overlapping with two tasks of other files); impl->spec: "
                "Trace_C14 evaluates Exports!ExportItems (names subset, default present, same definition - via the source-map "
                "segment of the declaring identifier, or the embedded document in standalone mode). Non-trivial = event with at "
                "least one declared value export or default export." % (len(cfgs), len(sh)))
    res.samples = [events[0]["cfg"], {"shape": events[3]["shape"], "js_exports": [c["name"] for c in events[3]["js"].get("consts", [])]}]
    res.extra.update({"configurations": len(cfgs), "shapes": len(sh),
                      "declared_value_exports_checked": sum(s["exports"] for s in stats),
                      "default_exports_checked": sum(s["defaults"] for s in stats),
                      "exports_whose_definition_could_not_be_determined": sum(s["undetermined"] for s in stats),
                      "trace_action_coverage": o.coverage})
    res.assumptions = ["anonymous operation with an empty queryVariableSuffix is excluded (no identifier exists on either side)",
                       "the TS-subset reader and the JS module reader are faithful structural maps",
                       "which definition a declared constant denotes is read from the source map segment at its identifier "
                       "(the artefact an editor uses) or from the embedded document"]
