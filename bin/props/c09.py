"""C09 — Variables types admit only coercible inputs and every explicit one (Trace_C09 over SchemaDecl.tla / TsTypes.tla)."""
import copy, json, vlib, tsgen as TG, schemagen as SG, docgen as G
from props import c10

N, L, NN = G.named, G.lst, G.nn


def make_case(ctx, i):
    r = ctx.rng
    base = c10.make_case(ctx, i)          # schema + scalar configuration + option, as for C10
    cfg = json.loads(base["configText"])
    gen = cfg["extensions"]["nitrogql"]["generate"]
    gen.pop("resolversOutput", None)
    base["want"] = {"resolvers": False}
    # variable definitions over every input type of the schema, every wrapper pattern, with / without default
    items = [it for f in base["schemaFiles"] for it in f["items"]]
    tg = TG.TsGen(r)
    # literals (default values) need the MERGED enums / input objects: extensions may precede their originals
    from props import c01
    tg.types = {d["name"]: d for d in c01.merged_defs(base["schemaFiles"]) if d["k"] in ("scalar", "enum", "input")}
    names = TG.BUILTIN + sorted(tg.types)
    nvars = 1 + r.below(4)
    vars_, args, argdefs = [], [], []
    for k in range(nvars):
        ty = tg.wrap(r.choice(names))
        default = None
        if r.chance(1, 3):
            default = tg.lit(ty, 0)
        vname = "v%d" % k
        vars_.append(G.vardef(vname, ty, default))
        # the probe argument has the variable's type (or its nullable version: a non-null variable may flow into a nullable position)
        aty = ty["of"] if ty["k"] == "nn" and r.chance(1, 3) else ty
        argdefs.append(SG.ival("a%d" % k, aty))
        args.append(G.arg("a%d" % k, G.v_var(vname)))
    # add the probe field to the query root (the first file that holds the root's original definition)
    root = "Q" if any(it["k"] == "schema" for it in items) else "Query"
    for f in base["schemaFiles"]:
        for it in f["items"]:
            if it["k"] == "object" and it["name"] == root and not it["ext"]:
                it["fields"].append(SG.fdef("probe", N("Int"), argdefs))
    op_name = r.choice(["Q", "getThing", "Probe_1"])
    op = G.op(op_name, [G.field("probe", args=args)], "query", vars_)
    base["opFiles"] = [{"path": ["ops", "q.graphql"], "doc": {"defs": [op]}}]
    suffix = r.choice([None, "Vars", ""])
    if suffix is not None and suffix != "":
        gen.setdefault("name", {})["variablesTypeSuffix"] = suffix
    # documented naming: operation name with its first letter capitalised (default capitalizeOperationNames) + suffix
    base["variablesTypeName"] = op_name[0].upper() + op_name[1:] + (suffix if suffix else "Variables")
    if r.chance(1, 2):
        gen.setdefault("export", {})["variablesType"] = True
    if r.chance(1, 3):
        gen["mode"] = r.choice(["with-loader-ts-4.0", "standalone-ts-4.0"])
    base["mode"] = gen.get("mode", "with-loader-ts-5.0")
    base["configText"] = json.dumps(cfg)
    base["id"] = "v%d" % i
    return base


def run(ctx, res):
    vlib.build_harness()
    vlib.build_cli()
    n = 60 if ctx.quick else 1500
    cases = [make_case(ctx, i) for i in range(n)]
    vlib.write_ndjson(ctx.path("cases.ndjson"), cases)
    vlib.run_harness(["typegen", vlib.CLI_BIN, ctx.path("cases.ndjson"), ctx.path("events.ndjson"), ctx.path("proj"), "12"], timeout=3000)
    events = vlib.read_ndjson(ctx.path("events.ndjson"))
    o = vlib.validate_trace("Trace_C09", "Trace_C09.cfg", events, workdir=ctx.work, timeout=3000, xmx="3g")
    res.add_trace(o)
    ok = [s for s in o.stats if s.get("ok")]
    res.traces = o.events
    res.evaluations = o.events
    res.distinct_nontrivial = len({json.dumps(e["opFiles"], sort_keys=True) for e in events})
    res.rule = ("%d seeded cases: a valid schema (tsgen) under a scalar configuration of every form and allowUndefinedAsOptionalInput on/off, "
                "plus one operation declaring 1-4 variables over every input type of the schema (built-in and custom scalars, enums, input objects "
                "referring to input objects) under every wrapper pattern to list depth 3, with and without default values; the real CLI generates "
                "the declarations in one of the three modes; TLC compares the Variables type with variable coercion (upper bound) and with the "
                "explicit assignments (lower bound) on canonical assignments and all one-position perturbations, and judges every "
                "__OperationInput alias as in C10. Non-trivial = distinct operation." % len(cases))
    res.samples = [{"operation": events[0]["opFiles"][0]["doc"]["defs"][0]["vars"], "allowUndefined": events[0]["cfg"], "scalars": events[0]["scalars"]}]
    res.extra.update({"cases": len(cases), "cases_fully_conforming": len(ok), "variables_checked": sum(s["vars"] for s in o.stats),
                      "outcomes": {"panicked": sum(1 for e in events if e["panicked"]), "exit_nonzero": sum(1 for e in events if e["exit"] != 0)},
                      "modes": {m: sum(1 for e in events if e["mode"] == m) for m in {e["mode"] for e in events}},
                      "trace_action_coverage": o.coverage})
    res.assumptions = ["denotation of the emitted TypeScript subset as defined in TsTypes.tla (no TypeScript compiler is available offline)",
                       "one-level abstraction for input objects: the Variables type is judged together with every __OperationInput alias"]


def selftest(ctx):
    """Binding demonstration: corrupt the recorded Variables type (required -> optional; `| null` dropped); both must be rejected."""
    import copy
    vlib.build_harness()
    vlib.build_cli()
    cases = [make_case(ctx, i) for i in range(12)]
    vlib.write_ndjson(ctx.path("cases.ndjson"), cases)
    vlib.run_harness(["typegen", vlib.CLI_BIN, ctx.path("cases.ndjson"), ctx.path("events.ndjson"), ctx.path("proj"), "4"])
    muts = []
    for e in vlib.read_ndjson(ctx.path("events.ndjson")):
        vt = [st for st in e["opTs"][0]["stmts"] if st["k"] == "type" and st["name"] == e["variablesTypeName"]]
        if not vt:
            continue
        a = copy.deepcopy(e)
        st = [x for x in a["opTs"][0]["stmts"] if x["k"] == "type" and x["name"] == e["variablesTypeName"]][0]
        required = {v["name"] for v in e["opFiles"][0]["doc"]["defs"][0]["vars"] if v["type"]["k"] == "nn" and not v["hasDefault"]}
        if len(muts) == 0 and required and c10.corrupt_first([st], lambda t: t["k"] == "obj" and any(f["key"] in required for f in t["fs"]),
                                                lambda t: [f for f in t["fs"] if f["key"] in required][0].__setitem__("opt", True)):
            a["id"] = "mut-optional"
            muts.append(a)
            continue
        if len(muts) == 1 and c10.corrupt_first([st], lambda t: t["k"] == "union" and any(x["k"] == "kw" and x["n"] == "null" for x in t["ts"]),
                                                lambda t: t.__setitem__("ts", [x for x in t["ts"] if not (x["k"] == "kw" and x["n"] in ("null", "undefined"))] * 2)):
            a["id"] = "mut-nonnull"
            muts.append(a)
    o = vlib.validate_trace("Trace_C09", "Trace_C09.cfg", muts, workdir=ctx.work, nshards=1)
    got = {(i["id"], i["cls"]) for i in o.items}
    ok = len(muts) == 2 and ("mut-optional", "variables-too-loose") in got and ("mut-nonnull", "variables-too-strict") in got
    print("SELFTEST C09: %d corrupted Variables types, items %s -> %s" % (len(muts), sorted(got), "ok" if ok else "FAILED"))
    ctx.cleanup()
    return 0 if ok else 2
