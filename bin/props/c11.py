"""C11 — schema extensions merge into their definitions without loss or invention (ExtMerge.tla)."""
import json, vlib

BKS = [("schema", ""), ("scalar", "A"), ("object", "A"), ("object", "B"), ("interface", "A"), ("union", "A"),
       ("enum", "A"), ("input", "A"), ("scalar", "B"), ("enum", "B"), ("union", "B"), ("input", "B"), ("interface", "B")]
HAS = {"dirs": None, "ops": ["schema"], "interfaces": ["object", "interface"], "fields": ["object", "interface"],
       "members": ["union"], "values": ["enum"], "inputFields": ["input"]}
PRE = {"dirs": "d", "interfaces": "I", "fields": "f", "members": "M", "values": "V", "inputFields": "g"}


def rand_case(rng):
    n = 2 + rng.below(7)
    nfiles = 1 + rng.below(3)
    items, file = [], 1
    for i in range(1, n + 1):
        if file < nfiles and rng.chance(1, 3):
            file += 1
        if rng.chance(1, 12):
            items.append({"k": "directive", "name": rng.choice(["A", "B"]), "ext": False, "id": i, "file": file, "dirs": [],
                          "interfaces": [], "fields": [], "members": [], "values": [], "inputFields": [], "ops": []})
            continue
        k, name = rng.choice(BKS[:8] if rng.chance(2, 3) else BKS)
        ext = rng.chance(3, 5)
        it = {"k": k, "name": name, "ext": ext, "id": i, "file": file}
        present = []
        for comp, kinds in HAS.items():
            if comp == "ops":
                continue
            ok = kinds is None or k in kinds
            cnt = rng.below(3) if ok else 0
            it[comp] = ["%s%d_%d" % (PRE[comp], i, j) for j in range(cnt)]
            if cnt:
                present.append(comp)
        it["ops"] = [[["query", "mutation", "subscription"][(i + j) % 3], "Q%d_%d" % (i, j)] for j in range(rng.below(3))] \
            if k == "schema" else []
        if it["ops"]:
            present.append("ops")
        # grammar: an extension must carry at least one component; a schema definition needs operations;
        # object-like definitions are rendered without a body when they have no fields (legal)
        if ext and not present:
            it["dirs"] = ["d%d_x" % i]
        if k == "schema" and not ext and not it["ops"]:
            it["ops"] = [["query", "Q%d_x" % i]]
        # nitrogql's grammar (unlike the spec's) rejects `union A` without members and `type A` with nothing
        # after the name; those are C07's business, so this generator stays inside what parses
        if k == "union" and not ext and not it["members"]:
            it["members"] = ["M%d_x" % i]
        if k == "object" and not ext and not (it["fields"] or it["dirs"]):
            it["fields"] = ["f%d_x" % i]
        items.append(it)
    return {"items": items}


def run(ctx, res):
    vlib.build_harness()
    mc = vlib.tlc("ExtMergeAlgo", "MC_ExtMergeAlgo.cfg" if ctx.quick else "MC_ExtMergeAlgo_thorough.cfg", workdir=ctx.work,
                  workers=8, timeout=1500, xmx="6g")
    res.add_tlc(mc)
    g = vlib.tlc("Gen_C11", "Gen_C11_quick.cfg" if ctx.quick else "Gen_C11_thorough.cfg", workdir=ctx.work, workers=8,
                 timeout=2400, xmx="8g")
    res.add_tlc(g)
    cases = [c for c in g.tagged("CASE") if c["items"]]
    ngen = len(cases)
    nrand = 5000 if ctx.quick else 150000
    for _ in range(nrand):
        cases.append(rand_case(ctx.rng))
    vlib.write_ndjson(ctx.path("cases.ndjson"), cases)
    vlib.run_harness(["extmerge", ctx.path("cases.ndjson"), ctx.path("events.ndjson")])
    events = vlib.read_ndjson(ctx.path("events.ndjson"))
    kept = [e for e in events if e["out"]["k"] != "discard"]
    discards = len(events) - len(kept)
    if discards:
        vlib.log("discarded %d cases, e.g. %s" % (discards, json.dumps([e for e in events if e["out"]["k"] == "discard"][0]["out"])[:300]))
    if discards > 0.2 * len(events):
        raise vlib.ToolError("too many discarded cases: %d of %d" % (discards, len(events)))
    o = vlib.validate_trace("Trace_C11", "Trace_C11.cfg", kept, workdir=ctx.work, timeout=2400)
    res.add_trace(o)
    res.traces = o.events
    res.evaluations = o.events
    res.distinct_nontrivial = len({json.dumps(e["items"], sort_keys=True) for e in kept if any(i["ext"] for i in e["items"])})
    res.exhaustive = True
    res.rule = ("Spec->impl: Gen_C11's builder state graph = every sequence of <= %d definitions/extensions over all 7 "
                "kinds (two object names) + directive definitions, every split over <= %d files, each item carrying uniquely "
                "named directives/interfaces/fields/members/values/operations; rendered to SDL, parsed per file, merged and "
                "resolved by the real code; impl->spec: Trace_C11 judges the result by ExtMerge!ResolveContract. Plus %d "
                "seeded random documents (<= 8 items, <= 3 files, 0-2 elements per component). Non-trivial = distinct "
                "document with at least one extension." % ((3, 2, nrand) if ctx.quick else (4, 3, nrand)))
    res.samples = [kept[5], kept[len(kept) // 2], kept[-1]]
    res.extra.update({"tlc_generated_cases": ngen, "random_cases": nrand, "discarded_cases": discards,
                      "outcomes": {k: sum(1 for e in kept if e["out"]["k"] == k) for k in ("ok", "err", "panic")},
                      "mc_extmergealgo_distinct_states": mc.distinct, "trace_action_coverage": o.coverage})
    res.assumptions = ["an item's identity in the output is read from the line its position is on (one item per line)",
                       "definition order in the result is not judged (property: up to definition order)"]


def selftest(ctx):
    vlib.build_harness()
    cases = [rand_case(ctx.rng) for _ in range(300)]
    vlib.write_ndjson(ctx.path("cases.ndjson"), cases)
    vlib.run_harness(["extmerge", ctx.path("cases.ndjson"), ctx.path("events.ndjson")])
    events = [e for e in vlib.read_ndjson(ctx.path("events.ndjson")) if e["out"]["k"] != "discard"]
    bad = []
    for e in events:
        b = json.loads(json.dumps(e))
        if e["out"]["k"] == "ok" and len(bad) == 0:
            ds = [d for d in b["out"]["defs"] if d["k"] != "directive" and d["dirs"]]
            if ds:
                ds[0]["dirs"].pop(); bad.append(b)               # a directive lost
        elif e["out"]["k"] == "err" and len(bad) == 1:
            b["out"]["at"] = 0; bad.append(b)                    # diagnostic points nowhere
        elif e["out"]["k"] == "err" and len(bad) == 2:
            b["out"] = {"k": "ok", "defs": []}; bad.append(b)    # failure missed
    o = vlib.validate_trace("Trace_C11", "Trace_C11.cfg", bad, workdir=ctx.work, nshards=1)
    ok = len(bad) == 3 and len(o.items) == 3
    print("SELFTEST C11: %d corrupted events, %d rejected (%s) -> %s" %
          (len(bad), len(o.items), ",".join(i["cls"] for i in o.items), "ok" if ok else "FAILED"))
    ctx.cleanup()
    return 0 if ok else 2
