"""C06 — emitted source maps are valid and point at the defining GraphQL tokens (Trace_C06 over SourceMap.tla / SourceMapCheck.tla)."""
import copy, json, vlib, tsgen as TG, schemagen as SG, docgen as G, execgen as EG
from props import c10, c01

MODES = ["with-loader-ts-5.0", "with-loader-ts-4.0", "standalone-ts-4.0"]


def decl_rel(rel, mode):
    stem = rel[:-len(".graphql")]
    return {"with-loader-ts-4.0": stem + ".graphql.d.ts", "standalone-ts-4.0": stem + ".graphql.ts"}.get(mode, stem + ".d.graphql.ts")


def plain_descriptions(m, rng):
    for d in m["defs"]:
        if d["k"] != "directive" and not d.get("ext") and rng.chance(1, 3):
            d["desc"] = SG.desc("about " + (d.get("name") or "schema"), rng.chance(1, 4))
        for f in d.get("fields", []):
            if rng.chance(1, 5):
                f["desc"] = SG.desc("field " + f["name"])
    return m


def make_case(ctx, i):
    r = ctx.rng
    m = plain_descriptions(TG.TsGen(r).schema(), r)
    scalar_cfg, scalar_texts = {}, {}
    for d in m["defs"]:
        if d["k"] == "scalar":
            scalar_cfg[d["name"]] = "string"
            scalar_texts[d["name"]] = dict(ri="string", ro="string", oi="string", oo="string")
    if r.chance(1, 2):
        # a schema type whose name also occurs as an identifier in a scalar's TypeScript text is declared under a local name
        # (`__tmp_Record`, exported as `Record`): pick a union member (else any object) for it; its map segments must still carry the
        # SOURCE identifier
        scal = [d for d in m["defs"] if d["k"] == "scalar"]
        members = [x["n"] for d in m["defs"] if d["k"] == "union" for x in d["members"]]
        objs = [d["name"] for d in m["defs"] if d["k"] == "object" and d["name"] not in ("Query", "Mutation", "Subscription", "Q", "M")]
        pool = [n for n in members if n in objs] or objs
        if scal and pool:
            TG.rename_type(m, r.choice(pool), "Record")
            scalar_cfg[scal[0]["name"]] = "Record<string, unknown>"
            scalar_texts[scal[0]["name"]] = dict(ri="Record<string, unknown>", ro="Record<string, unknown>", oi="Record<string, unknown>", oo="Record<string, unknown>")
    mode = MODES[i % 3]
    layout = i % 6
    # (the last two: an output directory whose NAME is a proper string prefix of an input directory's name - "sch" / "schema", "op" / "ops")
    schema_out = ["./gen/schema.d.ts", "./schema/types.d.ts", "./out/deep/er/s.d.ts", "./schema.d.ts", "./sch/t.d.ts", "./op/s.d.ts"][layout]
    gen = {"schemaOutput": schema_out, "mode": mode, "type": {"scalarTypes": scalar_cfg}}
    if r.chance(1, 2):
        gen["resolversOutput"] = ["./gen/resolvers.d.ts", "./out/r.d.ts"][r.below(2)]
    files = TG.split_files(m, r, 1 + r.below(3))
    for f in files:
        f["path"] = f["path"][1:]
    # every fifth project keeps its schema files in a directory whose name has a combining mark / non-Latin letters with marks (the `sources`
    # of a map are JSON strings: such names must come out as well-formed JSON that resolves to the files)
    schema_dir = ["schema", "schema", "sche\u0301ma", "schema", "\u0e2a\u0e04\u0e35\u0e21\u0e32"][i % 5]
    for f in files:
        f["path"] = [schema_dir] + f["path"][1:]
    # operations: a root file, optionally importing a fragment file which may import a third
    defs = c01.merged_defs(files)
    eg = EG.ExecGen(defs, r)
    doc = eg.document(1 + r.below(3))
    frs = [x for x in doc["defs"] if x["k"] == "frag"]
    # non-ASCII text inside the documents (a string argument of the repeatable @mark directive on a field of every fragment and of the
    # operation): in standalone mode the runtime document is printed on the same generated line as mapped identifiers
    for x in doc["defs"]:
        fld = next((sel for sel in x["sel"] if sel["k"] == "field"), None)
        if fld is not None and r.chance(2, 3):
            fld["dirs"] = fld["dirs"] + [G.directive("mark", [G.arg("s", G.v_str(r.choice(["\u65e5\u672c\u8a9e \U0001F389", "caf\u00e9 \u00fc", "plain"])))])]
    op_files = [{"path": ["ops", "q.graphql"], "doc": doc}]
    imported = []
    if frs and r.chance(2, 3):
        # move the LAST fragments (they spread nothing that stays behind) into imported files
        moved = frs[-1:]
        rest = {"defs": [G.imp([".", "lib", "f.graphql"], None if r.chance(1, 3) else [x["name"] for x in moved])] + [x for x in doc["defs"] if x not in moved]}
        op_files = [{"path": ["ops", "q.graphql"], "doc": rest}, {"path": ["ops", "lib", "f.graphql"], "doc": {"defs": moved}}]
        imported = [(x["name"], ["ops", "lib", "f.graphql"]) for x in moved]
        if len(frs) >= 2 and r.chance(1, 2):
            moved2 = frs[-2:-1]
            # the second-to-last fragment may spread the last one: its file imports it
            rest["defs"] = [G.imp([".", "g.graphql"], [x["name"] for x in moved2])] + [x for x in rest["defs"] if x not in moved2]
            op_files.append({"path": ["ops", "g.graphql"], "doc": {"defs": [G.imp([".", "lib", "f.graphql"], None)] + moved2}})
            imported += [(x["name"], ["ops", "g.graphql"]) for x in moved2]
    if i % 2 == 0:
        # a file of its own with an ANONYMOUS query, with the `query` keyword or in the shorthand form `{ ... }` (no keyword to map to)
        anon = G.op(None, [G.field("__typename")], "query")
        if i % 4 == 0:
            anon["shorthand"] = True
        op_files.append({"path": ["ops", "anon.graphql"], "doc": {"defs": [anon]}})
    config = {"schema": "./%s/*.graphql" % schema_dir, "documents": ["./ops/*.graphql", "./ops/lib/*.graphql"], "extensions": {"nitrogql": {"generate": gen}}}
    if i % 3 == 1:
        # a plugin contributes a virtual schema file that sits between the schema files and the operation files in load order
        config["extensions"]["nitrogql"]["plugins"] = ["nitrogql:model-plugin"]
    cap = lambda s: s[:1].upper() + s[1:]
    expect_ops = []
    for f in op_files:
        rel = "/".join(f["path"])
        ds = []
        own = [x for x in f["doc"]["defs"] if x["k"] in ("op", "frag")]
        names_here = {x["name"] for x in own}
        for x in own:
            if x["k"] == "op":
                suffix = {"query": "Query", "mutation": "Mutation", "subscription": "Subscription"}[x["opType"]]
                ds.append({"k": "op", "name": x["name"], "idents": [cap(x["name"]) + "Result", cap(x["name"]) + "Variables", cap(x["name"]) + suffix]})
            else:
                ds.append({"k": "frag", "name": x["name"], "idents": [x["name"]]})
        if f is op_files[0]:
            for n, _ in imported:
                if n not in names_here:
                    ds.append({"k": "frag", "name": n, "idents": [n]})
        expect_ops.append({"gen": [c for c in decl_rel(rel, mode).split("/")], "defs": ds})
    return {"id": "m%d" % i, "schemaFiles": files, "opFiles": op_files, "configText": json.dumps(config), "scalarTexts": scalar_texts,
            "cfg": {"allowUndefined": True, "mode": mode, "layout": layout}, "want": {"resolvers": False, "maps": True},
            "schemaOutRel": "/".join(c for c in schema_out.split("/") if c not in (".", "")),
            "expect": {"schemaGen": [c for c in schema_out.split("/") if c not in (".", "")], "ops": expect_ops}}


def vlq_cases(ctx):
    lim = 1 << (12 if ctx.quick else 18)
    blocks, cur = [], []
    for n in range(-lim, lim + 1):
        cur.append(n)
        if len(cur) == 4096:
            blocks.append(cur)
            cur = []
    if not ctx.quick:
        # the rest of the property's range [-2^22, 2^22], every 13th number (all of it would be 8.4 M numbers)
        for n in range(lim + 1, (1 << 22) + 1, 13):
            for m in (n, -n):
                cur.append(m)
                if len(cur) == 4096:
                    blocks.append(cur)
                    cur = []
    boundary = [b + d for b in (15, 16, 511, 512, 16383, 16384, 524287, 524288, 16777215, 16777216, 536870911, 536870912, (1 << 30) - 1) for d in (-1, 0, 1)]
    cur += boundary + [-x for x in boundary]
    blocks.append(cur)
    for _ in range(2000 if ctx.quick else 100000):
        blocks[-1].append(ctx.rng.below(1 << 30) - (1 << 29))
    out = [{"id": "vlq%d" % i, "nums": b} for i, b in enumerate(blocks)]
    # the isize boundaries and their neighbourhood (64-bit), powers of two around every digit boundary beyond 32 bits: judged digit-wise (TVlqBig)
    big = []
    for k in list(range(30, 64)):
        for d in (-1, 0, 1):
            for sgn in (1, -1):
                n = sgn * ((1 << k) + d)
                if -(1 << 63) <= n <= (1 << 63) - 1:
                    big.append(str(n))
    big += [str(-(1 << 63)), str(-(1 << 63) + 1), str((1 << 63) - 1), str((1 << 63) - 2), "0", "1", "-1", "15", "16", "-16"]
    out.append({"id": "vlqbig", "big": sorted(set(big), key=int)})
    return out


def run(ctx, res):
    vlib.build_harness()
    vlib.build_cli()
    n = 36 if ctx.quick else 600
    cases = [make_case(ctx, i) for i in range(n)]
    vlib.write_ndjson(ctx.path("cases.ndjson"), cases)
    vlib.run_harness(["typegen", vlib.CLI_BIN, ctx.path("cases.ndjson"), ctx.path("events.ndjson"), ctx.path("proj"), "12"], timeout=3000)
    events = vlib.read_ndjson(ctx.path("events.ndjson"))
    for e in events:
        for k in ("scalars", "scalarTexts", "resolversTs"):
            e.pop(k, None)
    vc = vlq_cases(ctx)
    vlib.write_ndjson(ctx.path("vlq_cases.ndjson"), vc)
    vlib.run_harness(["vlq", ctx.path("vlq_cases.ndjson"), ctx.path("vlq_events.ndjson")])
    events += vlib.read_ndjson(ctx.path("vlq_events.ndjson"))
    # the writer state machine: design-level model check, then its call sequences replayed into the real SourceWriter
    mc = vlib.tlc("MC_MappingWriterAlgo", "MC_MappingWriterAlgo.cfg", workdir=ctx.work, workers=8, timeout=1500, xmx="6g")
    res.add_tlc(mc)
    g = vlib.tlc("MC_MappingWriterAlgo", "Gen_C06_quick.cfg" if ctx.quick else "Gen_C06_thorough.cfg", workdir=ctx.work, workers=8, timeout=1500, xmx="6g")
    res.add_tlc(g)
    wcases = g.tagged("CASE")
    vlib.write_ndjson(ctx.path("writer_cases.ndjson"), wcases)
    vlib.run_harness(["srcwriter", ctx.path("writer_cases.ndjson"), ctx.path("writer_events.ndjson")])
    light = vlib.read_ndjson(ctx.path("writer_events.ndjson"))
    # spread the heavy project events evenly among the many light ones, so that no validator shard gets all of them
    heavy, events = events, []
    step = max(1, len(light) // max(1, len(heavy)))
    for i, h in enumerate(heavy):
        events.append(h)
        events.extend(light[i * step:(i + 1) * step])
    events.extend(light[len(heavy) * step:])
    o = vlib.validate_trace("Trace_C06", "Trace_C06.cfg", events, workdir=ctx.work, timeout=3000, xmx="3g")
    res.add_trace(o)
    proj = [s for s in o.stats if "maps" in s]
    res.traces = o.events
    res.evaluations = o.events
    wstats = [s for s in o.stats if "writer" in s]
    res.distinct_nontrivial = len(cases) + len(vc) + sum(1 for s in wstats if s["writer"] == "judged")
    res.rule = ("%d seeded projects: valid schema (tsgen) split over 1-3 files, a root operation file with merge-heavy selections and 1-3 fragments, "
                "optionally importing fragment files (one of them transitively), x the three generate modes x six output layouts (outputs above / "
                "below / beside the inputs, resolvers output on/off); the real CLI writes every declaration and map; TLC decodes every map "
                "(base64 VLQ, relative fields) and checks every segment (ordered, inside the generated text, source resolves to an input file, "
                "original position a token start or just past a token, name = the token there or the name of the definition whose keyword is there) and "
                "the coverage clause (every exported alias and field key in every namespace; operations and fragments incl. imported ones). "
                "VLQ clause: the implementation's digits for every integer in [-2^%d, 2^%d], boundary values up to 2^30 and random 30-bit integers "
                "are decoded by SourceMap.tla and must give the integer back. Writer state machine: MappingWriterAlgo.tla (cursor with deferred "
                "indentation, last_* delta state, names table with LRU) is model-checked (decode(emitted stream) = entries added), and every complete "
                "call sequence of the model (write / write_for named, unnamed, built-in / indent / dedent, chunks with and without newlines) is "
                "replayed into the real SourceWriter and judged by the property relation. Non-trivial = distinct project, VLQ block or judged sequence."
                % (len(cases), 12 if ctx.quick else 18, 12 if ctx.quick else 18))
    ev0 = events[0]
    res.samples = [{"gen": ev0["maps"][0]["gen"], "sources": ev0["maps"][0]["map"].get("sourcesRaw"), "names": ev0["maps"][0]["map"].get("names", [])[:6]}] if ev0.get("maps") else [{}]
    res.extra.update({"projects": len(cases), "projects_fully_conforming": sum(1 for s in proj if s["ok"]), "maps_decoded": sum(s["maps"] for s in proj),
                      "segments_checked": sum(s["segments"] for s in proj), "vlq_integers": sum(s["vlq"] for s in o.stats if "vlq" in s),
                      "writer_model_distinct_states": mc.distinct, "writer_sequences_replayed": len(wcases),
                      "writer_sequences": {k: sum(1 for s in wstats if s["writer"] == k) for k in {s["writer"] for s in wstats}},
                      "outcomes": {"panicked": sum(1 for e in events if e.get("panicked")), "exit_nonzero": sum(1 for e in events if e.get("exit", 0) != 0)},
                      "trace_action_coverage": o.coverage})
    res.assumptions = ["token tables and definition headers of the input files are those recorded by the renderer that wrote them (ASCII inputs, so "
                       "code-point and UTF-16 columns coincide)",
                       "TLC integers are 32-bit: the VLQ clause is checked up to |n| < 2^30, not at the isize boundary",
                       "coverage for an operation / fragment: at least one of its declaring identifiers (result type, variables type, document constant) is mapped"]


def selftest(ctx):
    """Binding demonstration: corrupt one base64 digit of a recorded mappings string / one sources entry / one VLQ digit; each must be rejected."""
    import copy
    vlib.build_harness()
    vlib.build_cli()
    c = make_case(ctx, 0)
    vlib.write_ndjson(ctx.path("cases.ndjson"), [c])
    vlib.run_harness(["typegen", vlib.CLI_BIN, ctx.path("cases.ndjson"), ctx.path("events.ndjson"), ctx.path("proj"), "1"])
    e = vlib.read_ndjson(ctx.path("events.ndjson"))[0]
    for k in ("scalars", "scalarTexts", "resolversTs"):
        e.pop(k, None)
    a = copy.deepcopy(e)
    mp = a["maps"][0]["map"]["mappings"]
    # the first 4-digit segment (all fields single digits): its original-column delta gets +1, so it and the segments after it on that
    # source line point one column past their tokens
    B64 = "ABCDEFGHIJKLMNOPQRSTUVWXYZabcdefghijklmnopqrstuvwxyz0123456789+/"
    start = 0
    for k in range(len(mp) + 1):
        if k == len(mp) or mp[k] in (44, 59):
            seg = mp[start:k]
            if len(seg) == 4 and all(B64.index(chr(c)) < 32 for c in seg) and B64.index(chr(seg[3])) % 2 == 0 and B64.index(chr(seg[3])) < 28:
                mp[start + 3] = ord(B64[B64.index(chr(seg[3])) + 2])
                break
            start = k + 1
    a["id"] = "mut-mappings"
    b = copy.deepcopy(e)
    b["maps"][0]["map"]["sources"][0] = ["nowhere", "x.graphql"]
    b["id"] = "mut-sources"
    v = {"ev": "Vlq", "id": "mut-vlq", "nums": [5, 100], "digits": [[75], [111, 71]]}      # 100 is "oG"; "oH" would be 116
    v["digits"][1][1] = 72
    o = vlib.validate_trace("Trace_C06", "Trace_C06.cfg", [a, b, v], workdir=ctx.work, nshards=1)
    rejected = {i["id"] for i in o.items}
    ok = rejected == {"mut-mappings", "mut-sources", "mut-vlq"}
    print("SELFTEST C06: 3 corrupted records, rejected %s -> %s" % (sorted(rejected), "ok" if ok else "FAILED"))
    ctx.cleanup()
    return 0 if ok else 2
