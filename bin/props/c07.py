"""C07 — parsing yields the document the text denotes, with true positions (Lexer.tla, Syntax.tla)."""
import json, vlib, docgen as G


def cp(s):
    return [ord(c) for c in s]


def sraw(raw, value, block=False):
    """string literal written as `raw`, denoting `value` (the TLA+ lexer re-derives the value; a wrong pair is discarded)"""
    return {"k": "string", "cp": cp(value), "block": block, "raw": cp(raw)}


def desc(raw=None, value=None, block=False):
    if raw is None:
        return {"has": False, "cp": [], "block": False}
    return {"has": True, "cp": cp(value), "block": block, "raw": cp(raw)}


NODESC = desc()

STRINGS = [
    ('""', ""), ('"a"', "a"), ('"a b,c#d"', "a b,c#d"), ('"\\""', '"'), ('"\\\\"', "\\"), ('"\\/"', "/"), ('"\\b\\f\\n\\r\\t"', "\b\f\n\r\t"),
    ('"\\u0041\\u00e9"', "Aé"), ('"\\u{41}"', "A"), ('"\\u{1F600}"', "\U0001F600"), ('"\\uD83D\\uDE00"', "\U0001F600"),
    # characters that may stand RAW inside a quoted string: a horizontal tab (the one control character that is a SourceCharacter besides
    # the line terminators), DEL, no-break space, the Unicode line / paragraph separators (no line terminators in GraphQL)
    ('"col1\tcol2"', "col1\tcol2"), ('"\t"', "\t"), ('"a\x7fb"', "a\x7fb"), ('"nb\u00a0sp"', "nb\u00a0sp"), ('"ls\u2028ps\u2029x"', "ls\u2028ps\u2029x"),
    ('"é中\U0001F600"', "é中\U0001F600"), ('"\\u{0}x"', "\x00x"), ('"\\u{10FFFF}"', "\U0010FFFF"), ('"{}[]()$@!|&=:..."', "{}[]()$@!|&=:..."),
]
BLOCKS = [
    ('"""abc"""', "abc"), ('""""""', ""), ('"""a"b""c"""', 'a"b""c'), ('"""x \\""" y"""', 'x """ y'),
    ('"""\n    Hello,\n      World!\n\n    Yours,\n      GraphQL.\n  """', "Hello,\n  World!\n\nYours,\n  GraphQL."),
    ('"""\n\n  a\n  b\n\n"""', "a\nb"), ('"""  lead\n  next"""', "  lead\nnext"), ('"""a\r\n  b\r  c"""', "a\nb\nc"),
    ('"""\\n not an escape \\u0041"""', "\\n not an escape \\u0041"), ('"""\t\ttabbed\n\t\t  more"""', "\t\ttabbed\nmore"),
    ('"""   """', ""), ('"""\n"""', ""), ('"""é中"""', "é中"),
]
INTS = ["0", "-0", "7", "123456789", "-42"]
FLOATS = ["1.0", "-1.5", "0.0", "1e5", "1E5", "1e+5", "1e-5", "6.0221413e23", "-0.5E-10", "12.50"]


def ival(ty, default=None, dirs=None, d=None, name="x"):
    return {"name": name, "desc": d or NODESC, "type": ty, "hasDefault": default is not None,
            "default": default or {"k": "null"}, "dirs": dirs or []}


def tdef(k, name, ext=False, d=None, dirs=None, interfaces=None, fields=None, members=None, values=None, input_fields=None, **flags):
    r = {"k": k, "ext": ext, "name": name, "desc": d or NODESC, "dirs": dirs or [],
         "interfaces": [{"n": n} for n in (interfaces or [])], "fields": fields or [],
         "members": [{"n": n} for n in (members or [])], "values": values or [], "inputFields": input_fields or []}
    r.update(flags)
    return r


def fdef(name, ty, args=None, dirs=None, d=None):
    return {"name": name, "desc": d or NODESC, "args": args or [], "type": ty, "dirs": dirs or []}


def evalue(name, dirs=None, d=None):
    return {"name": name, "desc": d or NODESC, "dirs": dirs or []}


def schema_def(ops, ext=False, dirs=None, d=None):
    return {"k": "schema", "ext": ext, "desc": d or NODESC, "dirs": dirs or [], "ops": [{"op": o, "type": t} for o, t in ops]}


def dirdef(name, locations, args=None, repeatable=False, d=None, **flags):
    r = {"k": "directive", "name": name, "desc": d or NODESC, "args": args or [], "repeatable": repeatable,
         "locations": [{"n": n} for n in locations]}
    r.update(flags)
    return r


N, L, NN = G.named, G.lst, G.nn
ALL_VALUES = [G.v_int("1"), {"k": "float", "v": "2.5"}, G.v_str("s"), {"k": "bool", "v": True}, {"k": "bool", "v": False},
              {"k": "null"}, {"k": "enum", "v": "RED"}, {"k": "list", "vs": []},
              {"k": "list", "vs": [G.v_int("1"), {"k": "list", "vs": [G.v_int("2")]}]}, {"k": "object", "fs": []},
              {"k": "object", "fs": [{"name": "a", "v": G.v_int("1")}, {"k": "x", "name": "b", "v": {"k": "object", "fs": [{"name": "c", "v": G.v_var("v")}]}}]},
              G.v_var("v"),
              # names that merely BEGIN like the keywords true / false / null are names (enum values), alone and next to each other in a list
              {"k": "enum", "v": "trueColor"}, {"k": "enum", "v": "falsey"}, {"k": "enum", "v": "nullable"}, {"k": "enum", "v": "nullx"},
              {"k": "list", "vs": [{"k": "enum", "v": "trueColor"}, {"k": "enum", "v": "nullable"}, {"k": "enum", "v": "falsey"}, {"k": "bool", "v": True}, {"k": "null"}]}]
for _v in ALL_VALUES:
    if _v["k"] == "object":
        for f in _v["fs"]:
            f.pop("k", None)
TYPES = [N("Int"), NN(N("Int")), L(N("Int")), NN(L(N("Int"))), L(NN(N("Int"))), NN(L(NN(N("Int")))), L(L(N("A"))), NN(L(NN(L(NN(N("A"))))))]


def op_catalog():
    docs = []
    docs.append({"defs": [dict(G.op(None, [G.field("a")]), shorthand=True)]})
    docs.append({"defs": [dict(G.op(None, [G.field("a"), G.field("b", "x", None, None, [G.field("c")])]), shorthand=True)]})
    docs.append({"defs": [G.op(None, [G.field("a")])]})
    docs.append({"defs": [G.op("Q", [G.field("a")], "mutation")]})
    docs.append({"defs": [G.op("S", [G.field("a")], "subscription")]})
    # every value kind as an argument and as a default, every type wrapper
    docs.append({"defs": [G.op("Vals", [G.field("f", None, [G.arg("a%d" % i, v) for i, v in enumerate(ALL_VALUES)])],
                               vars_=[G.vardef("v", N("Int"))])]})
    docs.append({"defs": [G.op("Types", [G.field("f")], vars_=[G.vardef("t%d" % i, t) for i, t in enumerate(TYPES)])]})
    docs.append({"defs": [G.op("Defaults", [G.field("f")],
                               vars_=[G.vardef("d%d" % i, N("X"), v) for i, v in enumerate(ALL_VALUES) if v["k"] != "var"])]})
    docs.append({"defs": [G.op("VarDirs", [G.field("f")],
                               vars_=[G.vardef("a", N("Int"), None, [G.directive("d"), G.directive("e", [G.arg("x", G.v_int("1"))])]),
                                      G.vardef("b", NN(N("Int")), None, [G.directive("d")]),
                                      G.vardef("c", N("Int"), G.v_int("3"), [G.directive("d")])],
                               dirs=[G.directive("od", [G.arg("x", G.v_str("y"))]), G.directive("od2")])]})
    docs.append({"defs": [G.op("Sel", [
        G.field("a", "al"), G.field("b", None, [G.arg("x", G.v_int("1"))], [G.directive("skip", [G.arg("if", {"k": "bool", "v": True})])]),
        G.field("c", "cc", [G.arg("y", G.v_var("v"))], [G.directive("d1"), G.directive("d2")], [G.field("d", None, None, None, [G.field("e")])]),
        G.spread("Fr"), G.spread("Fr2", [G.directive("include", [G.arg("if", G.v_var("v"))])]),
        G.inline([G.field("x")]), G.inline([G.field("y")], "T"), G.inline([G.field("z")], None, [G.directive("d")]),
        G.inline([G.field("w"), G.spread("Fr")], "T", [G.directive("d", [G.arg("a", {"k": "null"})])]),
        G.field("__typename"), G.field("on"), G.field("fragment", "query"), G.field("true", "null"),
    ], vars_=[G.vardef("v", NN(N("Boolean")))]),
        G.frag("Fr", [G.field("a")], "T"), G.frag("Fr2", [G.field("b"), G.spread("Fr")], "U", [G.directive("fd", [G.arg("k", {"k": "enum", "v": "E"})])])]})
    docs.append({"defs": [G.op("A", [G.field("a")]), G.op("B", [G.field("b")], "mutation"), G.frag("F", [G.field("c")], "T"),
                          G.op("C", [G.field("c")], "subscription")]})
    for raw, val in STRINGS:
        docs.append({"defs": [G.op("Str", [G.field("f", None, [G.arg("s", sraw(raw, val))])])]})
    for raw, val in BLOCKS:
        docs.append({"defs": [G.op("Blk", [G.field("f", None, [G.arg("s", sraw(raw, val, True)), G.arg("t", G.v_int("1"))])])]})
    docs.append({"defs": [G.op("Nums", [G.field("f", None, [G.arg("i%d" % i, G.v_int(s)) for i, s in enumerate(INTS)]
                                               + [G.arg("f%d" % i, {"k": "float", "v": s}) for i, s in enumerate(FLOATS)])])]})
    # the #import extension
    docs.append({"defs": [G.imp([".", "a.graphql"], None), G.op("I", [G.spread("F")])]})
    docs.append({"defs": [G.imp([".", "a.graphql"], ["F"]), G.imp(["..", "b", "c.graphql"], ["G", "H"]), G.op("I", [G.spread("F")])]})
    return docs


def ts_catalog():
    docs = []
    d1 = desc('"one line"', "one line")
    db = desc('"""\n  Block\n    desc\n  """', "Block\n  desc", True)
    dirs = [G.directive("d"), G.directive("e", [G.arg("x", G.v_int("1")), G.arg("y", G.v_str("z"))])]
    docs.append({"defs": [schema_def([("query", "Q")])]})
    docs.append({"defs": [schema_def([("query", "Q"), ("mutation", "M"), ("subscription", "S")], False, dirs, d1)]})
    docs.append({"defs": [schema_def([("query", "Q")]), schema_def([("mutation", "M")], True), schema_def([], True, dirs),
                          schema_def([("subscription", "S")], True, [G.directive("d")])]})
    docs.append({"defs": [tdef("scalar", "Date"), tdef("scalar", "Url", False, db, dirs), tdef("scalar", "Date", True, None, dirs)]})
    args = [ival(N("Int"), None, None, None, "a"), ival(NN(L(N("String"))), {"k": "list", "vs": [G.v_str("x")]}, [G.directive("d")], d1, "b"),
            ival(N("In"), {"k": "object", "fs": [{"name": "k", "v": {"k": "enum", "v": "E"}}]}, None, db, "c")]
    fields = [fdef("a", N("Int")), fdef("b", NN(L(NN(N("B")))), args, dirs, d1), fdef("c", L(L(N("C"))), [ival(N("Int"), G.v_int("5"), None, None, "x")], None, db)]
    docs.append({"defs": [tdef("object", "A", fields=[fdef("a", N("Int"))])]})
    docs.append({"defs": [tdef("object", "A", False, d1, dirs, ["I", "J", "K"], fields)]})
    docs.append({"defs": [tdef("object", "A", False, db, None, ["I", "J"], fields[:1], leadingAmp=True)]})
    docs.append({"defs": [tdef("object", "A", True, None, None, ["I"]), tdef("object", "A", True, None, dirs),
                          tdef("object", "A", True, None, None, None, fields), tdef("object", "A", True, None, dirs, ["I", "J"], fields, leadingAmp=True)]})
    docs.append({"defs": [tdef("interface", "I", fields=[fdef("a", N("Int"))]), tdef("interface", "J", False, d1, dirs, ["I"], fields),
                          tdef("interface", "I", True, None, None, ["K"]), tdef("interface", "I", True, None, dirs), tdef("interface", "I", True, None, None, None, fields[:2])]})
    docs.append({"defs": [tdef("union", "U", members=["A"]), tdef("union", "V", False, d1, dirs, members=["A", "B", "C"]),
                          tdef("union", "W", members=["A", "B"], leadingPipe=True), tdef("union", "U", True, members=["D"]),
                          tdef("union", "U", True, None, dirs), tdef("union", "U", True, None, dirs, members=["E", "F"], leadingPipe=True)]})
    vals = [evalue("RED"), evalue("GREEN", dirs, d1), evalue("BLUE", [G.directive("deprecated", [G.arg("reason", G.v_str("no"))])], db)]
    docs.append({"defs": [tdef("enum", "Kw", values=[evalue("nullable"), evalue("trueColor"), evalue("falsey"), evalue("truetrue"), evalue("null_")])]})
    docs.append({"defs": [tdef("enum", "E", values=[evalue("A")]), tdef("enum", "F", False, d1, dirs, values=vals), tdef("enum", "E", True, values=vals[:2]),
                          tdef("enum", "E", True, None, dirs)]})
    ifs = [ival(N("Int"), None, None, None, "a"), ival(NN(N("String")), G.v_str("dflt"), dirs, d1, "b"),
           ival(L(N("In")), {"k": "list", "vs": [{"k": "object", "fs": [{"name": "a", "v": G.v_int("1")}]}]}, None, db, "c")]
    docs.append({"defs": [tdef("input", "In", input_fields=ifs[:1]), tdef("input", "In2", False, d1, dirs, input_fields=ifs),
                          tdef("input", "In", True, input_fields=ifs[1:]), tdef("input", "In", True, None, dirs)]})
    locs = ["QUERY", "MUTATION", "SUBSCRIPTION", "FIELD", "FRAGMENT_DEFINITION", "FRAGMENT_SPREAD", "INLINE_FRAGMENT", "VARIABLE_DEFINITION",
            "SCHEMA", "SCALAR", "OBJECT", "FIELD_DEFINITION", "ARGUMENT_DEFINITION", "INTERFACE", "UNION", "ENUM", "ENUM_VALUE", "INPUT_OBJECT",
            "INPUT_FIELD_DEFINITION"]
    docs.append({"defs": [dirdef("a", ["FIELD"]), dirdef("b", locs, args, True, d1), dirdef("c", ["QUERY", "FIELD"], None, False, db, leadingPipe=True),
                          dirdef("d", ["OBJECT"], ifs[:1], True)]})
    # definitions without a body (legal per spec sections 3.6 - 3.10)
    docs.append({"defs": [tdef("object", "Bare"), tdef("interface", "BareI"), tdef("union", "BareU"), tdef("enum", "BareE"), tdef("input", "BareIn")]})
    docs.append({"defs": [tdef("object", "A", interfaces=["I"]), tdef("object", "B", dirs=[G.directive("d")]), tdef("union", "U", dirs=[G.directive("d")]),
                          tdef("interface", "J", interfaces=["I"])]})
    for raw, val in STRINGS[:8]:
        docs.append({"defs": [tdef("scalar", "S", False, desc(raw, val))]})
    for raw, val in BLOCKS:
        docs.append({"defs": [tdef("object", "T", False, desc(raw, val, True), fields=[fdef("f", N("Int"), None, None, desc(raw, val, True))])]})
    docs.append({"defs": [tdef("input", "D", input_fields=[ival(N("X"), v, None, None, "f%d" % i) for i, v in enumerate(ALL_VALUES) if v["k"] != "var"])]})
    return docs


GAPS = ["", " ", ",", "\n", "\t", "\r\n", "﻿", "#c\n", "  ", " , ", "# é \"x\" {\n", "\n\n  "]
GAPS_EXOTIC = ["\r", "#c\r", " \r \n"]
TAILS = ["", "\n", " ", "#trailing comment", "# c\n", ",", "\r\n", "﻿"]


def ntoks(doc, kind):
    """number of tokens the harness will render (mirrors nothing semantic: the gap vector is reused cyclically anyway)"""
    return None


def cases_for(docs, kind, rng, per_doc, exotic):
    out = []
    alphabet = GAPS + (GAPS_EXOTIC if exotic else [])
    for d in docs:
        out.append({"kind": kind, "A": d})                                        # default layout
        out.append({"kind": kind, "A": d, "gaps": [cp(" ")] * 400 + [cp("")]})    # single spaces, no final newline
        for t in TAILS:
            out.append({"kind": kind, "A": d, "gaps": [cp(" ")] * 400 + [cp(t)]})
        for _ in range(per_doc):
            g = []
            for _i in range(400):
                r = rng.below(10)
                g.append(cp(" ") if r < 5 else cp(rng.choice(alphabet)) if r < 9 else cp(rng.choice(alphabet) + rng.choice(alphabet)))
            g.append(cp(rng.choice(TAILS)))
            out.append({"kind": kind, "A": d, "gaps": g, "fixlen": True})
    return out


def fix_gaps(cases):
    """gap vectors were drawn longer than needed; the harness takes gaps[i % len] for a vector that is not exactly ntokens+1 long.
    To keep the tail meaningful, mark the intent: the harness is given [inner gaps..., tail] of the right length."""
    return cases


def small_docs():
    """documents with few tokens for the TLC-enumerated gap vectors"""
    return [("op", {"defs": [dict(G.op(None, [G.field("a")]), shorthand=True)]}),          # { a }            3 tokens
            ("op", {"defs": [G.op(None, [G.field("a")])]}),                                # query { a }      4 tokens
            ("ts", {"defs": [tdef("scalar", "A")]}),                                       # scalar A         2 tokens
            ("ts", {"defs": [tdef("union", "U", members=["A"])]}),                         # union U = A      4 tokens
            ("op", {"defs": [G.op(None, [G.field("a", None, [G.arg("x", G.v_int("1"))])])]}),   # query { a ( x : 1 ) } 9 tokens
            ("ts", {"defs": [tdef("enum", "E", values=[evalue("A")])]})]                   # enum E { A }     5 tokens


NTOK = [3, 4, 2, 4, 9, 5]


def run(ctx, res):
    vlib.build_harness()
    g = vlib.tlc("Gen_C07", "Gen_C07_quick.cfg" if ctx.quick else "Gen_C07_thorough.cfg", workdir=ctx.work, workers=8, timeout=900)
    res.add_tlc(g)
    vectors = g.tagged("CASE")
    cases = []
    sd = small_docs()
    for v in vectors:
        gaps = [cp(x) for x in v["gaps"]]
        for (kind, d), n in zip(sd, NTOK):
            if len(gaps) == n + 1:
                cases.append({"kind": kind, "A": d, "gaps": gaps})
    ngen = len(cases)
    per_doc = 6 if ctx.quick else 60
    cat = cases_for(op_catalog(), "op", ctx.rng, per_doc, not ctx.quick) + cases_for(ts_catalog(), "ts", ctx.rng, per_doc, not ctx.quick)
    # random valid operation documents from the shared generator
    gen = G.Gen(ctx.rng)
    for _ in range(150 if ctx.quick else 3000):
        names = ["Fa", "Fb"]
        d = {"defs": [gen.operation("Op", names, ctx.rng.choice(["query", "mutation", "subscription"])), gen.fragment("Fa", ["Fb"]), gen.fragment("Fb", [])]}
        cat += cases_for([d], "op", ctx.rng, 1, not ctx.quick)[:1] + cases_for([d], "op", ctx.rng, 1, not ctx.quick)[-1:]
    cases += cat
    vlib.write_ndjson(ctx.path("cases.ndjson"), cases)
    vlib.run_harness(["parse", ctx.path("cases.ndjson"), ctx.path("events.ndjson")])
    events = vlib.read_ndjson(ctx.path("events.ndjson"))
    o = vlib.validate_trace("Trace_C07", "Trace_C07.cfg", events, workdir=ctx.work, timeout=2400)
    res.add_trace(o)
    discards = [s for s in o.stats if "discard" in s]
    res.traces = o.events - len(discards)
    res.evaluations = o.events
    res.distinct_nontrivial = len({json.dumps(e["cp"]) for e in events})
    res.rule = ("Spec->impl: TLC enumerates every trivia vector (Gen_C07: each gap from {'', ' ', ',', LF, TAB, CRLF, BOM, comment}) "
                "for 6 small documents (%d texts); a hand-written catalogue of abstract documents covers every production of both "
                "grammars (all value kinds, type wrappers, escapes, block strings, number forms, extensions, descriptions, "
                "directive locations, #import) under default, single-space, each tail, and %d seeded random trivia layouts each; "
                "plus seeded random operation documents. Impl->spec: Trace_C07 lexes every text with Lexer.tla, checks it denotes "
                "the abstract document (Syntax!Flatten) - otherwise the case is discarded - and then requires the parser's AST to "
                "equal it structurally with every position at the start of its token. Non-trivial = distinct text."
                % (ngen, per_doc))
    res.samples = ["".join(chr(c) for c in events[i]["cp"]) for i in (0, len(events) // 3, len(events) - 1)]
    res.extra.update({"tlc_gap_vector_cases": ngen, "catalogue_and_random_cases": len(cat), "discarded_cases": len(discards),
                      "discard_reasons": {k: sum(1 for s in discards if s["discard"] == k) for k in {s["discard"] for s in discards}},
                      "outcomes": {k: sum(1 for e in events if e["out"]["k"] == k) for k in ("ok", "err", "panic")},
                      "trace_action_coverage": o.coverage})
    if len(discards) > 0.25 * len(events):
        raise vlib.ToolError("too many discarded cases: %d of %d" % (len(discards), len(events)))
    res.assumptions = ["columns are counted in code points (as nitrogql reports them); lines end at LF, CRLF or lone CR (spec)",
                       "which token a position belongs to: table in Trace_C07 (definition: keyword, `extend` or description)"]
