"""C08 — no input text can make the toolchain panic; failures are diagnostics."""
import json, os, vlib, docgen as G, schemagen as SG
from props import c07

CONFIGS = ["schema: ./s.graphql\n", "schema: [a, b]\ndocuments: x\nextensions:\n  nitrogql:\n    generate:\n      mode: standalone-ts-4.0\n",
           "", "{", "schema: [", "a: b: c", "- x\n- y", "extensions:\n  nitrogql:\n    generate:\n      mode: nonsense\n", "schema: {a: 1}", "\t\tbad",
           "extensions: 3", "extensions:\n  nitrogql: []", "schema: ~\ndocuments: ~", "&a [*a]", "? - x\n: y", "\"unterminated", "%YAML 9.9\n---\nx",
           "extensions:\n  nitrogql:\n    generate:\n      type:\n        scalarTypes:\n          Date: {send: 1}\n", "\ufeffschema: x", "schema: \"\\x\""]


def shard_run(ctx, cases, tag, nproc=10):
    """run the crash-isolated stage driver over `cases` in nproc parallel processes"""
    import subprocess
    open(ctx.path("schema.graphql"), "w").write(G.OPS_SCHEMA)
    per = -(-len(cases) // nproc)
    procs = []
    for k in range(nproc):
        chunk = cases[k * per:(k + 1) * per]
        if not chunk:
            continue
        cp, ep = ctx.path("%s_cases_%d.ndjson" % (tag, k)), ctx.path("%s_events_%d.ndjson" % (tag, k))
        vlib.write_ndjson(cp, chunk)
        procs.append((subprocess.Popen([vlib.HARNESS_BIN, "stages", cp, ep, ctx.path("schema.graphql")], stdout=subprocess.DEVNULL,
                                       stderr=subprocess.DEVNULL), ep))
    events = []
    for p, ep in procs:
        if p.wait() != 0:
            raise vlib.ToolError("stage driver failed")
        events += vlib.read_ndjson(ep)
    return events


GEN_OPTS = [("schemaOutput", "./gen/schema.d.ts"), ("schemaModuleSpecifier", "@/gen/schema"), ("resolversOutput", "./gen/resolvers.d.ts"),
            ("serverGraphqlOutput", "./gen/server.ts"), ("emitSchemaRuntime", True)]


def cli_config_runs(ctx):
    vlib.build_cli()
    cases, texts = [], []
    for mask in range(1 << len(GEN_OPTS)):
        for ops in (False, True):
            for mode in (None, "standalone-ts-4.0"):
                for plugin in (False, True):
                    gen = {k: v for i, (k, v) in enumerate(GEN_OPTS) if mask >> i & 1}
                    if gen.get("emitSchemaRuntime") and mask & 1 and (mask >> 1) & 1 == 0 and ops:
                        gen["schemaOutput"] = "./gen/schema.ts"
                    if mode:
                        gen["mode"] = mode
                    cfg = {"schema": "./schema/*.graphql", "extensions": {"nitrogql": {"generate": gen}}}
                    if ops:
                        cfg["documents"] = "./ops/*.graphql"
                    if plugin:
                        cfg["extensions"]["nitrogql"]["plugins"] = ["nitrogql:model-plugin"]
                    text = json.dumps(cfg)
                    files = [{"rel": "graphql.config.json", "text": text}, {"rel": "schema/s.graphql", "text": "type Query { a: Int q: Query }\n"}]
                    if ops:
                        files.append({"rel": "ops/q.graphql", "text": "query Q { a q { a } }\n"})
                    cases.append({"id": len(cases), "files": files, "args": ["generate"], "texts": False})
                    texts.append(text)
    vlib.write_ndjson(ctx.path("cli_cases.ndjson"), cases)
    vlib.run_harness(["cliproj", vlib.CLI_BIN, ctx.path("cli_cases.ndjson"), ctx.path("cli_runs.ndjson"), ctx.path("cliproj"), "12"], timeout=3000)
    out = []
    for r in sorted(vlib.read_ndjson(ctx.path("cli_runs.ndjson")), key=lambda r: r["id"]):
        o = "timeout" if r["exit"] == -2 else "panic" if (r["panicked"] or r["signal"]) else "ok" if r["exit"] == 0 else "err"
        out.append({"ev": "Stages", "id": 10_000_000 + r["id"], "kind": "cli-config", "cp": [ord(c) for c in texts[r["id"]]] if o in ("panic", "timeout") else [],
                    "stages": [{"s": "cli-generate", "o": o}]})
    return out


def cli_pair_runs(ctx):
    """schema text x operation text through the real CLI's generate: schemas that reuse one name for two kinds of type, redefine a built-in
    directive or define a directive twice - whatever `check` makes of them, nothing may panic"""
    base = "type N { y: Int }\ntype Query { a: Int n: N }\n"
    twice = ["scalar M\ntype M { x: Int }\nunion U = M | N\nextend type Query { u: U m: M }\n",
             "type M { x: Int }\nscalar M\nunion U = M | N\nextend type Query { u: U m: M }\n",
             "enum M { A }\ninput M { a: Int }\nextend type Query { m(i: M): M }\n",
             "interface M { y: Int }\ntype M implements M { y: Int }\nextend type Query { m: M }\n",
             "union M = N\ntype M { x: Int }\nextend type Query { m: M }\n",
             "directive @skip on FIELD\n", "directive @include(if: Int) on FIELD\n", "directive @skip(if: Boolean!, also: Int) on FIELD | FRAGMENT_SPREAD\n",
             "directive @deprecated on FIELD_DEFINITION\nextend type Query { old: Int @deprecated }\n", "directive @specifiedBy on SCALAR\nscalar S @specifiedBy\n",
             "directive @x on FIELD\ndirective @x(a: Int!) on FIELD\n", "directive @x(a: Int!) on FIELD\ndirective @x on FIELD\n", ""]
    # recursive directives that ANOTHER directive uses (termination: the recursion search must end although it never returns to its start)
    loops = ["directive @loop(arg: Int @loop(arg: 1)) on ARGUMENT_DEFINITION\ndirective @user(arg: Int @loop(arg: 2)) on OBJECT\nextend type N @user(arg: 3)\n",
             "directive @user(arg: Int @p(x: 2)) on OBJECT\ndirective @p(x: Int @q(y: 1)) on ARGUMENT_DEFINITION\ndirective @q(y: Int @p(x: 1)) on ARGUMENT_DEFINITION\n",
             "input In { f: Int @via(i: {f: 1}) }\ndirective @via(i: In) on INPUT_FIELD_DEFINITION\ndirective @user(arg: Int @via(i: {f: 2})) on ARGUMENT_DEFINITION\n"]
    ops = ["query Q { a }", "query Q { u { __typename ... on N { y } } }", "query Q { m { __typename } }", "query Q { a @skip }", "query Q { a @include(if: 1) }",
           "query Q { a @skip(if: true, also: 1) }", "query Q { a @x }", "query Q { a @x(a: 1) }", "query Q { m }", "query Q { old }", "query Q { n { y @skip(if: true) } }"]
    cfg = json.dumps({"schema": "./schema/*.graphql", "documents": "./ops/*.graphql",
                      "extensions": {"nitrogql": {"generate": {"schemaOutput": "./gen/schema.d.ts", "resolversOutput": "./gen/resolvers.d.ts",
                                                               "type": {"scalarTypes": {"M": "string", "S": "string"}}}}}})
    cases, texts = [], []
    for t in twice + loops:
        for o in (ops if t in twice else ops[:2]):
            cases.append({"id": len(cases), "files": [{"rel": "graphql.config.json", "text": cfg}, {"rel": "schema/s.graphql", "text": base + t},
                                                       {"rel": "ops/q.graphql", "text": o + "\n"}], "args": ["generate"], "texts": False})
            texts.append(base + t + "---\n" + o)
    # projects of SEVERAL operation files: fragment names are unique per file only, so two files may each define a fragment `P` - one of them
    # faulty in a way the printer cannot handle.  Whatever is remembered while one file is checked may not excuse the other file.
    good = ["fragment P on Query { a }", "fragment P on Query { n { y } }", "fragment P on N { y }"]
    bad = ["fragment P on Query { nope }", "fragment P on Query { n { nope } }", "fragment P on Query { a { deep } }", "fragment P on Query { n }",
           "fragment P on N { nope }", "fragment P on Query { ... on N { y } }", "fragment P on Gone { a }"]
    use = {"Query": "query %s { ...P }", "N": "query %s { n { ...P } }", "Gone": "query %s { ...P }"}
    for gi, g in enumerate(good):
        for b in bad:
            for first_bad in (False, True):
                ft = [x + "\n" + use[x.split()[3]] % ("Q%d" % k) + "\n" for k, x in enumerate((b, g) if first_bad else (g, b))]
                cases.append({"id": len(cases), "files": [{"rel": "graphql.config.json", "text": cfg}, {"rel": "schema/s.graphql", "text": base},
                                                           {"rel": "ops/a.graphql", "text": ft[0]}, {"rel": "ops/b.graphql", "text": ft[1]}],
                              "args": ["generate"], "texts": False})
                texts.append(base + "---\n" + ft[0] + "---\n" + ft[1])
    vlib.write_ndjson(ctx.path("pair_cases.ndjson"), cases)
    vlib.run_harness(["cliproj", vlib.CLI_BIN, ctx.path("pair_cases.ndjson"), ctx.path("pair_runs.ndjson"), ctx.path("pairproj"), "12"], timeout=3000)
    out = []
    for r in sorted(vlib.read_ndjson(ctx.path("pair_runs.ndjson")), key=lambda r: r["id"]):
        o = "timeout" if r["exit"] == -2 else "panic" if (r["panicked"] or r["signal"]) else "ok" if r["exit"] == 0 else "err"
        out.append({"ev": "Stages", "id": 20_000_000 + r["id"], "kind": "cli-schema-op", "cp": [ord(c) for c in texts[r["id"]]] if o in ("panic", "timeout") else [],
                    "stages": [{"s": "cli-generate", "o": o}]})
    return out


def run(ctx, res):
    vlib.build_harness()
    docs = [{"kind": "op", "A": d} for d in c07.op_catalog()] + [{"kind": "ts", "A": d} for d in c07.ts_catalog()]
    docs += [{"kind": "ts", "A": d} for _, d in SG.catalogue()]
    gen = G.Gen(ctx.rng)
    for _ in range(20):
        docs.append({"kind": "op", "A": {"defs": [gen.operation("Op", ["Fa", "Fb"]), gen.fragment("Fa", ["Fb"]), gen.fragment("Fb", [])]}})
    docs = docs[:130]
    g = vlib.tlc("Gen_C08", "Gen_C08_quick.cfg" if ctx.quick else "Gen_C08_thorough.cfg", workdir=ctx.work, workers=8, timeout=1500, xmx="6g")
    res.add_tlc(g)
    vlib.write_ndjson(ctx.path("docs.ndjson"), docs)
    vlib.write_ndjson(ctx.path("muts.ndjson"), g.tagged("CASE"))
    vlib.run_harness(["mutate", ctx.path("docs.ndjson"), ctx.path("muts.ndjson"), ctx.path("mut_cases.ndjson")])
    cases = vlib.read_ndjson(ctx.path("mut_cases.ndjson"))
    nmut = len(cases)
    # the unmutated documents themselves, random token soups and random Unicode
    vlib.write_ndjson(ctx.path("plain.ndjson"), [{"kind": d["kind"], "A": d["A"]} for d in docs])
    vlib.run_harness(["render", ctx.path("plain.ndjson"), ctx.path("plain_text.ndjson")])
    for d, t in zip(docs, vlib.read_ndjson(ctx.path("plain_text.ndjson"))):
        cases.append({"id": len(cases), "kind": d["kind"], "cp": [ord(c) for c in t["text"]]})
    import props.c07 as C7
    soup_tokens = ["{", "}", "(", ")", "[", "]", ":", "=", "!", "$", "@", "...", "|", "&", "a", "on", "fragment", "query", "mutation", "type", "extend",
                   "schema", "union", "enum", "input", "interface", "directive", "implements", "scalar", "1", "1.5", "\"s\"", "\"\"\"b\"\"\"", "true",
                   "null", "#import * from \"./lib.graphql\"\n", "#import Lib, Lib from \"./lib.graphql\"\n", "...Lib", "...Missing", "$v", "@skip(if: true)",
                   "\"\\uD800\"", "\"\\u{110000}\"", "Query", "Int", "__typename", "\ufeff", ",", "\n"]
    nsoup = 3000 if ctx.quick else 120000
    for _ in range(nsoup):
        n = 1 + ctx.rng.below(14)
        text = " ".join(ctx.rng.choice(soup_tokens) for _ in range(n))
        cases.append({"id": len(cases), "kind": ctx.rng.choice(["op", "op", "ts"]), "cp": [ord(c) for c in text]})
    # well-formed documents that `check` tends to accept although they are unusual: one response key used for different fields /
    # shapes, the same fragment spread several times under different conditions, conditions on every kind of selection
    pieces = ["a", "x: a", "x: b", "x: q { a }", "q { a }", "q { x: a }", "q { x: q { a } }", "x: qs { a }", "qs { a }", "qs { x: b }", "n { id }",
              "x: n { id }", "n { ... on U { name } }", "n { ... on U { x: name } ... on Node { x: id } }", "...F", "...F @include(if: $a)",
              "...F @skip(if: $b)", "...G", "...G @skip(if: $a)", "... on Query { x: a }", "... on Query { q { b } }", "... @include(if: $a) { q { b } }",
              "... @skip(if: $b) { x: q { a } }", "a @skip(if: $a)", "x: a @include(if: $b)", "q @include(if: $a) { a }", "q @skip(if: $b) { b }",
              "__typename", "x: __typename", "q { __typename }", "b(x: 1)", "x: b(x: 2)", "b(s: \"s\")", "a @skip(if: true)", "a @include(if: false)",
              # two conditions on one selection (different variables, literal then variable, on spreads and inline fragments)
              "a @skip(if: $a) @include(if: $b)", "x: a @skip(if: false) @include(if: $b)", "...F @include(if: $b) @skip(if: $a)",
              "... @skip(if: $a) @include(if: $b) { q { a } }", "q @include(if: true) @skip(if: $b) { b }"]
    nsem = 3000 if ctx.quick else 100000
    for _ in range(nsem):
        body = " ".join(ctx.rng.choice(pieces) for _ in range(1 + ctx.rng.below(5)))
        fbody = " ".join(ctx.rng.choice(pieces[:14] + pieces[19:]) for _ in range(1 + ctx.rng.below(3)))
        gbody = " ".join(ctx.rng.choice(pieces[:13] + pieces[23:]) for _ in range(1 + ctx.rng.below(3)))
        text = "query Q($a: Boolean!, $b: Boolean!) { %s }\nfragment F on Query { %s }\nfragment G on Query { %s }\n" % (body, fbody, gbody)
        cases.append({"id": len(cases), "kind": "op", "cp": [ord(c) for c in text]})
    uni = [0, 1, 9, 10, 13, 32, 34, 35, 92, 123, 125, 0x7f, 0x80, 0xa0, 0x2028, 0xd7ff, 0xe000, 0xfeff, 0xfffd, 0xffff, 0x10000, 0x1f600, 0x10ffff, 97, 49]
    for _ in range(1000 if ctx.quick else 30000):
        n = 1 + ctx.rng.below(30)
        cases.append({"id": len(cases), "kind": ctx.rng.choice(["op", "ts"]), "cp": [ctx.rng.choice(uni) for _ in range(n)]})
    # nesting depth within ordinary limits
    for depth in (8, 32, 64):
        cases.append({"id": len(cases), "kind": "op", "cp": [ord(c) for c in "query D " + "{ q " * depth + "{ a }" + " }" * depth]})
        cases.append({"id": len(cases), "kind": "op", "cp": [ord(c) for c in "query L { b(l: " + "[" * depth + "1" + "]" * depth + ") }"]})
        cases.append({"id": len(cases), "kind": "ts", "cp": [ord(c) for c in "type Query { f: " + "[" * depth + "Int" + "]" * depth + " }"]})
    for c in CONFIGS:
        cases.append({"id": len(cases), "kind": "config", "cp": [ord(ch) for ch in c]})
    for i, c in enumerate(cases):
        c["id"] = i
    events = shard_run(ctx, cases, "all")
    if len(events) != len(cases):
        raise vlib.ToolError("stage driver returned %d events for %d cases" % (len(events), len(cases)))
    # configuration texts that PARSE, all the way through the real CLI's `generate`: every combination of the output options, with and
    # without operation documents (a stage of its own in the pipeline model: a configuration is rejected with a diagnostic, never a panic)
    cli_events = cli_config_runs(ctx) + cli_pair_runs(ctx)
    # keep the text only where something went wrong (size)
    for e in events:
        if all(s["o"] in ("ok", "err", "accepted", "rejected") for s in e["stages"]):
            e["cp"] = []
    events = events + cli_events
    o = vlib.validate_trace("Trace_C08", "Trace_C08.cfg", events, workdir=ctx.work, timeout=2400)
    tool = [i for i in o.items if i.get("cls") == "driver-order"]
    if tool:
        raise vlib.ToolError("driver ran stages in an impossible order: %s" % json.dumps(tool[0])[:300])
    res.add_trace(o)
    res.level = "exploration"
    res.traces = o.events
    res.evaluations = o.events
    reach = {}
    for e in events:
        for s in e["stages"]:
            reach.setdefault(s["s"], {}).setdefault(s["o"], 0)
            reach[s["s"]][s["o"]] += 1
    res.distinct_nontrivial = sum(1 for e in events if len(e["stages"]) > 1)
    res.rule = ("Spec->impl: Gen_C08 enumerates the token-mutation space (document x token position x {delete, dup, swap, replace, insert, "
                "truncate} x 28 replacement token classes; positions stepped by %s) over %d catalogue documents: %d mutated texts; plus the "
                "unmutated documents, %d random token soups, %d grammar-built documents that reuse response keys for different fields / shapes and "
                "spread one fragment several times under different conditions, random Unicode strings, nesting depth 8/32/64 and %d configuration texts; "
                "plus 256 configurations that parse (every combination of the five output options x with / without operation documents x mode x model plugin) "
                "run through the real CLI's `generate`, as are ~150 schema x operation pairs whose schema uses one name for two kinds of type, redefines a built-in "
                "directive, defines a directive twice, or has a recursive directive that another directive uses (termination), and 42 projects of two operation files that each define a fragment of the same name, one of them faulty (whatever is remembered from one file may not excuse the other). Every "
                "text is fed to every stage the pipeline model reaches (parse, extensions, imports, check, then generation or diagnostic "
                "rendering; and the loader ABI without check) in crash-isolated child processes. Impl->spec: Trace_C08 accepts only ok/err "
                "outcomes within 5 s per stage and checks the stage order against the model. Non-trivial = input that got past the first stage."
                % ("5" if ctx.quick else "1", len(docs), nmut, nsoup, nsem, len(CONFIGS)))
    res.samples = ["".join(chr(c) for c in cases[i]["cp"])[:200] for i in (0, nmut // 2, nmut + 5)] + [events[0]["stages"]]
    res.extra.update({"mutated_texts": nmut, "total_inputs": len(cases), "stage_outcomes": reach, "trace_action_coverage": o.coverage})
    res.assumptions = ["universal claim over all byte sequences is exploration; the specification contributes the acceptance criterion, the stage "
                       "reachability and the systematic mutation space", "nesting depth bounded by 64"]
