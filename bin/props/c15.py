"""C15 — introspection-JSON and SDL descriptions of a schema give the same results (Trace_C15 over Introspection.tla / TsNorm.tla)."""
import copy, json, vlib, tsgen as TG, schemagen as SG, docgen as G, docgen2 as G2, execgen as EG, introgen as IG
from props import c01, c10


def make_case(ctx, i):
    r = ctx.rng
    m = TG.TsGen(r).schema()
    # descriptions and deprecations are carried by introspection; awkward strings are C10/C16's business
    for d in m["defs"]:
        if d["k"] not in ("directive", "schema") and r.chance(1, 3):
            d["desc"] = SG.desc("about " + d["name"])
    explicit = any(d["k"] == "schema" for d in m["defs"])
    decoy = None
    if explicit and not any(o["op"] == "mutation" for d in m["defs"] if d["k"] == "schema" for o in d["ops"]) and r.chance(1, 2):
        # a type that merely LOOKS like a default root: `type Mutation` while the schema definition names no mutation root
        victims = [d["name"] for d in m["defs"] if d["k"] == "object" and d["name"].startswith("O")]
        decoy = r.choice(victims)
        TG.rename_type(m, decoy, "Mutation")
    # free text that needs escapes in JSON (and in SDL): descriptions everywhere, deprecation reasons
    if r.chance(2, 3):
        k = r.below(len(SG.AWKWARD))
        m = SG.decorate(m, SG.AWKWARD[k:] + SG.AWKWARD[:k])
    reasons = ["use \"name\" instead", "multi\nline", "back\\slash /", "uni \u00e9 \u4e2d \U0001F600", "*/ tricky", "tab\there"]

    def awkward_reasons(holder):
        for x in holder.get("dirs", []):
            if x["name"] == "deprecated":
                for a in x["args"]:
                    if a["name"] == "reason" and a["v"]["k"] == "string" and r.chance(2, 3):
                        a["v"] = G.v_str(r.choice(reasons))
    for d in m["defs"]:
        for f in d.get("fields", []):
            awkward_reasons(f)
            for a in f.get("args", []):
                awkward_reasons(a)
        for v in d.get("values", []):
            awkward_reasons(v)
        for f in d.get("inputFields", []):
            awkward_reasons(f)
    scalar_cfg = {d["name"]: r.choice(["string", "number", {"send": "string | number", "receive": "string"}]) for d in m["defs"] if d["k"] == "scalar"}
    files = TG.split_files(m, r, 1 + r.below(3))
    for f in files:
        f["path"] = f["path"][1:]
    defs = c01.merged_defs(files)
    intro = IG.Intro(defs, r, drop_optional=r.chance(1, 2), meta_types=r.chance(1, 2)).result()
    docs = []
    kinds = {"enum": next((d["name"] for d in defs if d["k"] == "enum"), None), "input": next((d["name"] for d in defs if d["k"] == "input"), None), "scalar": "Int"}
    lone = next((d["name"] for d in defs if d["k"] == "object" and d["name"] not in ("Q", "Query", "M", "Mutation")), "Lone")
    for k in range(5):
        eg = EG.ExecGen(defs, r)
        d = eg.document(r.below(3))
        docs.append({"path": ["ops", "ok%d.graphql" % k], "doc": d, "valid": True, "fault": ""})
        op = G2.OPERATORS[(i * 5 + k) % len(G2.OPERATORS)]          # every fault operator is used, round robin over the models
        fd = G2.inject(d, op, r.below(3), lone, kinds)
        if fd is None:
            fd = G2.inject(d, op, 0, lone, kinds)
        if fd is not None:
            docs.append({"path": ["ops", "bad%d.graphql" % k], "doc": fd, "valid": False, "fault": op})
    # root-operation probes: legitimate or not depending on the schema's roots (the two routes must agree either way)
    for ot, tn in (("mutation", "Mutation" if decoy or not explicit else "M"), ("subscription", "Subscription")):
        docs.append({"path": ["ops", "probe_%s.graphql" % ot], "doc": {"defs": [G.op("P" + ot, [G.field("__typename")], ot)]}, "valid": False, "fault": "probe-" + ot})
    gen = {"schemaOutput": "./gen/schema.d.ts", "resolversOutput": "./gen/resolvers.d.ts", "type": {"scalarTypes": scalar_cfg}}
    if r.chance(1, 3):
        gen["mode"] = r.choice(["with-loader-ts-4.0", "standalone-ts-4.0"])
    config = {"schema": ["./schema/*.graphql", "./schema/*.json"], "documents": "./ops/*.graphql", "extensions": {"nitrogql": {"generate": gen}}}
    return {"id": "t%d" % i, "schemaFiles": files, "introText": json.dumps(intro), "intro": IG.null_free(intro), "docs": docs, "configText": json.dumps(config),
            "decoy": decoy or ""}


def run(ctx, res):
    vlib.build_harness()
    vlib.build_cli()
    n = 30 if ctx.quick else 500
    cases = [make_case(ctx, i) for i in range(n)]
    vlib.write_ndjson(ctx.path("cases.ndjson"), cases)
    vlib.run_harness(["twin", vlib.CLI_BIN, ctx.path("cases.ndjson"), ctx.path("events.ndjson"), ctx.path("proj"), "12"], timeout=3000)
    events = vlib.read_ndjson(ctx.path("events.ndjson"))
    o = vlib.validate_trace("Trace_C15", "Trace_C15.cfg", events, workdir=ctx.work, timeout=3000, xmx="3g")
    res.add_trace(o)
    discards = [s for s in o.stats if "discard" in s]
    judged = [s for s in o.stats if "ok" in s]
    res.traces = len(judged)
    res.evaluations = o.events
    res.distinct_nontrivial = len(judged)
    res.rule = ("%d seeded valid schema models (tsgen; default or explicit roots, optionally a type named Mutation that is not the mutation root), each "
                "written as SDL over 1-3 files and as the JSON result of the standard introspection query (optional null keys present or absent); "
                "Introspection.tla first confirms that the JSON describes the model; the real CLI runs `check` over 5 valid documents, up to 5 "
                "fault-injected ones (docgen2 operators) and two root-operation probes on each route, and `generate` over the valid ones; TLC "
                "requires the same reported files, the same generate outcome and equal order-insensitive normal forms (TsNorm.tla) of every "
                "exported alias in schema.d.ts, resolvers.d.ts and the operation declarations. Non-trivial = judged model." % len(cases))
    res.samples = [{"docs": [d["fault"] for d in events[0]["docs"]], "sdl_offending": events[0]["sdl"]["check"]["offending"], "json_offending": events[0]["json"]["check"]["offending"]}]
    res.extra.update({"models": len(cases), "models_agreeing": sum(1 for s in judged if s["ok"]), "aliases_compared": sum(s["aliases"] for s in judged),
                      "documents_checked": sum(s["docs"] for s in judged), "documents_reported": sum(s["offending"] for s in judged),
                      "generated": sum(1 for s in judged if s["generated"]), "discarded": len(discards), "trace_action_coverage": o.coverage})
    if len(discards) > 0.2 * len(events):
        raise vlib.ToolError("introspection writer does not conform to Introspection.tla in %d of %d cases" % (len(discards), len(events)))
    res.assumptions = ["default-value literals, source maps and directive applications other than @deprecated are not carried by introspection and are outside the comparison",
                       "meta types (__Schema, ...) are not part of the written JSON",
                       "TsNorm: equality modulo order of union / intersection / object members"]


def selftest(ctx):
    """Binding demonstration: drop one reported file on one route / change one alias on one route; both must be rejected."""
    import copy
    vlib.build_harness()
    vlib.build_cli()
    c = make_case(ctx, 0)
    vlib.write_ndjson(ctx.path("cases.ndjson"), [c])
    vlib.run_harness(["twin", vlib.CLI_BIN, ctx.path("cases.ndjson"), ctx.path("events.ndjson"), ctx.path("proj"), "1"])
    e = vlib.read_ndjson(ctx.path("events.ndjson"))[0]
    a = copy.deepcopy(e)
    a["json"]["check"]["offending"] = a["json"]["check"]["offending"][1:]
    a["id"] = "mut-verdict"
    b = copy.deepcopy(e)
    al = next(x for f in b["json"]["gen"]["files"] for x in f["aliases"] if x["t"]["k"] == "obj" and not x["name"].startswith("__") and not x.get("base", "").startswith("__")
              and any(not q["key"].startswith("__") for q in x["t"]["fs"]))
    drop = next(i for i, q in enumerate(al["t"]["fs"]) if not q["key"].startswith("__"))          # (members keyed by a meta type are outside the comparison)
    al["t"]["fs"] = al["t"]["fs"][:drop] + al["t"]["fs"][drop + 1:]
    b["id"] = "mut-alias"
    o = vlib.validate_trace("Trace_C15", "Trace_C15.cfg", [a, b], workdir=ctx.work, nshards=1)
    got = {(i["id"], i["cls"]) for i in o.items}
    ok = ("mut-verdict", "verdict-differs") in got and ("mut-alias", "types-differ") in got
    print("SELFTEST C15: 2 corrupted records, items %s -> %s" % (sorted(got), "ok" if ok else "FAILED"))
    ctx.cleanup()
    return 0 if ok else 2
