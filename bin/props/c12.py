"""C12 — runtime documents are the source operation plus exactly the fragments it needs (Doc.tla)."""
import json, vlib, docgen as G

ROOT = ["p", "root.graphql"]
IMPF = ["p", "sub", "frags.graphql"]
FR = ["F1", "F2", "F3"]


def place(target, how):
    if how == "direct":
        return [G.spread(target)]
    if how == "nested":
        return [G.field("q", None, [], [], [G.field("a"), G.spread(target)])]
    if how == "inline":
        return [G.inline([G.spread(target), G.field("a", "ia")], on="Query")]
    return []


def expand(c):
    """spread-graph case from Gen_C12 -> abstract files"""
    edges = {"op": list(zip(FR, c["op"])), "F1": list(zip(FR[1:], c["f1"])), "F2": list(zip(FR[2:], c["f2"])), "F3": []}
    defs = {}
    sel = [G.field("a")]
    for i, (t, how) in enumerate(edges["op"]):
        for s in place(t, how):
            if s["k"] == "field":
                s["hasAlias"], s["alias"] = True, "n%d" % i
            sel.append(s)
    defs["op"] = G.op(c["opName"], sel)
    for f in FR:
        sel = [G.field("b", "x" + f, [G.arg("x", G.v_int("1"))])]
        for i, (t, how) in enumerate(edges[f]):
            for s in place(t, how):
                if s["k"] == "field":
                    s["hasAlias"], s["alias"] = True, "m%d" % i
                sel.append(s)
        defs[f] = G.frag(f, sel)
    local = [f for f, l in zip(FR, c["loc"]) if l == "local"]
    imported = [f for f, l in zip(FR, c["loc"]) if l == "imported"]
    root_defs, imp_defs = [], []
    if imported:
        root_defs.append(G.imp([".", "sub", "frags.graphql"], None))
    root_defs.append(defs["op"])
    root_defs += [defs[f] for f in local]
    files = [{"path": ROOT, "doc": {"defs": root_defs}}]
    if imported:
        if local:
            imp_defs.append(G.imp(["..", "root.graphql"], None))
        imp_defs += [defs[f] for f in imported]
        files.append({"path": IMPF, "doc": {"defs": imp_defs}})
    return {"files": files, "root": ROOT, "config": ""}


def rand_case(rng):
    g = G.Gen(rng)
    nfr = rng.below(4)
    names = ["Fa", "Fb", "Fc"][:nfr]
    frs = []
    for i, n in enumerate(names):
        frs.append(g.fragment(n, names[i + 1:]))          # acyclic: only later fragments are spread
    imported = [f for f in frs if rng.chance(1, 3)]
    local = [f for f in frs if f not in imported]
    ops = []
    nops = 1 + (1 if rng.chance(1, 4) else 0)
    for i in range(nops):
        ot = rng.choice(["query", "query", "query", "mutation", "subscription"])
        nm = None if (nops == 1 and rng.chance(1, 5)) else "Op%d" % i
        if nm and names and i == 0 and rng.chance(1, 4):
            nm = names[0]                        # same name as a fragment: separate name spaces
        ops.append(g.operation(nm, names, ot))
    root_defs = []
    if imported:
        if rng.chance(1, 2):
            root_defs.append(G.imp([".", "sub", "frags.graphql"], None))
        else:
            root_defs.append(G.imp([".", "sub", "frags.graphql"], [f["name"] for f in imported]))
    root_defs += ops + local
    files = [{"path": ROOT, "doc": {"defs": root_defs}}]
    if imported:
        d = ([G.imp(["..", "root.graphql"], None)] if local else []) + imported
        files.append({"path": IMPF, "doc": {"defs": d}})
    return {"files": files, "root": ROOT, "config": ""}


def run(ctx, res):
    vlib.build_harness()
    g = vlib.tlc("Gen_C12", "Gen_C12_quick.cfg" if ctx.quick else "Gen_C12_thorough.cfg", workdir=ctx.work, workers=8,
                 timeout=900)
    res.add_tlc(g)
    cases = [expand(c) for c in g.tagged("CASE")]
    ngen = len(cases)
    nrand = 1500 if ctx.quick else 30000
    for _ in range(nrand):
        cases.append(rand_case(ctx.rng))
    vlib.write_ndjson(ctx.path("cases.ndjson"), cases)
    vlib.run_harness(["opfile", ctx.path("cases.ndjson"), ctx.path("events.ndjson")])
    events = vlib.read_ndjson(ctx.path("events.ndjson"))
    # second route: the real CLI in standalone mode (a sample of the TLC cases in quick, all in thorough)
    vlib.build_cli()
    step = 4 if ctx.quick else 1
    cli_cases = cases[:ngen:step] + cases[ngen:]
    vlib.write_ndjson(ctx.path("cli_cases.ndjson"), cli_cases)
    open(ctx.path("schema.graphql"), "w").write(G.OPS_SCHEMA)
    vlib.run_harness(["opfile-cli", vlib.CLI_BIN, ctx.path("cli_cases.ndjson"), ctx.path("cli_events.ndjson"), ctx.path("proj"),
                      ctx.path("schema.graphql")], timeout=3000)
    events += vlib.read_ndjson(ctx.path("cli_events.ndjson"))
    o = vlib.validate_trace("Trace_C12", "Trace_C12.cfg", events, workdir=ctx.work, timeout=2400)
    res.add_trace(o)
    res.traces = o.events
    res.evaluations = o.events
    res.distinct_nontrivial = len({json.dumps(e["files"], sort_keys=True) for e in events})
    res.exhaustive = True
    res.rule = ("Spec->impl: Gen_C12 enumerates every spread graph over an operation and 3 fragments (edge absent / direct / "
                "nested in a field / inside an inline fragment; each fragment local or imported): %d graphs; plus %d seeded "
                "random documents exercising every node kind (all value kinds, variables with defaults and directives, "
                "aliases, arguments, directives everywhere, inline fragments with/without type condition, "
                "query/mutation/subscription, anonymous operations). Each project is rendered to text and emitted through "
                "the real loader ABI; impl->spec: every embedded graphql-js document is read back by an independent reader "
                "and judged by Doc!RuntimeDocContract against the abstract source. Non-trivial = distinct project."
                % (ngen, nrand))
    res.samples = [events[0]["files"], events[-1]["files"][0]["doc"]["defs"][-1]]
    res.extra.update({"tlc_generated_cases": ngen, "random_cases": nrand,
                      "outcomes": {k: sum(1 for e in events if e["out"]["k"] == k) for k in ("ok", "err", "panic", "malformed")},
                      "events_by_route": {r: sum(1 for e in events if e["route"] == r) for r in ("loader", "cli")},
                      "embedded_documents_checked": sum(len(e["out"].get("consts", [])) for e in events),
                      "trace_action_coverage": o.coverage})
    res.assumptions = ["the graphql-js AST reader (harness/src/gqljs.rs) is a faithful structural map",
                       "source of truth is the abstract document the text was rendered from (renderer cross-checked by C07)"]
