"""C03 — check accepts no operation that violates an implemented validation rule (Validate.tla)."""
import json, vlib, docgen2 as G2
from props import c04


def run(ctx, res):
    vlib.build_harness()
    g = vlib.tlc("Gen_C03", "Gen_C03_quick.cfg" if ctx.quick else "Gen_C03_thorough.cfg", workdir=ctx.work, workers=8, timeout=900)
    res.add_tlc(g)
    triples = g.tagged("CASE")
    ndocs = max(t["doc"] for t in triples)
    scs, docs = c04.base_documents(ctx, ndocs)
    cases, skipped = [], 0
    kinds = {}
    for sc in scs:
        ds = sc["model"]["defs"]
        kinds[sc["name"]] = {"enum": next((d["name"] for d in ds if d["k"] == "enum"), None),
                             "input": next((d["name"] for d in ds if d["k"] == "input"), None),
                             "scalar": next((d["name"] for d in ds if d["k"] == "scalar"), "Int"),
                             "root": next((o["type"] for d in ds if d["k"] == "schema" for o in d["ops"] if o["op"] == "query"), "Query"),
                             "subroot": next((o["type"] for d in ds if d["k"] == "schema" for o in d["ops"] if o["op"] == "subscription"),
                                             None if any(d["k"] == "schema" for d in ds) else
                                             next((d["name"] for d in ds if d["k"] == "object" and d["name"] == "Subscription"), None))}
    for sc in scs:
        sites = []
        for d in sc["model"]["defs"]:
            if d["k"] in ("object", "interface"):
                for f in d["fields"]:
                    for a in f["args"]:
                        t0 = a["type"]["of"] if a["type"]["k"] == "nn" else a["type"]
                        if a["hasDefault"] and t0["k"] == "list" and t0["of"]["k"] == "nn" and t0["of"]["of"]["k"] == "named":
                            sites.append([f["name"], a["name"], t0["of"]["of"]["n"]])
        kinds[sc["name"]]["nnListDefaultSites"] = sites
        # (field, argument, item type as text-free model) of every argument whose type is a list: a variable of the ITEM type is not usable there
        lsites = []
        for d in sc["model"]["defs"]:
            if d["k"] in ("object", "interface"):
                for f in d["fields"]:
                    for a in f["args"]:
                        t0 = a["type"]["of"] if a["type"]["k"] == "nn" else a["type"]
                        if t0["k"] == "list":
                            lsites.append([f["name"], a["name"], t0["of"]])
        kinds[sc["name"]]["listArgSites"] = lsites
        # (field name, interface) pairs: the field's type is an interface J, and I is an interface implementing J that no object implements
        dsm = sc["model"]["defs"]
        ifaces = {d["name"]: d for d in dsm if d["k"] == "interface"}
        impl_objs = {i["n"] for d in dsm if d["k"] == "object" for i in d["interfaces"]}
        empty = [n for n in ifaces if n not in impl_objs]
        esites = []
        for d in dsm:
            if d["k"] in ("object", "interface"):
                for f in d["fields"]:
                    t0 = f["type"]
                    while t0["k"] != "named":
                        t0 = t0["of"]
                    for e in empty:
                        if t0["n"] in ifaces and t0["n"] != e and any(i["n"] == t0["n"] for i in ifaces[e]["interfaces"]):
                            esites.append([f["name"], e])
        kinds[sc["name"]]["emptyIfaceSites"] = esites
        ds = sc["model"]["defs"]
        explicit = [o["op"] for d in ds if d["k"] == "schema" for o in d["ops"]]
        kinds[sc["name"]]["rootKinds"] = explicit if any(d["k"] == "schema" for d in ds) else \
            [k for k, n in (("query", "Query"), ("mutation", "Mutation"), ("subscription", "Subscription")) if any(d["k"] == "object" and d["name"] == n for d in ds)]
    for t in triples:
        base = docs[t["doc"] - 1]
        op = G2.OPERATORS[t["operator"] - 1]
        root_doc = base["files"][0]["doc"]
        m = G2.inject(root_doc, op, t["site"], "Lone", kinds[base["schema"]])
        if m is None:
            skipped += 1
            continue
        files = [{"path": base["files"][0]["path"], "doc": m}] + base["files"][1:]
        cases.append({"schema": base["schema"], "files": files, "root": base["root"], "mode": "fault",
                      "fault": {"operator": op, "site": t["site"], "doc": t["doc"]}, "base": base["files"]})
    if not ctx.quick:
        # pairs of faults
        for _ in range(20000):
            base = docs[ctx.rng.below(len(docs))]
            o1, o2 = ctx.rng.choice(G2.OPERATORS), ctx.rng.choice(G2.OPERATORS)
            m = G2.inject(base["files"][0]["doc"], o1, ctx.rng.below(4), "Lone", kinds[base["schema"]])
            m = m and G2.inject(m, o2, ctx.rng.below(4), "Lone", kinds[base["schema"]])
            if m:
                cases.append({"schema": base["schema"], "files": [{"path": base["files"][0]["path"], "doc": m}] + base["files"][1:], "root": base["root"],
                              "mode": "fault", "fault": {"operator": o1 + "+" + o2, "site": -1, "doc": -1}, "base": base["files"]})
    events = c04.run_checkops(ctx, scs, cases)
    o = vlib.validate_trace("Trace_C03", "Trace_C03.cfg", events, workdir=ctx.work, timeout=2400, extra_env={"SCHEMAS": ctx.path("schemas.ndjson")})
    res.add_trace(o)
    discards = [s for s in o.stats if "discard" in s]
    reported = [s for s in o.stats if s.get("ok") == "fault-reported"]
    rules = {}
    for s in reported:
        for r in s["rules"]:
            rules[r] = rules.get(r, 0) + 1
    res.traces = o.events - len(discards)
    res.evaluations = o.events
    res.distinct_nontrivial = len(reported) + len(o.items)
    res.exhaustive = True
    res.rule = ("Spec->impl: Gen_C03 enumerates (base document, fault operator, site) over %d valid base documents x %d operators x "
                "sites 0..%d: %d applicable injections%s. Each mutated document is rendered and checked by the real code after the real "
                "parse / extension / import resolution; Trace_C03 discards cases whose base document was not cleanly accepted or whose "
                "mutation Validate!Violations does not confirm, and requires >= 1 diagnostic otherwise. Non-trivial = confirmed fault."
                % (ndocs, len(G2.OPERATORS), max(t["site"] for t in triples), len(cases), "" if ctx.quick else " plus 20000 random fault pairs"))
    res.samples = [cases[0]["fault"], cases[len(cases) // 2]["fault"], events[-1]["out"]]
    res.extra.update({"injections": len(cases), "inapplicable_sites_skipped": skipped, "confirmed_faults_reported": len(reported),
                      "confirmed_faults_by_rule": rules, "discarded": len(discards),
                      "discard_reasons": {k: sum(1 for s in discards if s["discard"] == k) for k in {s["discard"] for s in discards}},
                      "trace_action_coverage": o.coverage})
    missing_rules = set(["FieldsExist", "LeafSelections", "ArgsKnown", "ArgsRequired", "LiteralTypes", "VarsUnique", "VarsInputTypes", "VarsDefined",
                         "VarUsageCompatible", "FragNamesUnique", "FragTargets", "FragKnown", "FragNoCycles", "FragSpreadPossible", "DirectivesKnown",
                         "DirectiveLocations", "DirectivesUniquePerLocation", "UniqueOpNames", "LoneAnonymous"]) - set(rules)
    res.extra["rules_never_exercised"] = sorted(missing_rules)
    by_op = {}
    for s_ in reported:
        by_op[s_.get("fault", "?")] = by_op.get(s_.get("fault", "?"), 0) + 1
    res.extra["confirmed_faults_by_operator"] = by_op
    res.extra["operators_never_confirmed"] = sorted(set(G2.OPERATORS) - set(by_op) - {i.get("fault", {}).get("operator") for i in o.items if isinstance(i.get("fault"), dict)})
    if not ctx.quick and missing_rules:
        raise vlib.ToolError("rules never exercised by a confirmed fault: %s" % sorted(missing_rules))
    res.assumptions = ["verdict is exactly the property's contrapositive (>= 1 diagnostic); which diagnostic, and where, is recorded not judged"]
