"""X02 (beyond the listed properties) — schema source kinds, their admissible combinations, plugin names, and what a successful
`generate` lists (SchemaSources.tla)."""
import json, re, vlib, introgen as IG, docgen as G, schemagen as SG

N, NN = G.named, G.nn


def intro_text(i, rng):
    defs = [SG.tdef("object", "Query", fields=[SG.fdef("a", N("Int")), SG.fdef("t", N("T%d" % i))]),
            SG.tdef("object", "T%d" % i, fields=[SG.fdef("id", NN(N("ID")))])]
    return json.dumps(IG.Intro(defs, rng, drop_optional=False, meta_types=False).result())


def materialise(s, cid, rng):
    files, pats = [], []
    first_sdl = True
    for i, k in enumerate(s["sources"], 1):
        if k in ("graphql", "gql", "badgraphql"):
            ext = "gql" if k == "gql" else "graphql"
            text = ("type Query { a: Int }\n" if first_sdl else "") + "type T%d { id: ID! }\n" % i
            if k == "badgraphql":
                text += "type {\n"
            first_sdl = False
            files.append({"rel": "schema/s%d.%s" % (i, ext), "text": text})
        else:
            text = intro_text(i, rng)
            if k == "badjson":
                text = text[:len(text) // 2]
            files.append({"rel": "schema/s%d.json" % i, "text": text})
        pats.append("./" + files[-1]["rel"])
    gen = {"schemaOutput": "./gen/schema.d.ts"}
    if "resolvers" in s["gen"]:
        gen["resolversOutput"] = "./gen/resolvers.d.ts"
    if "server" in s["gen"]:
        gen["serverGraphqlOutput"] = "./gen/server.ts"
    nq = {"generate": gen}
    if s["plugin"] != "none":
        nq["plugins"] = ["nitrogql:model-plugin" if s["plugin"] == "model" else "nitrogql:no-such-plugin"]
    files.append({"rel": "graphql.config.json", "text": json.dumps({"schema": pats, "documents": "./ops/*.graphql", "extensions": {"nitrogql": nq}})})
    files.append({"rel": "ops/q.graphql", "text": "query Q { a }\n"})
    return {"id": cid, "files": files, "args": ["--output-format", "json", "generate"], "texts": True}


def observe(ev):
    proj = ev["dir"].rstrip("/") + "/"

    def rel(p):
        p = p.replace("\\/", "/")
        if proj in p:
            p = p.split(proj, 1)[1]
        p = re.sub(r"^(\./)+", "", p)
        while "/./" in p:
            p = p.replace("/./", "/")
        return p
    listing = []
    try:
        doc = json.loads(ev["stdout"])
        for f in (doc.get("generate") or {}).get("files", []):
            listing.append({"fileType": f.get("fileType", ""), "path": rel(f.get("path", ""))})
    except Exception:
        pass
    types = []
    text = (ev.get("texts") or {}).get("gen/schema.d.ts", "")
    # module-level exported type names of the schema declaration file (plumbing: `export type { A as B, ... }` and `export type B =`)
    for m in re.finditer(r"^export type \{([^}]*)\}", text, re.M):
        for part in m.group(1).split(","):
            part = part.strip()
            if part:
                types.append(part.split(" as ")[-1].strip())
    for m in re.finditer(r"^export type (\w+)\b", text, re.M):
        types.append(m.group(1))
    return {"exit": ev["exit"], "panicked": bool(ev["panicked"] or ev["signal"]), "listing": listing,
            "written": sorted(rel(proj + w) for w in ev["written"]), "types": sorted(set(types))}


def run(ctx, res):
    vlib.build_harness()
    vlib.build_cli()
    g = vlib.tlc("Gen_X02", "Gen_X02_quick.cfg" if ctx.quick else "Gen_X02_thorough.cfg", workdir=ctx.work, workers=8, timeout=900)
    res.add_tlc(g)
    scen = g.tagged("CASE")
    cases = [materialise(s, i, ctx.rng) for i, s in enumerate(scen)]
    vlib.write_ndjson(ctx.path("cases.ndjson"), cases)
    vlib.run_harness(["cliproj", vlib.CLI_BIN, ctx.path("cases.ndjson"), ctx.path("runs.ndjson"), ctx.path("proj"), "12"], timeout=3000)
    runs = sorted(vlib.read_ndjson(ctx.path("runs.ndjson")), key=lambda r: r["id"])
    events = [{"ev": "SchemaSourcesRun", "scenario": scen[r["id"]], "obs": observe(r)} for r in runs]
    o = vlib.validate_trace("Trace_X02", "Trace_X02.cfg", events, workdir=ctx.work, timeout=2400)
    res.add_trace(o)
    res.traces = o.events
    res.evaluations = o.events
    res.distinct_nontrivial = len(events)
    res.exhaustive = True
    why = {}
    for s in o.stats:
        why[s["why"]] = why.get(s["why"], 0) + 1
    res.rule = ("Spec->impl: TLC enumerates every scenario of SchemaSources.tla with <= %d schema sources of kind .graphql / unknown extension "
                "/ introspection .json / truncated .json / unparsable SDL x plugin none / model / unknown name x optional outputs: %d runs of "
                "the real CLI; impl->spec: exit status, no write on failure, listing = one typed entry per output (documented fileType), "
                "written = listed, every source's type exported by the schema declaration file." % (2 if ctx.quick else 3, len(events)))
    res.samples = [events[0], events[-1]]
    res.extra.update({"scenarios": len(events), "expected_outcomes": why, "trace_action_coverage": o.coverage})
    res.assumptions = ["JavaScript schema modules are out of reach offline"]


def selftest(ctx):
    vlib.build_harness()
    vlib.build_cli()
    s = {"sources": ["graphql", "gql"], "plugin": "model", "gen": ["resolvers", "server"]}
    vlib.write_ndjson(ctx.path("cases.ndjson"), [materialise(s, 0, ctx.rng)])
    vlib.run_harness(["cliproj", vlib.CLI_BIN, ctx.path("cases.ndjson"), ctx.path("runs.ndjson"), ctx.path("proj"), "1"])
    good = {"ev": "SchemaSourcesRun", "scenario": s, "obs": observe(vlib.read_ndjson(ctx.path("runs.ndjson"))[0])}
    a = json.loads(json.dumps(good)); a["obs"]["listing"][0]["fileType"] = "operationTypeDefinition"       # an entry typed with another role
    b = json.loads(json.dumps(good)); b["obs"]["types"].remove("T2")                                       # the second source's type lost
    c = json.loads(json.dumps(good)); c["scenario"]["sources"] = ["graphql", "json"]                        # a mix that was accepted
    o = vlib.validate_trace("Trace_X02", "Trace_X02.cfg", [good, a, b, c], workdir=ctx.work, nshards=1)
    got = sorted({i["l"] for i in o.items})
    ok = got == [2, 3, 4]
    print("SELFTEST X02: unmodified run accepted, 3 corrupted events rejected at %s -> %s" % (got, "ok" if ok else "FAILED"))
    ctx.cleanup()
    return 0 if ok else 2
