#!/usr/bin/env python3
"""dbg_c01.py <seed> <case-index> [C01|C02]: regenerate one C01/C02 case, dump inputs and emitted texts (development aid)"""
import sys, os, json
sys.path.insert(0, os.path.dirname(os.path.abspath(__file__)))
import vlib
from props import c01
seed, idx = int(sys.argv[1]), int(sys.argv[2])
mode = sys.argv[3] if len(sys.argv) > 3 else "C01"
ctx = vlib.Ctx("C01dbg", "quick", seed)
cases = [c01.make_case(ctx, i, mode == "C02") for i in range(idx + 1)]
c = cases[idx]
c["keepTexts"] = True
vlib.write_ndjson(ctx.path("cases.ndjson"), [c])
vlib.run_harness(["typegen", vlib.CLI_BIN, ctx.path("cases.ndjson"), ctx.path("events.ndjson"), ctx.path("proj"), "1"])
e = vlib.read_ndjson(ctx.path("events.ndjson"))[0]
for f in e["inputs"]:
    if f["rel"].startswith("ops") or "-v" in sys.argv:
        print("=====", f["rel"]); print(f["text"])
for k, v in e.get("texts", {}).items():
    if "graphql" in k and not k.endswith(".map"):
        print("=====", k); print(v[:6000])
print("exit", e["exit"], e["diag"][:2000])
