"""Seeded generator of small VALID executable documents that exercise field MERGING (C01 / C02).

Unlike docgen2 (which aliases every composite field uniquely), the same response key is deliberately selected several times in
one selection scope - directly, inside inline fragments with and without type condition, inside named fragments - with
different sub-selections and different @skip/@include conditions (literal and Boolean variables), because that is where the
result-type printer has to merge.  Validity by construction: one registry per selection scope maps a response key to
(field name, arguments, type, sub-registry); a key is reused only when all of those agree (FieldsInSetCanMerge), otherwise a
fresh alias is taken; fragments are merged into a scope only when their registries are compatible.  TLA+ (Validate.tla)
re-confirms the implemented rules.  Plumbing only.
"""
import copy, json
import docgen as G


def unwrap(t):
    while t["k"] != "named":
        t = t["of"]
    return t["n"]


class Reg:
    """response keys of one selection scope"""
    def __init__(self):
        self.e = {}      # key -> {"sig": json str of (name, args, type), "sub": Reg or None}

    def compatible(self, other):
        for k, v in other.e.items():
            if k in self.e:
                if self.e[k]["sig"] != v["sig"]:
                    return False
                if (self.e[k]["sub"] is None) != (v["sub"] is None):
                    return False
                if v["sub"] is not None and not self.e[k]["sub"].compatible(v["sub"]):
                    return False
        return True

    def merge(self, other):
        for k, v in other.e.items():
            if k in self.e:
                if v["sub"] is not None:
                    self.e[k]["sub"].merge(v["sub"])
            else:
                self.e[k] = {"sig": v["sig"], "sub": v["sub"].clone() if v["sub"] is not None else None}

    def clone(self):
        r = Reg()
        r.merge(self)
        return r


class ExecGen:
    def __init__(self, merged_defs, rng, max_fields=7):
        self.r = rng
        self.types = {d["name"]: d for d in merged_defs if d["k"] in ("scalar", "object", "interface", "union", "enum", "input")}
        for s in ("Int", "Float", "String", "Boolean", "ID"):
            self.types.setdefault(s, {"k": "scalar", "name": s})
        self.schema_ops = {}
        for d in merged_defs:
            if d["k"] == "schema":
                for o in d["ops"]:
                    self.schema_ops[o["op"]] = o["type"]
        self.explicit = any(d["k"] == "schema" for d in merged_defs)
        self.arg_cache = {}
        self.counter = 0
        self.budget = max_fields
        self.used_vars = set()
        self.frag_regs = {}
        self.frag_defs = {}

    def kind(self, n):
        return self.types[n]["k"]

    def possible(self, n):
        k = self.kind(n)
        if k == "object":
            return {n}
        if k == "interface":
            return {o for o, d in self.types.items() if d["k"] == "object" and any(i["n"] == n for i in d["interfaces"])}
        if k == "union":
            return {m["n"] for m in self.types[n]["members"]}
        return set()

    def root(self):
        return self.schema_ops.get("query") if self.explicit else "Query"

    # literal arguments: one fixed choice per (field name, argument name), so equal keys always carry equal arguments
    def lit(self, ty, depth=0):
        if ty["k"] == "nn":
            return self.lit(ty["of"], depth)
        if ty["k"] == "list":
            return {"k": "list", "vs": []}
        n = ty["n"]
        d = self.types[n]
        if n in ("Int", "Float"):
            return G.v_int("1")
        if n in ("String", "ID"):
            return G.v_str(self.r.choice(["s", "s", "\u65e5\u672c\u8a9e \U0001F389", "caf\u00e9"]))
        if n == "Boolean":
            return {"k": "bool", "v": True}
        if d["k"] == "scalar":
            return G.v_str("c")
        if d["k"] == "enum":
            return {"k": "enum", "v": d["values"][0]["name"]}
        fs = [{"name": f["name"], "v": self.lit(f["type"], depth + 1)} for f in d["inputFields"] if f["type"]["k"] == "nn" and not f["hasDefault"]]
        return {"k": "object", "fs": fs}

    def args_for(self, fname, arg_defs):
        key = fname
        if key not in self.arg_cache:
            out = []
            for a in arg_defs:
                required = a["type"]["k"] == "nn" and not a["hasDefault"]
                if required or self.r.chance(1, 4):
                    out.append(G.arg(a["name"], self.lit(a["type"])))
            self.arg_cache[key] = (json.dumps([[a["name"], a["type"]] for a in arg_defs], sort_keys=True), out)
        names, out = self.arg_cache[key]
        if names != json.dumps([[a["name"], a["type"]] for a in arg_defs], sort_keys=True):
            return None          # same field name with another argument list (names or types) elsewhere: caller must alias + build fresh
        return copy.deepcopy(out)

    def cond_dirs(self, allow_vars):
        r = self.r
        if not r.chance(2, 5):
            return []
        d = r.choice(["skip", "include"])
        if allow_vars and r.chance(2, 3):
            v = r.choice(["a", "b"])
            self.used_vars.add(v)
            val = G.v_var(v)
        else:
            val = {"k": "bool", "v": r.chance(1, 2)}
        out = [G.directive(d, [G.arg("if", val)])]
        if allow_vars and r.chance(1, 6):
            # a second, variable-driven condition of the other kind on the same selection (possibly on the same variable)
            d2 = "include" if d == "skip" else "skip"
            v2 = r.choice(["a", "b"])
            self.used_vars.add(v2)
            out.append(G.directive(d2, [G.arg("if", G.v_var(v2))]))
        elif r.chance(1, 8):
            d2 = "include" if d == "skip" else "skip"
            out.append(G.directive(d2, [G.arg("if", {"k": "bool", "v": d2 == "include"})]))
        return out

    def fresh(self):
        self.counter += 1
        return "k%d" % self.counter

    def selection(self, parent, depth, reg, frags, allow_vars, n=None, all_aliased=False):
        """all_aliased: every field of this selection set (not of nested ones) gets a fresh alias - the second selection of an already
        selected composite key is often made of aliased fields only, so that the merged branch owes some keys to aliases alone"""
        r = self.r
        k = self.kind(parent)
        fields = self.types[parent]["fields"] if k in ("object", "interface") else []
        sel = []
        n = n or (1 + r.below(3))
        for _ in range(n):
            c = r.below(12)
            if c < 6 and fields and self.budget > 0:
                # prefer a field that is already selected in this scope (merging) half of the time
                again = [f for f in fields if f["name"] in reg.e]
                f = r.choice(again) if again and r.chance(1, 2) else r.choice(fields)
                ut = unwrap(f["type"])
                composite = self.kind(ut) in ("object", "interface", "union")
                if composite and depth >= 2:
                    continue
                args = self.args_for(f["name"], f["args"])
                key = f["name"] if not (all_aliased or r.chance(1, 6)) else self.fresh()
                if args is None:
                    args = [G.arg(a["name"], self.lit(a["type"])) for a in f["args"] if a["type"]["k"] == "nn" and not a["hasDefault"]]
                    key = self.fresh()
                sig = json.dumps([f["name"], args, f["type"]], sort_keys=True)
                if key in reg.e and (reg.e[key]["sig"] != sig or (reg.e[key]["sub"] is None) == composite):
                    key = self.fresh()
                if key not in reg.e:
                    reg.e[key] = {"sig": sig, "sub": Reg() if composite else None}
                self.budget -= 1
                merged_again = composite and bool(reg.e[key]["sub"].e)
                sub = self.selection(ut, depth + 1, reg.e[key]["sub"], frags, allow_vars,
                                     all_aliased=merged_again and r.chance(1, 2)) if composite else None
                sel.append(G.field(f["name"], key if key != f["name"] else None, args, self.cond_dirs(allow_vars), sub))
            elif c < 7:
                key = "__typename" if not all_aliased and r.chance(3, 4) else self.fresh()
                sig = json.dumps(["__typename"])
                if key in reg.e and reg.e[key]["sig"] != sig:
                    continue
                reg.e[key] = {"sig": sig, "sub": None}
                sel.append(G.field("__typename", key if key != "__typename" else None, None, self.cond_dirs(allow_vars)))
            elif all_aliased:
                continue
            elif c < 10 and depth < 3:
                cands = sorted(t for t, d in self.types.items() if d["k"] in ("object", "interface", "union") and self.possible(t) & self.possible(parent))
                t = None if (r.chance(1, 4) or not cands) else r.choice(cands)
                inner = self.selection(t or parent, depth, reg, frags, allow_vars, 1 + r.below(2))
                # often nest a named fragment (or another inline fragment) directly inside the conditional fragment
                if r.chance(1, 2):
                    ok = [f for f in frags if self.possible(self.frag_defs[f]["on"]) & self.possible(t or parent) and reg.compatible(self.frag_regs[f])]
                    if ok:
                        fname = r.choice(ok)
                        reg.merge(self.frag_regs[fname])
                        self.used_vars |= self.frag_vars[fname]
                        inner.append(G.spread(fname, self.cond_dirs(allow_vars) if r.chance(1, 3) else []))
                sel.append(G.inline(inner, t, self.cond_dirs(allow_vars)))
            else:
                ok = [f for f in frags if self.possible(self.frag_defs[f]["on"]) & self.possible(parent) and reg.compatible(self.frag_regs[f])]
                if ok:
                    fname = r.choice(ok)
                    reg.merge(self.frag_regs[fname])
                    self.used_vars |= self.frag_vars[fname]
                    sel.append(G.spread(fname, self.cond_dirs(allow_vars)))
        if not sel and all_aliased:
            k = self.fresh()
            reg.e[k] = {"sig": json.dumps(["__typename"]), "sub": None}
            sel.append(G.field("__typename", k))
        if not sel:
            if "__typename" not in reg.e:
                reg.e["__typename"] = {"sig": json.dumps(["__typename"]), "sub": None}
            if reg.e["__typename"]["sig"] == json.dumps(["__typename"]):
                sel.append(G.field("__typename"))
            else:
                sel.append(G.field("__typename", self.fresh()))
        return sel

    def document(self, nfrags):
        r = self.r
        composites = sorted(t for t, d in self.types.items() if d["k"] in ("object", "interface", "union"))
        names = ["Fr%d" % i for i in range(nfrags)]
        self.frag_vars = {}
        defs = []
        for i in reversed(range(nfrags)):
            on = r.choice(composites)
            reg = Reg()
            saved = self.used_vars
            self.used_vars = set()
            fd = G.frag(names[i], [], on)
            self.frag_defs[names[i]] = fd
            self.frag_regs[names[i]] = reg
            self.frag_vars[names[i]] = set()
            self.budget = 3
            fd["sel"] = self.selection(on, 1, reg, names[i + 1:], True)
            self.frag_vars[names[i]] = set(self.used_vars)
            self.used_vars = saved
            defs.insert(0, fd)
        self.budget = 6
        self.used_vars = set()
        sel = self.selection(self.root(), 0, Reg(), names, True, 2 + r.below(2))
        # one composite field selected THREE times in the operation's root selection set: plainly, then twice under conditions on one variable the
        # first selection does not mention (the merge of the first two must remember what the second branched on)
        if r.chance(1, 3):
            root = self.root()
            for f in self.types[root]["fields"]:
                ut = unwrap(f["type"])
                if self.kind(ut) not in ("object", "interface") or any(a["type"]["k"] == "nn" and not a["hasDefault"] for a in f["args"]):
                    continue
                leaves = [g for g in self.types[ut]["fields"] if self.kind(unwrap(g["type"])) not in ("object", "interface", "union")
                          and not any(a["type"]["k"] == "nn" and not a["hasDefault"] for a in g["args"])]
                key = "tri"
                if len(leaves) < 2:
                    continue
                v = r.choice(["a", "b"])
                self.used_vars.add(v)
                l0, l1, l2 = leaves[0], leaves[1 % len(leaves)], leaves[2 % len(leaves)]
                sel.append(G.field(f["name"], key, [], [], [G.field(l0["name"], "t0")]))
                sel.append(G.field(f["name"], key, [], [], [G.field(l1["name"], "t1", None, [G.directive("skip", [G.arg("if", G.v_var(v))])])]))
                sel.append(G.field(f["name"], key, [], [], [G.field(l2["name"], "t2", None, [G.directive("include", [G.arg("if", G.v_var(v))])])]))
                break
        spread_names = set()

        def spreads(s):
            for x in s:
                if x["k"] == "spread":
                    spread_names.add(x["name"])
                elif x["k"] == "inline" or (x["k"] == "field" and x["hasSel"]):
                    spreads(x["sel"])
        spreads(sel)
        # fragments reachable from the operation (others are dropped: an unused fragment is not spec-valid)
        reach, todo = set(), list(spread_names)
        while todo:
            f = todo.pop()
            if f in reach:
                continue
            reach.add(f)
            spread_names.clear()
            spreads(self.frag_defs[f]["sel"])
            todo.extend(spread_names)
        used = set(self.used_vars)
        for f in reach:
            used |= self.frag_vars[f]
        vars_ = [G.vardef(v, G.nn(G.named("Boolean"))) for v in sorted(used)]
        op = G.op("Op", sel, "query", vars_)
        return {"defs": [op] + [d for d in defs if d["name"] in reach]}
