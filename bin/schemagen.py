"""Abstract, VALID schema models (TsDoc shape of harness/ABSTRACT_JSON.md, positions omitted) used by C05/C10/C15/C16/C17.

Plumbing only.  `catalogue()` returns hand-written schemas spanning the constructs the properties name; `decorate`
fills every description slot / default string from a table of awkward strings.
"""
import copy
import docgen as G

N, L, NN = G.named, G.lst, G.nn


def cp(s):
    return [ord(c) for c in s]


def desc(value=None, block=False):
    if value is None:
        return {"has": False, "cp": [], "block": False}
    return {"has": True, "cp": cp(value), "block": block}


def ival(name, ty, default=None, dirs=None, d=None):
    return {"name": name, "desc": d or desc(), "type": ty, "hasDefault": default is not None, "default": default or {"k": "null"},
            "dirs": dirs or []}


def fdef(name, ty, args=None, dirs=None, d=None):
    return {"name": name, "desc": d or desc(), "args": args or [], "type": ty, "dirs": dirs or []}


def tdef(k, name, ext=False, d=None, dirs=None, interfaces=None, fields=None, members=None, values=None, input_fields=None):
    return {"k": k, "ext": ext, "name": name, "desc": d or desc(), "dirs": dirs or [],
            "interfaces": [{"n": n} for n in (interfaces or [])], "fields": fields or [],
            "members": [{"n": n} for n in (members or [])], "values": values or [], "inputFields": input_fields or []}


def evalue(name, dirs=None, d=None):
    return {"name": name, "desc": d or desc(), "dirs": dirs or []}


def schema_def(ops, ext=False, dirs=None, d=None):
    return {"k": "schema", "ext": ext, "desc": d or desc(), "dirs": dirs or [], "ops": [{"op": o, "type": t} for o, t in ops]}


def dirdef(name, locations, args=None, repeatable=False, d=None):
    return {"k": "directive", "name": name, "desc": d or desc(), "args": args or [], "repeatable": repeatable,
            "locations": [{"n": n} for n in locations]}


def dep(reason=None):
    return G.directive("deprecated", [G.arg("reason", G.v_str(reason))] if reason is not None else [])


def s_default_roots():
    """default root names, interfaces (incl. interface implementing interface), union, enum, input objects, custom scalar"""
    tag = lambda n="t": G.directive("tag", [G.arg("name", G.v_str(n))])
    return {"defs": [
        tdef("scalar", "Date"),
        dirdef("tag", ["OBJECT", "FIELD_DEFINITION", "ARGUMENT_DEFINITION", "INTERFACE", "UNION", "ENUM", "ENUM_VALUE", "INPUT_OBJECT",
                       "INPUT_FIELD_DEFINITION", "SCALAR"], [ival("name", NN(N("String")), G.v_str("t")), ival("n", N("Int"))], True),
        dirdef("exec", ["QUERY", "MUTATION", "SUBSCRIPTION", "FIELD", "FRAGMENT_DEFINITION", "FRAGMENT_SPREAD", "INLINE_FRAGMENT",
                        "VARIABLE_DEFINITION"], [ival("n", N("Int")), ival("must", NN(N("String")), G.v_str("d"))], True),
        tdef("interface", "Node", fields=[fdef("id", NN(N("ID")))]),
        tdef("interface", "Named", interfaces=["Node"], fields=[fdef("id", NN(N("ID"))), fdef("name", N("String"))], dirs=[tag()]),
        tdef("object", "User", interfaces=["Named", "Node"], dirs=[tag("u"), tag("v")], fields=[
            fdef("id", NN(N("ID"))), fdef("name", N("String"), dirs=[tag()]),
            fdef("age", N("Int"), [ival("unit", N("Unit"), {"k": "enum", "v": "YEARS"}, [tag()])]),
            fdef("friends", NN(L(NN(N("User")))), [ival("first", N("Int"), G.v_int("10")), ival("after", N("String")), ival("filter", N("Filter"))]),
            fdef("created", N("Date")), fdef("old", N("String"), dirs=[dep("gone")]), fdef("matrix", L(L(N("Int")))),
            fdef("strict", NN(L(NN(L(NN(N("Float"))))))), fdef("flag", NN(N("Boolean")))]),
        tdef("object", "Post", interfaces=["Node"], fields=[fdef("id", NN(N("ID"))), fdef("title", NN(N("String"))), fdef("author", N("User"))]),
        tdef("object", "Lone", fields=[fdef("x", N("Int"))]),
        tdef("union", "Item", members=["User", "Post"], dirs=[tag()]),
        tdef("union", "Single", members=["Lone"]),
        tdef("enum", "Unit", dirs=[tag()], values=[evalue("YEARS"), evalue("DAYS", [dep("no")]), evalue("HOURS", [tag()])]),
        tdef("input", "Filter", dirs=[tag()], input_fields=[
            ival("q", N("String"), G.v_str("x")), ival("tags", L(NN(N("String")))), ival("nested", N("Filter")),
            ival("unit", N("Unit"), {"k": "enum", "v": "DAYS"}, [tag()]), ival("req", NN(N("Int"))), ival("when", N("Date")),
            ival("pts", L(L(NN(N("Int"))))), ival("lim", NN(N("Int")), G.v_int("5"))]),
        tdef("input", "Other", input_fields=[ival("f", NN(N("Filter"))), ival("fs", NN(L(NN(N("Filter")))))]),
        tdef("object", "Query", fields=[fdef("node", N("Node"), [ival("id", NN(N("ID")))]), fdef("items", L(N("Item"))), fdef("me", N("User")),
                                        fdef("named", L(NN(N("Named")))), fdef("search", NN(L(N("Item"))), [ival("f", N("Filter")), ival("o", N("Other"))]),
                                        fdef("single", N("Single")), fdef("unit", N("Unit")), fdef("when", N("Date"))]),
        tdef("object", "Mutation", fields=[fdef("rename", N("User"), [ival("id", NN(N("ID"))), ival("name", NN(N("String")))])]),
        tdef("object", "Subscription", fields=[fdef("tick", NN(N("Int")))]),
    ]}


def s_explicit_roots():
    """explicit schema block with renamed roots, a type called Mutation that is NOT the mutation root, extensions of every kind"""
    return {"defs": [
        schema_def([("query", "Q"), ("mutation", "M")], d=desc("the schema")),
        tdef("object", "Q", fields=[fdef("a", N("Int")), fdef("m", N("Mutation")), fdef("u", N("U")), fdef("e", N("E"))]),
        tdef("object", "M", fields=[fdef("set", N("Int"), [ival("v", N("In"))])]),
        tdef("object", "Mutation", fields=[fdef("notRoot", N("Int"))]),
        tdef("object", "A", fields=[fdef("x", N("Int"))]), tdef("object", "B", fields=[fdef("y", N("Int"))]),
        tdef("union", "U", members=["A"]), tdef("enum", "E", values=[evalue("ONE")]),
        tdef("input", "In", input_fields=[ival("a", N("Int"))]), tdef("scalar", "Sc"), tdef("interface", "I", fields=[fdef("x", N("Int"))]),
        tdef("interface", "Base", fields=[fdef("x", N("Int"))]),
        dirdef("mark", ["SCHEMA", "SCALAR", "OBJECT", "INTERFACE", "UNION", "ENUM", "INPUT_OBJECT"]),
        schema_def([("subscription", "S")], True, [G.directive("mark")]),
        tdef("object", "S", fields=[fdef("s", N("Int"))]),
        tdef("object", "A", True, interfaces=["I", "Base"], dirs=[G.directive("mark")], fields=[fdef("z", N("Sc"))]),
        tdef("union", "U", True, members=["B"], dirs=[G.directive("mark")]),
        tdef("enum", "E", True, values=[evalue("TWO")], dirs=[G.directive("mark")]),
        tdef("input", "In", True, input_fields=[ival("b", N("String"), G.v_str("d"))], dirs=[G.directive("mark")]),
        tdef("scalar", "Sc", True, dirs=[G.directive("mark")]),
        # an interface EXTENSION that adds an `implements` clause (interfaces implementing interfaces)
        tdef("interface", "I", True, interfaces=["Base"], fields=[fdef("w", N("Int"))], dirs=[G.directive("mark")]),
        tdef("object", "A", True, fields=[fdef("w", N("Int"))]),
    ]}


def s_ops():
    """the schema of docgen.OPS_SCHEMA as a model"""
    return {"defs": [
        tdef("object", "Query", fields=[fdef("a", N("Int")),
                                        fdef("b", N("String"), [ival("x", N("Int")), ival("s", N("String")), ival("l", L(N("Int"))), ival("o", N("In")),
                                                                ival("e", N("E")), ival("f", N("Float")), ival("bo", N("Boolean")), ival("id", N("ID"))]),
                                        fdef("q", N("Query")), fdef("qs", L(NN(N("Query")))), fdef("n", N("Node"))]),
        tdef("interface", "Node", fields=[fdef("id", NN(N("ID")))]),
        tdef("object", "U", interfaces=["Node"], fields=[fdef("id", NN(N("ID"))), fdef("name", N("String"))]),
        tdef("input", "In", input_fields=[ival("a", N("Int")), ival("b", L(NN(N("In")))), ival("s", N("String"))]),
        tdef("enum", "E", values=[evalue("A"), evalue("B")]),
        tdef("object", "Mutation", fields=[fdef("m", N("Int"), [ival("x", N("Int"))]), fdef("q", N("Query"))]),
        tdef("object", "Subscription", fields=[fdef("s", N("Int"))]),
        dirdef("dv", ["VARIABLE_DEFINITION"], [ival("a", N("Int"))]),
        dirdef("dq", ["QUERY", "MUTATION", "SUBSCRIPTION", "FIELD", "FRAGMENT_DEFINITION", "FRAGMENT_SPREAD", "INLINE_FRAGMENT"], [ival("s", N("String"))]),
    ]}


def catalogue():
    return [("defaultRoots", s_default_roots()), ("explicitRoots", s_explicit_roots()), ("ops", s_ops())]


AWKWARD = ["plain", "say \"hi\" \\ there", "back`tick ${x} $ { \\`", "*/ end /* comment", "multi\nline\n  indented", "tab\tand\u0001ctl",
           "trailing quote\"", "\"\"\" triple", "uni é 中 \U0001F600", "ends with backslash\\", "cr\rlf\r\nmix", " leading space", "''single''", "$`date` $$ $", "^\\d+$\\s*", "$${amount} ${a}${b} \\${c}", "{$}{ $\\{ `${`"]


def decorate(doc, strings, rng=None):
    """every description slot gets a string from `strings` (round robin); String defaults get one too"""
    d = copy.deepcopy(doc)
    k = [0]

    def nxt():
        s = strings[k[0] % len(strings)]
        k[0] += 1
        return s

    def dsc():
        s = nxt()
        return desc(s, "\n" in s and "\r" not in s and not s.endswith(chr(34)))

    for t in d["defs"]:
        if t["k"] == "directive":
            t["desc"] = dsc()
            for a in t["args"]:
                a["desc"] = dsc()
            continue
        if not t["ext"]:
            t["desc"] = dsc()
        if t["k"] == "schema":
            continue
        for f in t["fields"]:
            f["desc"] = dsc()
            for a in f["args"]:
                a["desc"] = dsc()
                if a["hasDefault"] and a["default"]["k"] == "string":
                    a["default"] = G.v_str(nxt())
        for v in t["values"]:
            v["desc"] = dsc()
        for f in t["inputFields"]:
            f["desc"] = dsc()
            if f["hasDefault"] and f["default"]["k"] == "string":
                f["default"] = G.v_str(nxt())
        for dr in t["dirs"]:
            for a in dr["args"]:
                if a["v"]["k"] == "string":
                    a["v"] = G.v_str(nxt())
    return d
