#!/usr/bin/env python3
"""Seeded-change workflow (development aid; not part of any registered check).

  seedflow.py verify <tag>            confirm, in the scratch worktree /tmp/wt/<tag>, that the change delivered in
                                      /tmp/seed_out/<tag> applies to /repo HEAD, compiles, keeps the pinned suite green, and
                                      that its demonstration passes without and fails with the change; then store it under
                                      /verif/seeded/<tag>/ (patch.diff, demo/, meta.json)
  seedflow.py detect <tag> [Cxx ...]  run quick checks against a scratch worktree of /repo HEAD + seeded/<tag>/patch.diff
                                      (own copy of the harness with paths rewritten; /repo itself is never touched) and record the
                                      outcome in seeded/<tag>/detection.json
  seedflow.py detect-inplace <tag> [Cxx ...]   the same through `git -C /repo apply` + `git -C /repo checkout -- .`
  seedflow.py full <tag> [Cxx ...]    verify, detect, then remove the scratch worktree and its build output
  seedflow.py clean <tag>             remove the scratch worktree
"""
import json, os, shutil, subprocess, sys, time

VERIF = os.path.dirname(os.path.dirname(os.path.abspath(__file__)))


def sh(cmd, cwd=None, env=None, timeout=None):
    return subprocess.run(cmd, shell=isinstance(cmd, str), cwd=cwd, env=env, stdout=subprocess.PIPE, stderr=subprocess.STDOUT, text=True,
                          timeout=timeout)


def head():
    return subprocess.check_output(["git", "-C", "/repo", "rev-parse", "HEAD"], text=True).strip()


def ensure_worktree(wt):
    if not os.path.isdir(wt):
        os.makedirs(os.path.dirname(wt), exist_ok=True)
        r = sh(["git", "-C", "/repo", "worktree", "add", "--detach", wt, "HEAD"])
        if r.returncode != 0:
            raise SystemExit(r.stdout)
    sh("git checkout -q -- . ; git clean -qfd -e target -e _h -e _w -e _e; git checkout -q --detach %s" % head(), cwd=wt)


def verify(tag):
    wt, so = "/tmp/wt/" + tag, "/tmp/seed_out/" + tag
    meta = json.load(open(os.path.join(so, "meta.json")))
    ensure_worktree(wt)
    env = dict(os.environ, CARGO_NET_OFFLINE="true")
    dest = os.path.join(wt, meta["demo_dest"])
    os.makedirs(os.path.dirname(dest), exist_ok=True)
    shutil.copy(os.path.join(so, "demo", meta["demo_src"]), dest)
    r0 = sh(meta["demo_cmd"], cwd=wt, env=env)
    print("demo WITHOUT patch: rc=%d" % r0.returncode)
    print(r0.stdout[-500:])
    a = sh(["git", "apply", os.path.join(so, "patch.diff")], cwd=wt)
    if a.returncode != 0:
        print("patch does not apply:", a.stdout)
        return 1
    r1 = sh(meta["demo_cmd"], cwd=wt, env=env)
    print("demo WITH patch: rc=%d" % r1.returncode)
    print(r1.stdout[-900:])
    os.remove(dest)
    t = sh("cargo test --workspace --no-fail-fast --offline -j 8 2>&1 | grep -E '^test result' | awk '{p+=$4; f+=$6} END {print p, f}'", cwd=wt, env=env)
    print("suite with patch (passed failed):", t.stdout.strip())
    ok = r0.returncode == 0 and r1.returncode != 0 and t.stdout.split()[:2] == ["215", "0"]
    print("VERIFIED" if ok else "NOT VERIFIED")
    if ok:
        d = os.path.join(VERIF, "seeded", tag)
        os.makedirs(d + "/demo", exist_ok=True)
        shutil.copy(os.path.join(so, "patch.diff"), d)
        for f in os.listdir(os.path.join(so, "demo")):
            p = os.path.join(so, "demo", f)
            if os.path.isfile(p):
                shutil.copy(p, d + "/demo")
        meta["verified_by_me"] = {"repo_head": head(), "demo_cmd": meta["demo_cmd"], "demo_rc_without_patch": r0.returncode,
                                  "demo_rc_with_patch": r1.returncode, "suite_with_patch": t.stdout.strip()}
        json.dump(meta, open(d + "/meta.json", "w"), indent=1)
    return 0 if ok else 1


def scratch_harness(wt):
    """a copy of /verif/harness whose path dependencies point into the scratch worktree"""
    h = os.path.join(wt, "_h")
    os.makedirs(h, exist_ok=True)
    src = os.path.join(VERIF, "harness")
    for root, dirs, files in os.walk(src):
        dirs[:] = [d for d in dirs if d not in ("target", "samples")]
        rel = os.path.relpath(root, src)
        os.makedirs(os.path.join(h, rel), exist_ok=True)
        for f in files:
            p = os.path.join(root, f)
            q = os.path.join(h, rel, f)
            if f.endswith((".rs", ".toml")):
                text = open(p).read().replace("/repo/", wt + "/")
                if not os.path.exists(q) or open(q).read() != text:
                    open(q, "w").write(text)
            else:
                shutil.copy(p, q)
    return h


def detect(tag, props, inplace=False):
    d = os.path.join(VERIF, "seeded", tag)
    meta = json.load(open(os.path.join(d, "meta.json")))
    props = props or [meta["property"]]
    results = {}
    if inplace:
        if sh(["git", "-C", "/repo", "status", "--porcelain"]).stdout.strip():
            raise SystemExit("/repo is not clean")
        a = sh(["git", "-C", "/repo", "apply", os.path.join(d, "patch.diff")])
        if a.returncode != 0:
            raise SystemExit("patch does not apply to /repo: " + a.stdout)
        env = dict(os.environ)
    else:
        wt = "/tmp/wt/" + tag
        ensure_worktree(wt)
        a = sh(["git", "apply", os.path.join(d, "patch.diff")], cwd=wt)
        if a.returncode != 0:
            raise SystemExit("patch does not apply: " + a.stdout)
        h = scratch_harness(wt)
        env = dict(os.environ, VERIF_REPO_DIR=wt, VERIF_HARNESS_DIR=h, VERIF_WORK_DIR=os.path.join(wt, "_w"), VERIF_EVID_DIR=os.path.join(wt, "_e"))
    try:
        for pid in props:
            t0 = time.time()
            r = sh([os.path.join(VERIF, "bin", "check"), pid, "quick"], cwd=VERIF, env=env, timeout=3600)
            lines = [l for l in r.stdout.splitlines() if l.startswith(("VIOLATION", "KNOWN-FINDING", "OK ", "TOOL ERROR"))]
            results[pid] = {"rc": r.returncode, "lines": lines, "wall_s": round(time.time() - t0, 1), "tail": r.stdout[-1500:] if r.returncode not in (0, 1) else "",
                            "discrepancies": [l[:400] for l in r.stdout.splitlines() if "discrepancy:" in l][:3]}
            print(tag, pid, "rc=%d" % r.returncode, lines[:2])
    finally:
        if inplace:
            sh(["git", "-C", "/repo", "checkout", "--", "."])
    rec = {"tag": tag, "repo_head": head(), "verif_commit": subprocess.check_output(["git", "-C", VERIF, "rev-parse", "--short", "HEAD"], text=True).strip(),
           "mode": "inplace" if inplace else "scratch-worktree", "verif_seed": int(os.environ.get("VERIF_SEED", "1")), "results": results,
           "detected_by": sorted(p for p, r in results.items() if r["rc"] == 1)}
    path = os.path.join(d, "detection.json")
    old = json.load(open(path)) if os.path.exists(path) else {"runs": []}
    old["runs"].append(rec)
    old["detected_by"] = sorted(set(old.get("detected_by", [])) | set(rec["detected_by"]))
    json.dump(old, open(path, "w"), indent=1)
    return 0


def clean(tag):
    wt = "/tmp/wt/" + tag
    r = sh(["git", "-C", "/repo", "worktree", "remove", "--force", wt])
    if r.returncode != 0:
        shutil.rmtree(wt, ignore_errors=True)
        sh(["git", "-C", "/repo", "worktree", "prune"])
    return 0


if __name__ == "__main__":
    cmd, tag = sys.argv[1], sys.argv[2]
    if cmd == "full":       # verify, detect with the property's own check (+ extra checks), then remove the scratch worktree
        rc = verify(tag)
        if rc == 0:
            detect(tag, sys.argv[3:])
        clean(tag)
        sys.exit(rc)
    if cmd == "clean":
        sys.exit(clean(tag))
    if cmd == "verify":
        sys.exit(verify(tag))
    elif cmd == "detect":
        sys.exit(detect(tag, sys.argv[3:]))
    elif cmd == "detect-inplace":
        sys.exit(detect(tag, sys.argv[3:], True))
