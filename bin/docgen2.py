"""Schema-driven generator of VALID abstract executable documents, and labelled fault injection (C03/C04/C01...).

Plumbing only: whether a generated document really is valid, and whether a mutated one really violates a rule,
is decided in TLA+ (Validate.tla); documents the reference does not agree on are discarded there.
"""
import copy
import docgen as G

BUILTIN_SCALARS = {"Int", "Float", "String", "Boolean", "ID"}


def unwrap(t):
    while t["k"] != "named":
        t = t["of"]
    return t["n"]


class SchemaDocGen:
    def __init__(self, model, rng):
        self.rng = rng
        self.types = {d["name"]: d for d in model["defs"] if d["k"] in ("scalar", "object", "interface", "union", "enum", "input")}
        for s in BUILTIN_SCALARS:
            self.types.setdefault(s, {"k": "scalar", "name": s})
        self.schema_ops = {}
        for d in model["defs"]:
            if d["k"] == "schema":
                for o in d["ops"]:
                    self.schema_ops[o["op"]] = o["type"]
        self.explicit = any(d["k"] == "schema" for d in model["defs"])
        self.exec_dirs = [d for d in model["defs"] if d["k"] == "directive" and any(l["n"] == "FIELD" for l in d["locations"])]
        self.vars = {}
        self.counter = 0
        self.prefix = "k"
        self.frag_defs = {}

    # ---- schema queries (generator-side only) ----
    def kind(self, n):
        return self.types[n]["k"]

    def possible(self, n):
        k = self.kind(n)
        if k == "object":
            return {n}
        if k == "interface":
            return {o for o, d in self.types.items() if d["k"] == "object" and any(i["n"] == n for i in d["interfaces"])}
        if k == "union":
            return {m["n"] for m in self.types[n]["members"]}
        return set()

    def root(self, op):
        if self.explicit:
            return self.schema_ops.get(op)
        n = {"query": "Query", "mutation": "Mutation", "subscription": "Subscription"}[op]
        return n if n in self.types else None

    # ---- values ----
    def use_var(self, ty, loc_has_default):
        """a variable usable at a location of type `ty`"""
        r = self.rng
        key = G_type_str(ty)
        name = "v%d" % (abs(hash(key)) % 5 + len(key) % 3)
        name = "v_" + "".join(c if c.isalnum() else "_" for c in key)[:20] + str(r.below(2))
        if ty["k"] == "nn" and loc_has_default and r.chance(1, 2):
            # a NULLABLE variable without default at a non-null location that has a default of its own (argument or input field):
            # IsVariableUsageAllowed lets the location's default stand in.  A name of its own: it fits such locations only.
            name = "vd" + name[1:]
            if name not in self.vars:
                self.vars[name] = G.vardef(name, ty["of"], None)
            return G.v_var(name)
        if name not in self.vars:
            vt, default = ty, None
            if ty["k"] == "nn" and r.chance(1, 4):
                # nullable variable with a non-null default in a non-null position (IsVariableUsageAllowed)
                vt = ty["of"]
                default = self.value(vt, 2, allow_var=False, allow_null=False)
            elif ty["k"] != "nn" and r.chance(1, 3):
                if r.chance(1, 2):
                    vt = G.nn(ty)          # non-null variable in a nullable position
                else:
                    default = self.value(ty, 2, allow_var=False)
            if default is None and r.chance(1, 2):
                # a list variable whose ITEMS are stricter than the location's (AreTypesCompatible looks inside lists): [T!] into [T], [[T!]!] into [[T]]
                def stricter(t):
                    if t["k"] == "nn":
                        return G.nn(stricter(t["of"]))
                    if t["k"] == "list":
                        inner = stricter(t["of"])
                        return G.lst(inner if inner["k"] == "nn" else G.nn(inner))
                    return t
                vt = stricter(vt)
            self.vars[name] = G.vardef(name, vt, default)
        else:
            # an existing variable of a compatible type is reused as is
            pass
        return G.v_var(name)

    def value(self, ty, depth=0, allow_var=True, allow_null=True, loc_has_default=False):
        r = self.rng
        if allow_var and self.allow_vars and r.chance(1, 5):
            return self.use_var(ty, loc_has_default)
        if ty["k"] == "nn":
            return self.value(ty["of"], depth, False, False)
        if allow_null and r.chance(1, 8):
            return {"k": "null"}
        if ty["k"] == "list":
            if r.chance(1, 5):
                inner = ty                                                  # single NON-LIST value coerced to a (nested) list of one
                while inner["k"] != "named":
                    inner = inner["of"]
                return self.value(inner, depth + 1, False, False)
            return {"k": "list", "vs": [self.value(ty["of"], depth + 1, False, ty["of"]["k"] != "nn") for _ in range(r.below(3))]}
        n = ty["n"]
        k = self.kind(n)
        if k == "scalar":
            if n == "Int":
                return G.v_int(r.choice(["0", "7", "-3"]))
            if n == "Float":
                # an Int literal coerces to Float whatever its magnitude (only Int positions are bound to 32 bits)
                return r.choice([{"k": "float", "v": "1.5"}, G.v_int("2"), G.v_int("1700000000000"), G.v_int("-9007199254740993"), {"k": "float", "v": "1e400"}])
            if n == "String":
                return G.v_str(r.choice(["", "s", "two words"]))
            if n == "Boolean":
                return {"k": "bool", "v": r.chance(1, 2)}
            if n == "ID":
                return r.choice([G.v_str("id"), G.v_int("9"), G.v_int("1212092628029698048"), G.v_int("-2147483649")])
            return r.choice([G.v_str("custom"), G.v_int("1")])
        if k == "enum":
            return {"k": "enum", "v": r.choice(self.types[n]["values"])["name"]}
        if k == "input":
            fs = []
            for f in self.types[n]["inputFields"]:
                required = f["type"]["k"] == "nn" and not f["hasDefault"]
                if required or (depth < 2 and r.chance(1, 3)):
                    fs.append({"name": f["name"], "v": self.value(f["type"], depth + 1, allow_var and depth < 1, True, f["hasDefault"])})
            return {"k": "object", "fs": fs}
        raise ValueError(n)

    def args_for(self, arg_defs):
        out = []
        for a in arg_defs:
            required = a["type"]["k"] == "nn" and not a["hasDefault"]
            if required or self.rng.chance(1, 3):
                out.append(G.arg(a["name"], self.value(a["type"], 0, True, True, a["hasDefault"])))
        return out

    def cond_dirs(self, loc="FIELD"):
        r = self.rng
        out = []
        if r.chance(1, 6):
            d = r.choice(["skip", "include"])
            if self.allow_vars and r.chance(1, 2):
                v = self.use_var(G.nn(G.named("Boolean")), False)
            else:
                v = {"k": "bool", "v": r.chance(1, 2)}
            out.append(G.directive(d, [G.arg("if", v)]))
        for dd in self.exec_dirs:
            if r.chance(1, 10) and any(l["n"] == loc for l in dd["locations"]):
                out.append(G.directive(dd["name"], self.args_for(dd["args"])))
        return out

    # ---- selections ----
    def selection(self, parent, depth, frags):
        r = self.rng
        k = self.kind(parent)
        sel, keys = [], set()
        n = 1 + r.below(3)
        fields = self.types[parent]["fields"] if k in ("object", "interface") else []
        for _ in range(n):
            c = r.below(10)
            if c < 6 and fields:
                f = r.choice(fields)
                ut = unwrap(f["type"])
                composite = self.kind(ut) in ("object", "interface", "union")
                if composite and depth >= 3:
                    continue
                alias = None
                if composite or f["args"] or r.chance(1, 4):
                    self.counter += 1
                    alias = "%s_%d" % (self.prefix, self.counter)
                key = alias or f["name"]
                if key in keys:
                    continue
                keys.add(key)
                sel.append(G.field(f["name"], alias, self.args_for(f["args"]), self.cond_dirs(),
                                   self.selection(ut, depth + 1, frags) if composite else None))
            elif c < 7:
                if "__typename" not in keys:
                    keys.add("__typename")
                    sel.append(G.field("__typename"))
            elif c < 9 and depth < 3:
                # inline fragment: no condition, or any composite type whose possible types overlap
                cands = [t for t, d in self.types.items() if d["k"] in ("object", "interface", "union") and self.possible(t) & self.possible(parent)]
                if r.chance(1, 4) or not cands:
                    sel.append(G.inline(self.selection(parent, depth + 1, frags), None, self.cond_dirs("INLINE_FRAGMENT")))
                else:
                    t = r.choice(sorted(cands))
                    sel.append(G.inline(self.selection(t, depth + 1, frags), t, self.cond_dirs("INLINE_FRAGMENT")))
            else:
                ok = [f for f in frags if self.possible(self.frag_defs[f]["on"]) & self.possible(parent)]
                if ok:
                    sel.append(G.spread(r.choice(ok), self.cond_dirs("FRAGMENT_SPREAD")))
        if not sel:
            sel.append(G.field("__typename"))
        return sel

    def document(self, nfrags=2, nops=1):
        r = self.rng
        composites = sorted(t for t, d in self.types.items() if d["k"] in ("object", "interface", "union") and not t.startswith("__"))
        self.frag_defs = {}
        names = ["Fr%d" % i for i in range(nfrags)]
        defs = []
        # fragments: later ones may be spread by earlier ones (acyclic); variable-free
        for i in reversed(range(nfrags)):
            self.allow_vars = False
            self.prefix = "f%d" % i
            on = r.choice(composites)
            fd = G.frag(names[i], [G.field("__typename")], on)
            self.frag_defs[names[i]] = fd
            fd["sel"] = self.selection(on, 1, names[i + 1:])
            defs.insert(0, fd)
        ops = []
        kinds = [o for o in ("query", "mutation", "subscription") if self.root(o)]
        for i in range(nops):
            self.allow_vars = True
            self.vars = {}
            ot = r.choice(kinds) if i else "query" if "query" in kinds else kinds[0]
            self.prefix = "o%d" % i
            rt = self.root(ot)
            if ot == "subscription":
                f = r.choice(self.types[rt]["fields"])
                ut = unwrap(f["type"])
                comp = self.kind(ut) in ("object", "interface", "union")
                first = G.field(f["name"], None, self.args_for(f["args"]), [], self.selection(ut, 1, names) if comp else None)
                sel = [first]
                # the ONE root field may be selected several times under the same response key (directly, in an inline fragment,
                # through a fragment on the root type): CollectFields still yields a single entry, so the document stays valid
                how = r.below(8)
                if how < 4:
                    again = G.field(f["name"], None, copy.deepcopy(first["args"]), [], [G.field("__typename")] if comp else None)
                    if how == 0:
                        sel.append(again)
                    elif how == 1:
                        sel.insert(0, G.inline([again], None, []))
                    elif how == 2:
                        sel.append(G.inline([again], rt, []))
                    else:
                        fname = "SubRoot%d" % i
                        defs.append(G.frag(fname, [again], rt))
                        sel.append(G.spread(fname, []))
            else:
                sel = self.selection(rt, 0, names)
            name = None if (nops == 1 and r.chance(1, 6)) else "Op%d" % i
            # operation names and fragment names are separate namespaces: one operation may be called like a fragment of the document
            if name is not None and i == 0 and names and r.chance(1, 4):
                name = r.choice(names)
            ops.append(G.op(name, sel, ot, [self.vars[k] for k in sorted(self.vars)], []))
        return {"defs": ops + defs}


def G_type_str(t):
    if t["k"] == "named":
        return t["n"]
    if t["k"] == "list":
        return "[" + G_type_str(t["of"]) + "]"
    return G_type_str(t["of"]) + "!"


# ---------------------------------------------------------------------------------------------
# fault injection: each operator returns a list of (label, mutated-doc) for every site it applies to

def walk_sels(doc):
    """yield (selection list, index, path description) for every selection of every definition"""
    def rec(sel, where):
        for i, s in enumerate(sel):
            yield sel, i, where
            if s["k"] == "field" and s["hasSel"]:
                yield from rec(s["sel"], where)
            elif s["k"] == "inline":
                yield from rec(s["sel"], where)
    for d in doc["defs"]:
        if d["k"] in ("op", "frag"):
            yield from rec(d["sel"], d["k"])


def walk_values(doc):
    """yield (container, key) for every value slot (arguments, directive arguments, defaults, nested values)"""
    def vrec(holder, key):
        yield holder, key
        v = holder[key]
        if v["k"] == "list":
            for i in range(len(v["vs"])):
                yield from vrec(v["vs"], i)
        elif v["k"] == "object":
            for f in v["fs"]:
                yield from vrec(f, "v")
    def args(a):
        for x in a:
            yield from vrec(x, "v")
    def dirs(ds):
        for d in ds:
            yield from args(d["args"])
    def rec(sel):
        for s in sel:
            yield from dirs(s["dirs"])
            if s["k"] == "field":
                yield from args(s["args"])
                if s["hasSel"]:
                    yield from rec(s["sel"])
            elif s["k"] == "inline":
                yield from rec(s["sel"])
    for d in doc["defs"]:
        if d["k"] == "op":
            yield from dirs(d["dirs"])
            for v in d["vars"]:
                yield from dirs(v["dirs"])
            yield from rec(d["sel"])
        elif d["k"] == "frag":
            yield from dirs(d["dirs"])
            yield from rec(d["sel"])


def dir_sites(doc):
    """yield (directive list, location name)"""
    def rec(sel):
        for s in sel:
            yield s["dirs"], {"field": "FIELD", "spread": "FRAGMENT_SPREAD", "inline": "INLINE_FRAGMENT"}[s["k"]]
            if s["k"] == "field" and s["hasSel"]:
                yield from rec(s["sel"])
            elif s["k"] == "inline":
                yield from rec(s["sel"])
    for d in doc["defs"]:
        if d["k"] == "op":
            yield d["dirs"], d["opType"].upper()
            for v in d["vars"]:
                yield v["dirs"], "VARIABLE_DEFINITION"
            yield from rec(d["sel"])
        elif d["k"] == "frag":
            yield d["dirs"], "FRAGMENT_DEFINITION"
            yield from rec(d["sel"])


OPERATORS = ["rename-field", "leaf-subselection", "composite-no-selection", "unknown-arg", "drop-arg", "wrong-literal", "null-literal",
             "unknown-input-field", "unknown-enum", "dup-variable", "output-type-variable", "undefined-variable", "retype-variable",
             "dup-fragment", "fragment-on-scalar", "fragment-on-unknown", "unknown-spread", "cyclic-spread", "impossible-spread",
             "impossible-inline", "inline-on-unknown", "unknown-directive", "misplaced-directive", "repeated-directive",
             "bad-directive-arg", "dup-operation", "extra-anonymous", "subscription-two-roots", "undefined-variable-in-directive",
             "inline-on-enum", "inline-on-input", "inline-on-scalar", "retarget-inline", "fragment-on-enum", "fragment-on-input",
             "unreached-self-cycle", "unreached-mutual-cycle", "fault-behind-unreached-cycle",
             "subscription-second-alias", "subscription-second-alias-inline", "subscription-second-alias-spread",
             "nullable-var-in-defaulted-list", "dup-operation-other-kind", "second-op-fragment-variable", "inline-on-unimplemented-interface",
             "item-var-at-list"]


def inject(doc, operator, site, disjoint_type="Lone", names=None):
    """apply `operator` at its `site`-th site (0-based); returns mutated doc or None when there is no such site"""
    d = copy.deepcopy(doc)
    sels = list(walk_sels(d))
    vals = list(walk_values(d))
    dsites = list(dir_sites(d))
    ops = [x for x in d["defs"] if x["k"] == "op"]
    frs = [x for x in d["defs"] if x["k"] == "frag"]

    def nth(xs):
        return xs[site] if site < len(xs) else None

    if operator == "rename-field":
        x = nth([(s, i) for s, i, _ in sels if s[i]["k"] == "field" and s[i]["name"] != "__typename"])
        if not x: return None
        x[0][x[1]]["name"] = "noSuchField"
    elif operator == "leaf-subselection":
        x = nth([(s, i) for s, i, _ in sels if s[i]["k"] == "field" and not s[i]["hasSel"]])
        if not x: return None
        x[0][x[1]]["hasSel"], x[0][x[1]]["sel"] = True, [G.field("__typename")]
    elif operator == "composite-no-selection":
        x = nth([(s, i) for s, i, _ in sels if s[i]["k"] == "field" and s[i]["hasSel"]])
        if not x: return None
        x[0][x[1]]["hasSel"], x[0][x[1]]["sel"] = False, []
    elif operator == "unknown-arg":
        x = nth([(s, i) for s, i, _ in sels if s[i]["k"] == "field"])
        if not x: return None
        x[0][x[1]]["args"].append(G.arg("noSuchArg", G.v_int("1")))
    elif operator == "drop-arg":
        x = nth([(s, i, j) for s, i, _ in sels if s[i]["k"] == "field" for j in range(len(s[i]["args"]))])
        if not x: return None
        del x[0][x[1]]["args"][x[2]]
    elif operator == "wrong-literal":
        x = nth([(h, k) for h, k in vals if h[k]["k"] in ("int", "float", "string", "bool", "enum", "list", "object")])
        if not x: return None
        v = x[0][x[1]]
        x[0][x[1]] = {"k": "object", "fs": [{"name": "zz", "v": G.v_int("1")}]} if v["k"] in ("int", "float", "string", "bool", "enum") else {"k": "bool", "v": True}
        if v["k"] == "bool":
            x[0][x[1]] = G.v_str("notBool")
    elif operator == "null-literal":
        x = nth([(h, k) for h, k in vals if h[k]["k"] != "null" and h[k]["k"] != "var"])
        if not x: return None
        x[0][x[1]] = {"k": "null"}
    elif operator == "unknown-input-field":
        x = nth([(h, k) for h, k in vals if h[k]["k"] == "object"])
        if not x: return None
        x[0][x[1]]["fs"].append({"name": "noSuchInputField", "v": G.v_int("1")})
    elif operator == "unknown-enum":
        x = nth([(h, k) for h, k in vals if h[k]["k"] == "enum"])
        if not x: return None
        x[0][x[1]]["v"] = "NO_SUCH_MEMBER"
    elif operator == "dup-variable":
        x = nth([(o, j) for o in ops for j in range(len(o["vars"]))])
        if not x: return None
        x[0]["vars"].append(copy.deepcopy(x[0]["vars"][x[1]]))
    elif operator == "output-type-variable":
        x = nth(ops)
        if not x: return None
        x["vars"].append(G.vardef("outv", G.named("Query")))
    elif operator == "undefined-variable":
        x = nth([(h, k) for h, k in vals if h[k]["k"] != "var"])
        if not x: return None
        x[0][x[1]] = G.v_var("neverDefined")
    elif operator == "retype-variable":
        x = nth([(o, j) for o in ops for j in range(len(o["vars"]))])
        if not x: return None
        vd = x[0]["vars"][x[1]]
        vd["type"] = G.lst(G.lst(G.named("Boolean"))) if unwrap(vd["type"]) != "Boolean" or vd["type"]["k"] == "named" or vd["type"]["k"] == "nn" else G.named("Int")
        vd["hasDefault"], vd["default"] = False, {"k": "null"}
    elif operator == "dup-fragment":
        x = nth(frs)
        if not x: return None
        d["defs"].append(copy.deepcopy(x))
    elif operator == "fragment-on-scalar":
        x = nth(frs)
        if not x: return None
        x["on"], x["sel"] = "Int", [G.field("__typename")]
    elif operator == "fragment-on-unknown":
        x = nth(frs)
        if not x: return None
        x["on"] = "NoSuchType"
    elif operator == "unknown-spread":
        x = nth([(s, i) for s, i, _ in sels])
        if not x: return None
        x[0].append(G.spread("NoSuchFragment"))
    elif operator == "cyclic-spread":
        x = nth(frs)
        if not x: return None
        x["sel"].append(G.spread(x["name"]))
    elif operator == "impossible-spread":
        # a fragment on an object type that the root type can never be
        if not ops or site > 0: return None
        d["defs"].append(G.frag("Elsewhere", [G.field("__typename")], disjoint_type))
        ops[0]["sel"].append(G.spread("Elsewhere"))
    elif operator == "impossible-inline":
        x = nth(ops)
        if not x: return None
        x["sel"].append(G.inline([G.field("__typename")], disjoint_type))
    elif operator == "inline-on-unknown":
        x = nth([(s, i) for s, i, _ in sels])
        if not x: return None
        x[0].append(G.inline([G.field("__typename")], "NoSuchType"))
    elif operator in ("inline-on-enum", "inline-on-input", "inline-on-scalar"):
        # an inline fragment whose type condition names an existing NON-composite type (there is no definition site for it)
        x = nth([(s, i) for s, i, _ in sels])
        t = (names or {}).get(operator[len("inline-on-"):], "Int")
        if not x or not t: return None
        x[0].append(G.inline([G.field("__typename")], t))
    elif operator == "retarget-inline":
        x = nth([(s, i) for s, i, _ in sels if s[i]["k"] == "inline" and s[i]["hasOn"]])
        t = (names or {}).get(["enum", "input", "scalar"][site % 3], "Int")
        if not x or not t: return None
        x[0][x[1]]["on"] = t
    elif operator in ("fragment-on-enum", "fragment-on-input"):
        x = nth(frs)
        t = (names or {}).get(operator[len("fragment-on-"):])
        if not x or not t: return None
        x["on"], x["sel"] = t, [G.field("__typename")]
    elif operator in ("unreached-self-cycle", "unreached-mutual-cycle", "fault-behind-unreached-cycle"):
        # fragments that no operation reaches and that spread each other: nobody is a natural starting point for checking them
        t = (names or {}).get("root")
        if not t or site > 0: return None
        if operator == "unreached-self-cycle":
            d["defs"].append(G.frag("CycSelf", [G.field("__typename"), G.spread("CycSelf")], t))
        elif operator == "unreached-mutual-cycle":
            d["defs"].append(G.frag("CycA", [G.field("__typename"), G.spread("CycB")], t))
            d["defs"].append(G.frag("CycB", [G.inline([G.spread("CycA")])], t))
        else:
            d["defs"].append(G.frag("CycA", [G.spread("CycB")], t))
            d["defs"].append(G.frag("CycB", [G.spread("CycA"), G.spread("Behind")], t))
            d["defs"].append(G.frag("Behind", [G.field("noSuchFieldBehindCycle")], t))
    elif operator == "unknown-directive":
        x = nth(dsites)
        if not x: return None
        x[0].append(G.directive("noSuchDirective"))
    elif operator == "misplaced-directive":
        x = nth([ds for ds in dsites if ds[1] in ("QUERY", "MUTATION", "SUBSCRIPTION", "VARIABLE_DEFINITION", "FRAGMENT_DEFINITION")])
        if not x: return None
        x[0].append(G.directive("skip", [G.arg("if", {"k": "bool", "v": True})]))
    elif operator == "repeated-directive":
        x = nth([ds for ds in dsites if ds[1] in ("FIELD", "FRAGMENT_SPREAD", "INLINE_FRAGMENT")])
        if not x: return None
        x[0].append(G.directive("skip", [G.arg("if", {"k": "bool", "v": True})]))
        x[0].append(G.directive("skip", [G.arg("if", {"k": "bool", "v": False})]))
    elif operator == "bad-directive-arg":
        x = nth([ds for ds in dsites if ds[1] in ("FIELD", "FRAGMENT_SPREAD", "INLINE_FRAGMENT")])
        if not x: return None
        x[0].append(G.directive("include", [G.arg("on", {"k": "bool", "v": True})]))
    elif operator == "undefined-variable-in-directive":
        x = nth([ds for ds in dsites if ds[1] in ("FIELD", "FRAGMENT_SPREAD", "INLINE_FRAGMENT")])
        if not x: return None
        x[0].append(G.directive("include", [G.arg("if", G.v_var("neverDefinedFlag"))]))
    elif operator == "dup-operation":
        x = nth([o for o in ops if o["hasName"]])
        if not x: return None
        d["defs"].append(copy.deepcopy(x))
    elif operator == "second-op-fragment-variable":
        # two operations reach the SAME fragment, which uses a variable: the first defines it properly, the second does not define it
        # (site even) or defines it with an incompatible type (site odd)
        root = (names or {}).get("root")
        if not root or any(not o["hasName"] for o in ops) or site > 3: return None
        d["defs"].append(G.frag("VarFr", [G.field("__typename", None, None, [G.directive("include", [G.arg("if", G.v_var("shared"))])])], root))
        d["defs"].append(G.op("UsesFirst", [G.spread("VarFr")], "query", [G.vardef("shared", G.nn(G.named("Boolean")))]))
        d["defs"].append(G.op("UsesSecond", [G.spread("VarFr")], "query", [] if site % 2 == 0 else [G.vardef("shared", G.named("Int"))]))
    elif operator == "inline-on-unimplemented-interface":
        # `... on I` where I is an interface that no object type implements (a sub-interface of the field's type): the sets of possible
        # types cannot intersect, whatever the `implements` clauses say
        cands = []
        for s_, i_, where in sels:
            f = s_[i_]
            if f["k"] == "field" and f["hasSel"]:
                for (fn, iface) in (names or {}).get("emptyIfaceSites") or []:
                    if f["name"] == fn:
                        cands.append((f, iface))
        x = nth(cands)
        if not x: return None
        x[0]["sel"].append(G.inline([G.field("__typename")], x[1], []))
    elif operator == "dup-operation-other-kind":
        # operation names are unique across ALL operations of a document, whatever their kind
        x = nth([o for o in ops if o["hasName"]])
        roots = (names or {}).get("rootKinds") or ["query"]
        other = [k for k in roots if not x or k != x["opType"]]
        if not x or not other: return None
        d["defs"].append(G.op(x["name"], [G.field("__typename")], other[site % len(other)]))
    elif operator == "extra-anonymous":
        if not ops or site > 0: return None
        d["defs"].append(G.op(None, [G.field("__typename")]))
    elif operator == "subscription-two-roots":
        x = nth([o for o in ops if o["opType"] == "subscription"])
        if not x: return None
        x["sel"].append(G.field("__typename", "second"))
    elif operator == "nullable-var-in-defaulted-list":
        # an argument of type list-of-non-null that HAS a default in the schema gets the literal [$v] with a nullable variable without
        # default: the element position is non-null and has no default of its own (the argument's default does not reach into the list)
        sites = (names or {}).get("nnListDefaultSites") or []
        cands = []
        for s_, i_, where in sels:
            f = s_[i_]
            if f["k"] == "field":
                for (fn, an, inner) in sites:
                    if f["name"] == fn:
                        cands.append((f, an, inner))
        x = nth(cands)
        if not x or not ops: return None
        f, an, inner = x
        f["args"] = [a for a in f["args"] if a["name"] != an] + [G.arg(an, {"k": "list", "vs": [G.v_var("nvl")]})]
        for o in ops:
            if not any(v["name"] == "nvl" for v in o["vars"]):
                o["vars"].append(G.vardef("nvl", G.named(inner)))
    elif operator == "item-var-at-list":
        # a variable of the ITEM type where a list is expected: literals are coerced to a list of one, variables are not
        sites = (names or {}).get("listArgSites") or []
        cands = []
        for s_, i_, where in sels:
            f = s_[i_]
            if f["k"] == "field":
                for (fn, an, item) in sites:
                    if f["name"] == fn:
                        cands.append((f, an, item))
        x = nth(cands)
        if not x or not ops: return None
        f, an, item = x
        f["args"] = [a for a in f["args"] if a["name"] != an] + [G.arg(an, G.v_var("itv"))]
        for o in ops:
            if not any(v["name"] == "itv" for v in o["vars"]):
                o["vars"].append(G.vardef("itv", copy.deepcopy(item)))
    elif operator in ("subscription-second-alias", "subscription-second-alias-inline", "subscription-second-alias-spread"):
        # the SAME root field once more under another response key: two entries in the collected field set
        x = nth([o for o in ops if o["opType"] == "subscription" and o["sel"] and o["sel"][0]["k"] == "field"])
        if not x: return None
        again = copy.deepcopy(x["sel"][0])
        again["hasAlias"], again["alias"] = True, "again"
        if operator == "subscription-second-alias":
            x["sel"].append(again)
        elif operator == "subscription-second-alias-inline":
            x["sel"].append(G.inline([again], None, []))
        else:
            on = (names or {}).get("subroot")
            if on is None: return None
            d["defs"].append(G.frag("SecondRoot", [again], on))
            x["sel"].append(G.spread("SecondRoot", []))
    else:
        return None
    return d
