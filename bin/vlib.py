"""Shared orchestration for /verif/bin/check.

No property semantics lives here: this module builds the harness, runs TLC (as
model checker, as case generator and as trace validator), shards traces,
classifies discrepancy items against known_findings.json and writes evidence.
"""
import json, os, re, subprocess, sys, time, shutil, hashlib, concurrent.futures

VERIF = os.path.dirname(os.path.dirname(os.path.abspath(__file__)))
SPEC = os.path.join(VERIF, "spec")
# The registered commands always run on /repo with /verif's own harness.  The overrides exist only so that bin/seedflow.py can
# run a check against a scratch worktree carrying a seeded change, in parallel, without touching /repo.
HARNESS = os.environ.get("VERIF_HARNESS_DIR", os.path.join(VERIF, "harness"))
WORK = os.environ.get("VERIF_WORK_DIR", os.path.join(VERIF, "work"))
EVID = os.environ.get("VERIF_EVID_DIR", os.path.join(VERIF, "evidence"))
REPO = os.environ.get("VERIF_REPO_DIR", "/repo")
TLAJAR = "/opt/veriftools/tla/tla2tools.jar:/opt/veriftools/tla/CommunityModules-deps.jar"
HARNESS_BIN = os.path.join(HARNESS, "target", "debug", "nq-harness")
CLI_TARGET = os.path.join(HARNESS, "target", "cli")
CLI_BIN = os.path.join(CLI_TARGET, "debug", "nitrogql-cli")
NSHARDS = 14


class ToolError(Exception):
    pass


def log(*a):
    print("[check]", *a, file=sys.stderr, flush=True)


def cargo_env():
    e = dict(os.environ)
    e["CARGO_NET_OFFLINE"] = "true"
    return e


def build_harness():
    """cargo build of the harness against /repo's current working tree."""
    t0 = time.time()
    lock = os.path.join(HARNESS, "Cargo.lock")
    if not os.path.exists(lock):
        shutil.copy(os.path.join(REPO, "Cargo.lock"), lock)
    p = subprocess.run(["cargo", "build", "--offline", "--quiet"], cwd=HARNESS,
                       env=cargo_env(), stdout=subprocess.PIPE, stderr=subprocess.STDOUT, text=True)
    if p.returncode != 0:
        sys.stderr.write(p.stdout[-6000:])
        raise ToolError("harness build failed (does /repo compile?)")
    log("harness built in %.1fs" % (time.time() - t0))


def build_cli():
    """cargo build of the real nitrogql CLI from /repo's working tree (hooks on)."""
    t0 = time.time()
    e = cargo_env()
    e["CARGO_TARGET_DIR"] = CLI_TARGET
    e["RUSTFLAGS"] = "--cfg nitrogql_verif --check-cfg cfg(nitrogql_verif)"
    p = subprocess.run(["cargo", "build", "--offline", "--quiet", "-p", "nitrogql-cli"], cwd=REPO,
                       env=e, stdout=subprocess.PIPE, stderr=subprocess.STDOUT, text=True)
    if p.returncode != 0:
        sys.stderr.write(p.stdout[-6000:])
        raise ToolError("nitrogql-cli build failed")
    log("cli built in %.1fs" % (time.time() - t0))


class TlcResult:
    def __init__(self):
        self.rc = None
        self.out = ""
        self.generated = 0
        self.distinct = 0
        self.depth = 0
        self.lines = []
        self.wall = 0.0
        self.coverage = {}

    def tagged(self, tag):
        """JSON payloads of lines printed as PrintT(<<tag, ToJson(x)>>)."""
        pre = '<<"%s", ' % tag
        res = []
        for ln in self.lines:
            if ln.startswith(pre) and ln.endswith(">>"):
                body = ln[len(pre):-2]
                try:
                    s = json.loads(body)
                    res.append(json.loads(s) if isinstance(s, str) else s)
                except Exception as ex:  # pragma: no cover
                    raise ToolError("unparsable TLC line for tag %s: %s (%s)" % (tag, ln[:200], ex))
        return res


_STATES_RE = re.compile(r"^(\d+) states generated, (\d+) distinct states found")
_DEPTH_RE = re.compile(r"^The depth of the complete state graph search is (\d+)")
_COV_RE = re.compile(r"^<(\w+) line (\d+), col (\d+) to line (\d+), col (\d+) of module (\w+)>: (\d+):(\d+)")


def tlc(module, cfg, *, workdir, workers=1, env=None, timeout=600, xmx="3g", xss="512m",
        deque=False, coverage=False, simulate=None, ok_rcs=(0,), defines=None):
    """Run TLC on spec/<module>.tla with spec/<cfg>. Returns TlcResult.

    A non-listed exit status is a tool error (never a verdict): verdicts are
    read from what the specification printed.
    """
    os.makedirs(workdir, exist_ok=True)
    meta = os.path.join(workdir, "meta_%s_%d" % (module, os.getpid()))
    jopts = ["-XX:+UseParallelGC", "-Xmx" + xmx, "-Xss" + xss]
    if deque:
        jopts.append("-Dtlc2.tool.queue.IStateQueue=StateDeque")
    cmd = ["timeout", str(timeout), "java"] + jopts + ["-cp", TLAJAR, "tlc2.TLC",
           "-workers", str(workers), "-config", cfg, "-metadir", meta, "-cleanup", "-noGenerateSpecTE"]
    if coverage:
        cmd += ["-coverage", "1"]
    if simulate:
        cmd += ["-simulate", simulate, "-seed", os.environ.get("VERIF_SEED", "1"), "-depth", "12"]
    cmd += [module + ".tla"]
    e = dict(os.environ)
    e.pop("JAVA_TOOL_OPTIONS", None)
    if env:
        e.update(env)
    t0 = time.time()
    p = subprocess.run(cmd, cwd=SPEC, env=e, stdout=subprocess.PIPE, stderr=subprocess.STDOUT, text=True,
                       errors="replace")
    r = TlcResult()
    r.rc = p.returncode
    r.out = p.stdout
    r.wall = time.time() - t0
    r.lines = p.stdout.splitlines()
    for ln in r.lines:
        m = _STATES_RE.match(ln)
        if m:
            r.generated, r.distinct = int(m.group(1)), int(m.group(2))
        m = _DEPTH_RE.match(ln)
        if m:
            r.depth = int(m.group(1))
        m = _COV_RE.match(ln)
        if m:
            r.coverage[m.group(1)] = r.coverage.get(m.group(1), 0) + int(m.group(8))
    shutil.rmtree(meta, ignore_errors=True)
    if r.rc == 124:
        raise ToolError("TLC timed out after %ss on %s/%s" % (timeout, module, cfg))
    if r.rc not in ok_rcs:
        tail = "\n".join(r.lines[-40:])
        why = next((ln.strip()[:300] for ln in r.lines if re.search(r"OutOfMemory|StackOverflow|GC overhead|Error:|Exception|Attempted to|was not", ln)), "")
        raise ToolError("TLC failed rc=%s on %s/%s [%s]\n%s" % (r.rc, module, cfg, why, tail))
    return r


def apalache(module, args, *, workdir, timeout=900):
    """Run apalache-mc check on spec/<module>.tla; returns (ok, tail of output).  A timeout or crash is a tool error."""
    os.makedirs(workdir, exist_ok=True)
    cmd = ["timeout", str(timeout), "apalache-mc", "check", "--out-dir=" + os.path.join(workdir, "apalache-out")] + args + [module + ".tla"]
    p = subprocess.run(cmd, cwd=SPEC, stdout=subprocess.PIPE, stderr=subprocess.STDOUT, text=True)
    shutil.rmtree(os.path.join(workdir, "apalache-out"), ignore_errors=True)
    if p.returncode == 124:
        raise ToolError("apalache timed out on %s %s" % (module, " ".join(args)))
    if "The outcome is: NoError" in p.stdout:
        return True, p.stdout[-600:]
    if "The outcome is: Error" in p.stdout:
        return False, p.stdout[-1500:]
    raise ToolError("apalache failed on %s %s\n%s" % (module, " ".join(args), p.stdout[-1500:]))


def sany(module):
    p = subprocess.run(["java", "-cp", TLAJAR, "tla2sany.SANY", module + ".tla"], cwd=SPEC,
                       stdout=subprocess.PIPE, stderr=subprocess.STDOUT, text=True)
    bad = p.returncode != 0 or "rror" in p.stdout.replace("Semantic errors:\n\n", "")
    return (not bad), p.stdout


def run_harness(args, *, stdin_path=None, timeout=1800, env=None):
    """Run the semantics-free Rust harness. Exit status != 0 is a tool error."""
    e = dict(os.environ)
    if env:
        e.update(env)
    t0 = time.time()
    fin = open(stdin_path) if stdin_path else subprocess.DEVNULL
    try:
        p = subprocess.run([HARNESS_BIN] + args, stdin=fin, stdout=subprocess.PIPE, stderr=subprocess.PIPE,
                           text=True, timeout=timeout, env=e, errors="replace")
    except subprocess.TimeoutExpired:
        raise ToolError("harness timed out: %s" % " ".join(args))
    finally:
        if stdin_path:
            fin.close()
    if p.returncode != 0:
        sys.stderr.write(p.stderr[-4000:])
        raise ToolError("harness failed rc=%s: %s" % (p.returncode, " ".join(args)))
    return p.stdout, p.stderr, time.time() - t0


def write_ndjson(path, records):
    with open(path, "w") as f:
        for r in records:
            f.write(json.dumps(r, separators=(",", ":"), ensure_ascii=True))
            f.write("\n")


def read_ndjson(path):
    res = []
    with open(path) as f:
        for ln in f:
            ln = ln.strip()
            if ln:
                res.append(json.loads(ln))
    return res


def shard(records, n, group_key=None):
    """Split events into up to n shards; events sharing group_key stay together, in order."""
    if not records:
        return []
    if group_key is None:
        n = max(1, min(n, len(records)))
        size = (len(records) + n - 1) // n
        return [records[i:i + size] for i in range(0, len(records), size)]
    groups, order = {}, []
    for r in records:
        k = group_key(r)
        if k not in groups:
            groups[k] = []
            order.append(k)
        groups[k].append(r)
    n = max(1, min(n, len(order)))
    shards = [[] for _ in range(n)]
    sizes = [0] * n
    for k in sorted(order, key=lambda k: -len(groups[k])):
        i = sizes.index(min(sizes))
        shards[i].extend(groups[k])
        sizes[i] += len(groups[k])
    return [s for s in shards if s]


class TraceOutcome:
    def __init__(self):
        self.events = 0          # events consumed by the trace spec
        self.expected = 0        # events given
        self.items = []          # discrepancy items printed by the spec
        self.stats = []          # STAT payloads printed by the spec
        self.generated = 0
        self.distinct = 0
        self.wall = 0.0
        self.coverage = {}


def validate_trace(module, cfg, events, *, workdir, nshards=NSHARDS, timeout=900, group_key=None, xmx="2g",
                   extra_env=None, deque=True):
    """impl -> spec: run the trace specification over the recorded events.

    The trace spec consumes one event per step; an event whose observed output
    is not permitted by the property relation makes it print
    <<"ITEM", json>> (one per discrepancy item) and carry on, so the remainder
    of the trace is still examined.  It prints <<"DONE", json>> from its
    POSTCONDITION with the number of events consumed; a shard that does not
    consume every event is a tool error.
    """
    out = TraceOutcome()
    os.makedirs(workdir, exist_ok=True)
    if isinstance(events, str):
        # a FILE of events (large traces): its lines are dealt round robin into shard files without being parsed here
        tag = os.path.basename(events).replace(".", "_")
        paths = [os.path.join(workdir, "trace_%s_%s_%02d.ndjson" % (module, tag, i)) for i in range(nshards)]
        handles = [open(q, "w") for q in paths]
        counts = [0] * nshards
        with open(events) as f:
            for k, line in enumerate(f):
                if not line.strip():
                    continue
                m = re.search(r'"ev":\s*"([A-Za-z]+)"', line)
                ev = m.group(1) if m else "?"
                out.coverage[ev] = out.coverage.get(ev, 0) + 1
                handles[k % nshards].write(line if line.endswith("\n") else line + "\n")
                counts[k % nshards] += 1
        for h in handles:
            h.close()
        shards = [(q, n) for q, n in zip(paths, counts) if n]
        out.expected = sum(counts)
    else:
        out.expected = len(events)
        # per-action coverage of the trace spec = events consumed per kind (TLC's own -coverage
        # instrumentation makes deep recursive evaluation orders of magnitude slower)
        for e in events:
            out.coverage[e.get("ev", "?")] = out.coverage.get(e.get("ev", "?"), 0) + 1
        shards = shard(events, nshards, group_key)

    def one(i_sh):
        i, sh = i_sh
        if isinstance(sh, tuple):
            path, sh = sh[0], range(sh[1])
        else:
            path = os.path.join(workdir, "trace_%s_%02d.ndjson" % (module, i))
            write_ndjson(path, sh)
        env = {"TRACE": path}
        if extra_env:
            env.update(extra_env)
        r = tlc(module, cfg, workdir=os.path.join(workdir, "sh%02d" % i), workers=1, env=env, timeout=timeout,
                xmx=xmx, xss="1g", deque=deque, coverage=False)
        return i, sh, r

    t0 = time.time()
    with concurrent.futures.ThreadPoolExecutor(max_workers=nshards) as ex:
        results = list(ex.map(one, enumerate(shards)))
    for i, sh, r in results:
        done = r.tagged("DONE")
        if not done:
            raise ToolError("trace spec %s printed no DONE line (shard %d)\n%s" % (module, i, "\n".join(r.lines[-30:])))
        consumed = done[-1]["consumed"]
        if consumed != len(sh):
            raise ToolError("trace spec %s consumed %d of %d events in shard %d\n%s"
                            % (module, consumed, len(sh), i, "\n".join(r.lines[-30:])))
        out.events += consumed
        for it in r.tagged("ITEM"):
            out.items.append(it)
        out.stats.extend(r.tagged("STAT"))
        out.generated += r.generated
        out.distinct += r.distinct
    out.wall = time.time() - t0
    return out


def load_known_findings():
    p = os.path.join(VERIF, "known_findings.json")
    if not os.path.exists(p):
        return {"findings": [], "fixed": []}
    with open(p) as f:
        return json.load(f)


class Result:
    """What a property's run produced; turned into evidence + exit status by finish()."""

    def __init__(self, pid, tier, seed):
        self.pid, self.tier, self.seed = pid, tier, seed
        self.level = "model_checking"
        self.states = 0
        self.transitions = 0
        self.traces = 0
        self.evaluations = 0
        self.distinct_nontrivial = 0
        self.rule = ""
        self.samples = []
        self.items = []       # discrepancy items: dicts with at least 'cls' and 'what'
        self.extra = {}
        self.assumptions = []
        self.exhaustive = False
        self.t0 = time.time()

    def add_tlc(self, r):
        self.states += r.distinct
        self.transitions += r.generated

    def add_trace(self, o):
        self.states += o.distinct
        self.transitions += o.generated
        self.items.extend(o.items)


def finish(res):
    """Classify items, write evidence, print verdict lines, return exit status."""
    kf = load_known_findings()
    known = [f for f in kf.get("findings", []) if f.get("property") == res.pid]
    known_cls = {f["class"]: f for f in known}
    unknown, hit = [], {}
    for it in res.items:
        c = it.get("cls")
        if c in known_cls:
            hit.setdefault(c, []).append(it)
        else:
            unknown.append(it)
    os.makedirs(EVID, exist_ok=True)
    replay = None
    if unknown:
        rdir = os.path.join(WORK, "replay")
        os.makedirs(rdir, exist_ok=True)
        replay = os.path.join(rdir, "%s_%s_%d.json" % (res.pid, res.tier, res.seed))
        with open(replay, "w") as f:
            json.dump({"property": res.pid, "tier": res.tier, "seed": res.seed, "count": len(unknown),
                       "by_class": {c: sum(1 for i in unknown if i.get("cls") == c) for c in {i.get("cls") for i in unknown}},
                       "items": [i for c in sorted({x.get("cls") for x in unknown}, key=str)
                                 for i in [x for x in unknown if x.get("cls") == c][:80]]}, f, indent=1)
    cov = {
        "states": int(res.states), "transitions": int(res.transitions),
        "traces_validated_against_impl": int(res.traces),
        "evaluations": int(res.evaluations), "distinct_nontrivial": int(res.distinct_nontrivial),
        "rule": res.rule, "samples": res.samples[:8] if res.samples else ["(none)"],
        "exhaustive": bool(res.exhaustive),
        "known_finding_items": {c: len(v) for c, v in hit.items()},
    }
    cov.update(res.extra)
    ev = {"property_id": res.pid, "tier": res.tier, "seed": int(res.seed), "level": res.level,
          "coverage": cov, "assumptions": res.assumptions, "wall_s": round(time.time() - res.t0, 2),
          "violations": len(unknown)}
    extra = res.pid.startswith("X")      # behaviour beyond the listed properties: own evidence directory, no property verdict lines
    evid_dir = os.path.join(os.path.dirname(EVID), "evidence_extra") if extra else EVID
    os.makedirs(evid_dir, exist_ok=True)
    with open(os.path.join(evid_dir, res.pid + ".json"), "w") as f:
        json.dump(ev, f, indent=1, sort_keys=True)
        f.write("\n")
    for c, f_ in known_cls.items():
        if c in hit:
            print("KNOWN-FINDING: property=%s %s (%d items this run)" % (res.pid, f_["what"], len(hit[c])))
    if unknown:
        for it in unknown[:5]:
            log("discrepancy:", json.dumps(it)[:600])
        print(("DEVIATION extra=%s replay=%s" if extra else "VIOLATION property=%s replay=%s") % (res.pid, replay))
        return 1
    print("OK %s=%s tier=%s states=%d traces=%d evaluations=%d wall=%.1fs" %
          ("extra" if extra else "property", res.pid, res.tier, res.states, res.traces, res.evaluations, time.time() - res.t0))
    return 0


class Rng:
    """splitmix64 — the only randomness source; seeded from VERIF_SEED."""

    def __init__(self, seed):
        self.s = (seed * 0x9E3779B97F4A7C15 + 0x1234567) & 0xFFFFFFFFFFFFFFFF

    def next(self):
        self.s = (self.s + 0x9E3779B97F4A7C15) & 0xFFFFFFFFFFFFFFFF
        z = self.s
        z = ((z ^ (z >> 30)) * 0xBF58476D1CE4E5B9) & 0xFFFFFFFFFFFFFFFF
        z = ((z ^ (z >> 27)) * 0x94D049BB133111EB) & 0xFFFFFFFFFFFFFFFF
        return z ^ (z >> 31)

    def below(self, n):
        return self.next() % n

    def choice(self, xs):
        return xs[self.below(len(xs))]

    def chance(self, num, den):
        return self.below(den) < num


class Ctx:
    def __init__(self, pid, tier, seed):
        self.pid, self.tier, self.seed = pid, tier, seed
        self.quick = tier == "quick"
        self.work = os.path.join(WORK, "%s_%s_%d_%d" % (pid, tier, seed, os.getpid()))
        shutil.rmtree(self.work, ignore_errors=True)
        os.makedirs(self.work)
        self.rng = Rng(seed)

    def path(self, name):
        return os.path.join(self.work, name)

    def cleanup(self):
        if os.environ.get("VERIF_KEEP_WORK"):   # debugging aid: look at the cases / events of a passing run
            return
        shutil.rmtree(self.work, ignore_errors=True)
