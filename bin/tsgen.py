"""Seeded generator of VALID abstract type-system models and labelled single-fault mutations (C05; reused by C10/C15).

Plumbing only: whether a generated model really is valid, and whether a mutated one really violates a rule, is decided in
TLA+ (TypeSysValidate.tla); models the reference does not agree on are discarded there.

Validity by construction (what the reference does not re-check): every object/interface/input/enum/union is non-empty,
default values and directive arguments are literals of the declared type, input objects have no non-null cycle,
directive definitions are stratified (layer k only applies directives of layers < k inside its argument definitions and
argument types), a query root exists.
"""
import copy
import docgen as G
import schemagen as SG

N, L, NN = G.named, G.lst, G.nn
TS_LOCS = ["SCHEMA", "SCALAR", "OBJECT", "FIELD_DEFINITION", "ARGUMENT_DEFINITION", "INTERFACE", "UNION", "ENUM", "ENUM_VALUE",
           "INPUT_OBJECT", "INPUT_FIELD_DEFINITION"]
EXEC_LOCS = ["QUERY", "MUTATION", "SUBSCRIPTION", "FIELD", "FRAGMENT_DEFINITION", "FRAGMENT_SPREAD", "INLINE_FRAGMENT", "VARIABLE_DEFINITION"]
BUILTIN = ["Int", "Float", "String", "Boolean", "ID"]


def unwrap(t):
    while t["k"] != "named":
        t = t["of"]
    return t["n"]


class TsGen:
    def __init__(self, rng):
        self.r = rng

    # ---- literals of a given input type -------------------------------------------------
    def lit(self, ty, depth=0, allow_null=True):
        """a literal of input type `ty`; never `null` at depth 0 or where the type is non-null"""
        r = self.r
        if ty["k"] == "nn":
            return self.lit(ty["of"], depth, False)
        if allow_null and depth > 0 and r.chance(1, 6):
            return {"k": "null"}
        if ty["k"] == "list":
            if r.chance(1, 4):
                inner = ty                                            # a single NON-LIST value is coerced to a (nested) list of one
                while inner["k"] != "named":
                    inner = inner["of"]
                return self.lit(inner, depth + 1, False)
            return {"k": "list", "vs": [self.lit(ty["of"], depth + 1) for _ in range(r.below(3))]}
        n = ty["n"]
        if n == "Int":
            return G.v_int(r.choice(["0", "3", "-12"]))
        if n == "Float":
            return r.choice([{"k": "float", "v": "2.5"}, G.v_int("4")])
        if n == "String":
            return G.v_str(r.choice(["", "s", "a b"]))
        if n == "Boolean":
            return {"k": "bool", "v": r.chance(1, 2)}
        if n == "ID":
            return r.choice([G.v_str("i"), G.v_int("8")])
        d = self.types[n]
        if d["k"] == "scalar":
            return r.choice([G.v_str("c"), G.v_int("1"), {"k": "bool", "v": True}])
        if d["k"] == "enum":
            return {"k": "enum", "v": r.choice(d["values"])["name"]}
        fs = []
        for f in d["inputFields"]:
            req = f["type"]["k"] == "nn" and not f["hasDefault"]
            if req or (depth < 2 and r.chance(1, 3)):
                fs.append({"name": f["name"], "v": self.lit(f["type"], depth + 1)})
        return {"k": "object", "fs": fs}

    def lit_nonnull(self, ty, depth):
        return self.lit(ty, depth, False)

    # ---- directive applications ---------------------------------------------------------
    def apply(self, d):
        args = []
        for a in d["args"]:
            req = a["type"]["k"] == "nn" and not a["hasDefault"]
            if req or self.r.chance(1, 2):
                v = self.lit_nonnull(a["type"], 0)
                args.append(G.arg(a["name"], v))
        return G.directive(d["name"], args)

    def dirs(self, loc, layer_max):
        """0-2 applications of directives that allow `loc`, from layers <= layer_max"""
        r = self.r
        out, used = [], set()
        cands = [d for d in self.dirdefs if d["_layer"] <= layer_max and any(l["n"] == loc for l in d["locations"])]
        if loc in ("FIELD_DEFINITION", "ARGUMENT_DEFINITION", "INPUT_FIELD_DEFINITION", "ENUM_VALUE") and r.chance(1, 6):
            out.append(SG.dep("old") if r.chance(1, 2) else SG.dep())
        if loc == "SCALAR" and r.chance(1, 3):
            out.append(G.directive("specifiedBy", [G.arg("url", G.v_str("https://x"))]))
        for _ in range(r.below(3)):
            if not cands or not r.chance(2, 3):
                continue
            d = r.choice(cands)
            if d["name"] in used and not d["repeatable"]:
                continue
            used.add(d["name"])
            out.append(self.apply(d))
        return out

    def wrap(self, n, allow_list=True):
        r = self.r
        t = N(n)
        k = r.below(12)
        if not allow_list:
            k = k % 2
        if k == 1:
            t = NN(t)
        elif k == 2:
            t = L(t)
        elif k == 3:
            t = NN(L(NN(t)))
        elif k == 4:
            t = L(NN(t))
        elif k == 5:
            t = NN(L(t))
        elif k == 6:
            t = L(L(t))
        elif k == 7:
            t = NN(L(L(NN(t))))          # [[T!]]!
        elif k == 8:
            t = L(NN(L(NN(t))))          # [[T!]!]
        elif k == 9:
            t = NN(L(NN(L(L(t)))))       # [[[T]]!]!
        elif k == 10:
            t = L(NN(L(t)))              # [[T]!]
        return t

    def argdefs(self, layer_max, n=None, input_names=None):
        r = self.r
        names = input_names or (BUILTIN + self.input_type_names)
        out = []
        for i in range(r.below(3) if n is None else n):
            ty = self.wrap(r.choice(names))
            default = None
            if r.chance(1, 3):
                default = self.lit_nonnull(ty, 0)
                if default["k"] == "null" and ty["k"] == "nn":
                    default = None
            out.append(SG.ival("a%d" % i, ty, default, self.dirs("ARGUMENT_DEFINITION", layer_max)))
        return out

    # ---- the model ----------------------------------------------------------------------
    def schema(self):
        r = self.r
        self.types = {}
        self.dirdefs = []
        self.input_type_names = []
        defs = []

        def add(d):
            defs.append(d)
            if d["k"] in ("scalar", "object", "interface", "union", "enum", "input"):
                self.types[d["name"]] = d
            return d

        # layer-0 directives: built-in scalar arguments only, nothing applied inside
        def dirdef(name, layer, locs, args, rep):
            d = SG.dirdef(name, locs, args, rep)
            d["_layer"] = layer
            self.dirdefs.append(d)
            return d

        all_rep = dirdef("mark", 0, TS_LOCS + EXEC_LOCS, [SG.ival("n", N("Int")), SG.ival("s", NN(N("String")), G.v_str("d"))], True)
        once = dirdef("once", 0, [l for l in TS_LOCS if r.chance(2, 3)] or ["OBJECT"], [SG.ival("must", NN(N("Boolean")))] if r.chance(1, 2) else [], False)
        # input-side types (may carry layer-0 applications)
        for i in range(1 + r.below(2)):
            add(SG.tdef("scalar", "Sc%d" % i, dirs=self.dirs("SCALAR", 0)))
        for i in range(1 + r.below(2)):
            vals = [SG.evalue("V%d" % j, self.dirs("ENUM_VALUE", 0)) for j in range(1 + r.below(3))]
            add(SG.tdef("enum", "E%d" % i, dirs=self.dirs("ENUM", 0), values=vals))
        leafs = BUILTIN + [n for n, d in self.types.items()]
        nin = 1 + r.below(3)
        for i in range(nin):
            self.types["In%d" % i] = SG.tdef("input", "In%d" % i)
        for i in range(nin):
            fs = []
            for j in range(1 + r.below(4)):
                if r.chance(1, 3):
                    # reference to an input object: nullable or list, so there is no non-null cycle
                    tn = "In%d" % r.below(nin)
                    ty = r.choice([N(tn), L(NN(N(tn))), L(N(tn))])
                    fs.append(SG.ival("f%d" % j, ty, None, self.dirs("INPUT_FIELD_DEFINITION", 0)))
                else:
                    ty = self.wrap(r.choice(leafs))
                    self.types["In%d" % i]["inputFields"] = fs
                    default = self.lit_nonnull(ty, 0) if r.chance(1, 3) else None
                    if default and default["k"] == "null" and ty["k"] == "nn":
                        default = None
                    fs.append(SG.ival("f%d" % j, ty, default, self.dirs("INPUT_FIELD_DEFINITION", 0)))
            d = self.types["In%d" % i]
            d["inputFields"] = fs
            d["dirs"] = self.dirs("INPUT_OBJECT", 0)
        for i in range(nin):
            defs.append(self.types["In%d" % i])
        self.input_type_names = [n for n, d in self.types.items() if d["k"] in ("scalar", "enum", "input")]
        # layer 1: arguments of any input type; layer-0 directives applied on its argument definitions
        l1 = []
        for i in range(1 + r.below(2)):
            locs = [l for l in ["SCHEMA", "OBJECT", "FIELD_DEFINITION", "ARGUMENT_DEFINITION", "INTERFACE", "UNION"] if r.chance(2, 3)] or ["OBJECT"]
            l1.append(dirdef("mid%d" % i, 1, locs, self.argdefs(0, 1 + r.below(2)), r.chance(1, 2)))
        # layer 2: applies layer-1 directives on its argument definitions; "dia" uses one lower directive twice (diamond)
        if l1 and any(l["n"] == "ARGUMENT_DEFINITION" for l in l1[0]["locations"]):
            a = [SG.ival("x", N("Int"), None, [self.apply(l1[0])]), SG.ival("y", N("String"), None, [self.apply(l1[0])] + self.dirs("ARGUMENT_DEFINITION", 0))]
            dirdef("dia", 2, ["OBJECT", "FIELD_DEFINITION", "UNION", "INTERFACE"], a, False)
        else:
            a = [SG.ival("x", N("Int"), None, [self.apply(all_rep)]), SG.ival("y", N("Int"), None, [self.apply(all_rep)])]
            dirdef("dia", 1, ["OBJECT", "FIELD_DEFINITION", "UNION", "INTERFACE"], a, False)
        OUT = 2      # output-side positions may use every layer

        def field(name, ty):
            return SG.fdef(name, ty, self.argdefs(OUT), self.dirs("FIELD_DEFINITION", OUT))

        # interfaces: I0; I1 implements I0; optionally I2 implements I1, I0
        out_leafs = BUILTIN + [n for n, d in self.types.items() if d["k"] in ("scalar", "enum")]
        nobj = 3 + r.below(3)
        obj_names = ["O%d" % i for i in range(nobj)]
        i0f = [field("id", NN(N("ID")))] + [field("p%d" % j, self.wrap(r.choice(out_leafs))) for j in range(r.below(3))]
        if r.chance(1, 2):
            i0f.append(field("self", r.choice([N("I0"), L(N("I0")), NN(N("I0"))])))
        if r.chance(1, 2):
            i0f.append(field("u", r.choice([N("U0"), L(N("U0"))])))
        add(SG.tdef("interface", "I0", dirs=self.dirs("INTERFACE", OUT), fields=i0f))
        ifaces = {"I0": []}
        chain = 1 + r.below(3)      # number of interfaces in the implements chain
        for c in range(1, chain):
            name = "I%d" % c
            parents = ["I%d" % k for k in range(c)]
            fs = self.implement_fields([self.types[p] for p in parents], name, obj_names) + [field("q%d" % c, self.wrap(r.choice(out_leafs)))]
            r_par = list(reversed(parents)) if r.chance(1, 2) else parents
            add(SG.tdef("interface", name, interfaces=r_par, dirs=self.dirs("INTERFACE", OUT), fields=fs))
        add(SG.tdef("interface", "Alone", fields=[field("z", self.wrap(r.choice(out_leafs)))]))
        # objects
        impl = {}
        for i, on in enumerate(obj_names):
            if i == 0:
                top = chain - 1
            elif i == 1:
                top = 0
            else:
                top = r.below(chain + 1) - 1     # -1: implements nothing of the chain
            parents = ["I%d" % k for k in range(top + 1)]
            if i == nobj - 1 or r.chance(1, 5):
                parents = parents + ["Alone"]
            impl[on] = parents
        self.impl = impl
        for on in obj_names:
            parents = impl[on]
            fs = self.implement_fields([self.types[p] for p in parents], on, obj_names)
            for j in range(r.below(3) + (0 if fs else 1)):
                tn = r.choice(out_leafs + obj_names + ["I0", "U0", "Alone"])
                fs.append(field("x%d" % j, self.wrap(tn)))
            add(SG.tdef("object", on, interfaces=parents if r.chance(1, 2) else list(reversed(parents)), dirs=self.dirs("OBJECT", OUT), fields=fs))
        # unions
        add(SG.tdef("union", "U0", members=[o for o in obj_names if r.chance(1, 2)] or [obj_names[0]], dirs=self.dirs("UNION", OUT)))
        add(SG.tdef("union", "U1", members=[obj_names[-1]]))
        # roots
        explicit = r.chance(1, 2)
        qn, mn = ("Q", "M") if explicit else ("Query", "Mutation")
        qf = [field("o%d" % i, self.wrap(on)) for i, on in enumerate(obj_names)] + [field("i", N("I0")), field("u", L(N("U0"))), field("al", N("Alone"))]
        add(SG.tdef("object", qn, dirs=self.dirs("OBJECT", OUT), fields=qf))
        has_m = r.chance(1, 2)
        if has_m:
            add(SG.tdef("object", mn, fields=[field("set", N("Int"))]))
        if explicit:
            ops = [("query", qn)] + ([("mutation", mn)] if has_m else [])
            if r.chance(1, 2):
                ops.append(("subscription", obj_names[0]))
            defs.insert(r.below(len(defs) + 1), SG.schema_def(ops, dirs=self.dirs("SCHEMA", OUT)))
        for d in self.dirdefs:
            dd = {k: v for k, v in d.items() if k != "_layer"}
            defs.insert(r.below(len(defs) + 1), dd)
        # shuffle definition order (order is immaterial to validity)
        for i in range(len(defs) - 1, 0, -1):
            j = r.below(i + 1)
            defs[i], defs[j] = defs[j], defs[i]
        return {"defs": defs}

    def implement_fields(self, parents, self_name, obj_names):
        """fields that validly implement every parent interface: same or covariantly narrower type, same arguments
        (plus optional extra nullable ones)"""
        r = self.r
        out, seen = [], set()
        for p in reversed(parents):        # most derived interface first: its field types are the narrowest
            for f in p["fields"]:
                if f["name"] in seen:
                    continue
                seen.add(f["name"])
                ty = self.narrow(f["type"], self_name, obj_names)
                args = [SG.ival(a["name"], copy.deepcopy(a["type"]), copy.deepcopy(a["default"]) if a["hasDefault"] else None,
                                self.dirs("ARGUMENT_DEFINITION", 2)) for a in f["args"]]
                if r.chance(1, 4):
                    args.append(SG.ival("extra_" + self_name, r.choice([N("Int"), L(NN(N("String")))])))
                if r.chance(1, 2):
                    args.reverse()
                out.append(SG.fdef(f["name"], ty, args, self.dirs("FIELD_DEFINITION", 2)))
        return out

    def narrow(self, ty, self_name, obj_names):
        r = self.r
        if ty["k"] == "nn":
            t = self.narrow(ty["of"], self_name, obj_names)
            return t if t["k"] == "nn" else NN(t)
        if ty["k"] == "list":
            t = L(self.narrow(ty["of"], self_name, obj_names))
            return NN(t) if r.chance(1, 4) else t
        n = ty["n"]
        t = N(n)
        if n == "I0" and r.chance(1, 2):
            # an implementer of I0: the type itself if it is (or will be) one, the objects O0 / O1 always are
            cands = ["O0", "O1"]
            if self_name.startswith("I") and self_name != "I0":
                cands.append(self_name)
            t = N(r.choice(cands))
        return NN(t) if r.chance(1, 4) else t


def split_files(model, rng, nfiles):
    """move trailing parts of definitions into `extend` items, spread everything over nfiles files (load order = file order)"""
    r = rng
    items = []
    for d in model["defs"]:
        d = copy.deepcopy(d)
        if d["k"] == "directive":
            items.append(d)
            continue
        exts = []
        if d["k"] == "schema":
            if len(d["ops"]) > 1 and r.chance(1, 2):
                e = SG.schema_def([], True)
                e["ops"] = [d["ops"].pop()]
                if d["dirs"] and r.chance(1, 2):
                    e["dirs"] = [d["dirs"].pop()]
                exts.append(e)
            elif d["dirs"] and r.chance(1, 2):
                e = SG.schema_def([], True)
                e["dirs"] = [d["dirs"].pop()]
                exts.append(e)
            items.append(d)
            items.extend(exts)
            continue
        comp = {"object": "fields", "interface": "fields", "union": "members", "enum": "values", "input": "inputFields", "scalar": None}[d["k"]]
        for _ in range(r.below(3)):
            if not r.chance(1, 3):
                continue
            e = SG.tdef(d["k"], d["name"], True)
            moved = False
            if comp and len(d[comp]) > 1:
                k = 1 + r.below(len(d[comp]) - 1)
                e[comp] = d[comp][k:]
                d[comp] = d[comp][:k]
                moved = True
            if d["dirs"] and r.chance(1, 2):
                e["dirs"] = [d["dirs"].pop()]
                moved = True
            if d["k"] in ("object", "interface") and len(d["interfaces"]) > 0 and r.chance(1, 3):
                e["interfaces"] = [d["interfaces"].pop()]
                moved = True
            if moved:
                exts.insert(0, e)
        items.append(d)
        items.extend(exts)
    # an extension may come before its original and in another file: choose a file per item, keep the relative order of the
    # extensions of one definition (later file or later in the same file)
    files = [[] for _ in range(nfiles)]
    last_file = {}
    for it in items:
        key = (it["k"], it.get("name", ""))
        lo = last_file.get(key, 0) if it.get("ext") else 0
        if it.get("ext"):
            fi = lo + r.below(nfiles - lo)
        else:
            fi = r.below(nfiles)
            # the original may be placed anywhere: extensions only need to stay ordered among themselves
        files[fi].append(it)
        if it.get("ext"):
            last_file[key] = fi
    # an empty file is not a GraphQL document (Document: Definition+): only non-empty files are written
    return [{"path": ["p", "schema", "s%d.graphql" % i], "items": f} for i, f in enumerate(files) if f]


# ---------------------------------------------------------------------------------------------
# labelled faults.  Each operator makes ONE local change intended to break exactly one rule.
# ---------------------------------------------------------------------------------------------
OPERATORS = [
    "reserved-type", "reserved-field", "reserved-ifield", "reserved-arg", "reserved-dirarg", "reserved-inputfield", "reserved-enumvalue",
    "reserved-directive",
    "dup-field", "dup-ifield", "dup-arg", "dup-dirarg", "dup-enumvalue", "dup-member", "dup-inputfield", "dup-typedef",
    "unknown-fieldtype", "unknown-ifieldtype", "unknown-argtype", "unknown-dirargtype", "unknown-inputfieldtype", "unknown-implements",
    "unknown-iimplements", "unknown-member",
    "input-in-output", "input-in-ioutput", "output-in-arg", "output-in-dirarg", "output-in-inputfield",
    "implements-object", "iimplements-object", "implements-self",
    "missing-transitive", "imissing-transitive",
    "iface-field-missing", "iface-field-type", "iface-field-nullability", "iface-field-listness", "iface-arg-missing", "iface-arg-type",
    "iface-extra-required-arg",
    "member-interface", "member-scalar", "member-input",
    "dir-unknown", "dir-misplaced", "dir-repeated", "dir-unknown-arg", "dir-missing-arg", "dir-wrong-literal",
    "recursive-direct", "recursive-indirect", "recursive-via-type", "recursive-via-enumvalue", "recursive-via-inputfield", "recursive-via-nested-input",
    "builtin-scalar-ext-fault", "dup-typedef-other-kind", "dup-directive", "redefine-builtin-directive",
]
DIR_SITES = ["SCHEMA", "SCALAR", "OBJECT", "FIELD_DEFINITION", "IFIELD_DEFINITION", "ARGUMENT_DEFINITION", "DIRARG_DEFINITION", "INTERFACE", "UNION",
             "ENUM", "ENUM_VALUE", "INPUT_OBJECT", "INPUT_FIELD_DEFINITION"]


def dir_holders(m, site_kind):
    """the `dirs` lists at one kind of directive location"""
    out = []
    for d in m["defs"]:
        k = d["k"]
        if site_kind == "SCHEMA" and k == "schema":
            out.append(("SCHEMA", d))
        elif site_kind == "SCALAR" and k == "scalar":
            out.append(("SCALAR", d))
        elif site_kind == "OBJECT" and k == "object":
            out.append(("OBJECT", d))
        elif site_kind == "INTERFACE" and k == "interface":
            out.append(("INTERFACE", d))
        elif site_kind == "UNION" and k == "union":
            out.append(("UNION", d))
        elif site_kind == "ENUM" and k == "enum":
            out.append(("ENUM", d))
        elif site_kind == "INPUT_OBJECT" and k == "input":
            out.append(("INPUT_OBJECT", d))
        elif site_kind == "FIELD_DEFINITION" and k == "object":
            out.extend(("FIELD_DEFINITION", f) for f in d["fields"])
        elif site_kind == "IFIELD_DEFINITION" and k == "interface":
            out.extend(("FIELD_DEFINITION", f) for f in d["fields"])
        elif site_kind == "ARGUMENT_DEFINITION" and k in ("object", "interface"):
            out.extend(("ARGUMENT_DEFINITION", a) for f in d["fields"] for a in f["args"])
        elif site_kind == "DIRARG_DEFINITION" and k == "directive" and d["name"] not in ("mark", "once"):
            out.extend(("ARGUMENT_DEFINITION", a) for a in d["args"])
        elif site_kind == "ENUM_VALUE" and k == "enum":
            out.extend(("ENUM_VALUE", v) for v in d["values"])
        elif site_kind == "INPUT_FIELD_DEFINITION" and k == "input":
            out.extend(("INPUT_FIELD_DEFINITION", f) for f in d["inputFields"])
    return out


def rename_directive(m, old, new):
    """rename a directive: its definition and every application (anything that carries a `dirs` list, at any depth)"""
    def walk(x):
        if isinstance(x, dict):
            if x.get("k") == "directive" and x.get("name") == old and "locations" in x:
                x["name"] = new
            for k, v in x.items():
                if k == "dirs" and isinstance(v, list):
                    for a in v:
                        if a.get("name") == old:
                            a["name"] = new
                walk(v)
        elif isinstance(x, list):
            for v in x:
                walk(v)
    walk(m)


def rename_type(m, old, new):
    def ty(t):
        while t["k"] != "named":
            t = t["of"]
        if t["n"] == old:
            t["n"] = new
    for d in m["defs"]:
        if d["k"] == "schema":
            for o in d["ops"]:
                if o["type"] == old:
                    o["type"] = new
            continue
        if d["k"] == "directive":
            for a in d["args"]:
                ty(a["type"])
            continue
        if d["name"] == old:
            d["name"] = new
        for i in d["interfaces"]:
            if i["n"] == old:
                i["n"] = new
        for mem in d["members"]:
            if mem["n"] == old:
                mem["n"] = new
        for f in d["fields"]:
            ty(f["type"])
            for a in f["args"]:
                ty(a["type"])
        for f in d["inputFields"]:
            ty(f["type"])


def all_dir_lists(m):
    out = []
    for sk in DIR_SITES:
        out.extend(h["dirs"] for _, h in dir_holders(m, sk))
    return out


def inject(model, operator, site):
    """-> mutated copy, or None when the operator has no applicable site in this model"""
    m = copy.deepcopy(model)
    defs = m["defs"]
    by = lambda k: [d for d in defs if d["k"] == k]
    types = {d["name"]: d for d in defs if d["k"] not in ("schema", "directive")}

    def nth(xs):
        return xs[site % len(xs)] if xs else None

    def ofields():
        return [(d, f) for d in by("object") for f in d["fields"]]

    def ifields():
        return [(d, f) for d in by("interface") for f in d["fields"]]

    def set_named(t, n):
        while t["k"] != "named":
            t = t["of"]
        t["n"] = n

    op = operator
    if op == "builtin-scalar-ext-fault":
        # a faulty directive application that an EXTENSION puts on a built-in scalar (the built-ins are defined implicitly)
        kind = site % 4
        name = ["String", "Int", "ID", "Boolean", "Float"][(site // 4) % 5]
        if kind == 0:
            dirs = [G.directive("nowhere")]                                                              # unknown directive
        elif kind == 1:
            dirs = [G.directive("deprecated")]                                                           # not allowed on SCALAR
        elif kind == 2:
            dirs = [G.directive("specifiedBy", [G.arg("url", G.v_str("u"))])] * 2                       # not repeatable
        else:
            dirs = [G.directive("specifiedBy", [G.arg("url", G.v_int("42"))])]                          # ill-typed argument
        defs.append(SG.tdef("scalar", name, True, dirs=dirs))
        return m
    if op == "reserved-type":
        d = nth([d for d in defs if d["k"] not in ("schema", "directive")])
        rename_type(m, d["name"], "__" + d["name"])
    elif op in ("reserved-field", "reserved-ifield"):
        # an object field that no interface requires (renaming an interface field would also break its implementers)
        iface_fields = {f["name"] for d in by("interface") for f in d["fields"]}
        c = nth([(d, f) for d, f in (ofields() if op == "reserved-field" else ifields()) if op == "reserved-ifield" or f["name"] not in iface_fields])
        if not c:
            return None
        if op == "reserved-ifield":
            # rename consistently in every implementer so that only the reserved-name rule is broken
            name = c[1]["name"]
            for d in by("interface") + by("object"):
                for f in d["fields"]:
                    if f["name"] == name:
                        f["name"] = "__" + name
        else:
            c[1]["name"] = "__" + c[1]["name"]
    elif op == "reserved-arg":
        iface_fields = {f["name"] for d in by("interface") for f in d["fields"]}
        c = nth([a for d, f in ofields() if f["name"] not in iface_fields for a in f["args"]])
        if not c:
            return None
        c["name"] = "__" + c["name"]
    elif op == "reserved-dirarg":
        defs.append(SG.dirdef("fresh", ["OBJECT"], [SG.ival("x", N("Int")), SG.ival("__y", N("String"))] if site % 2 else [SG.ival("__x", N("Int"))]))
    elif op == "reserved-inputfield":
        c = nth([f for d in by("input") for f in d["inputFields"] if f["type"]["k"] != "nn" or f["hasDefault"]])
        if not c:
            return None
        # literals that mention the field would become ill-typed: only rename fields no literal mentions
        if mentions_input_field(m, c["name"]):
            return None
        c["name"] = "__" + c["name"]
    elif op == "reserved-enumvalue":
        c = nth(by("enum"))
        c["values"].insert(site % (len(c["values"]) + 1), SG.evalue("__V9"))
    elif op == "reserved-directive":
        d = nth(by("directive"))
        old = d["name"]
        d["name"] = "__" + old
        for dl in all_dir_lists(m):
            for x in dl:
                if x["name"] == old:
                    x["name"] = "__" + old
    elif op in ("dup-field", "dup-ifield"):
        c = nth(by("object") if op == "dup-field" else by("interface"))
        c["fields"].append(copy.deepcopy(c["fields"][site % len(c["fields"])]))
    elif op == "dup-arg":
        c = nth([f for d, f in ofields() + ifields() if f["args"]])
        if not c:
            return None
        c["args"].append(copy.deepcopy(c["args"][0]))
    elif op == "dup-dirarg":
        defs.append(SG.dirdef("fresh", ["OBJECT"], [SG.ival("x", N("Int")), SG.ival("y", N("String")), SG.ival("xy"[site % 2], N("Int"))]))
    elif op == "dup-enumvalue":
        c = nth(by("enum"))
        c["values"].append(copy.deepcopy(c["values"][0]))
    elif op == "dup-member":
        c = nth(by("union"))
        c["members"].append(copy.deepcopy(c["members"][site % len(c["members"])]))
    elif op == "dup-inputfield":
        c = nth(by("input"))
        c["inputFields"].append(copy.deepcopy(c["inputFields"][0]))
    elif op == "dup-typedef-other-kind":
        # the same NAME once more, as another kind of type (unreferenced: the only fault is the name)
        c = nth([d for d in defs if d["k"] not in ("schema", "directive")])
        if c["k"] == "scalar":
            defs.append(SG.tdef("enum", c["name"], values=[SG.evalue("ONLY")]))
        else:
            defs.append(SG.tdef("scalar", c["name"]))
    elif op == "dup-directive":
        c = nth(by("directive"))
        if not c:
            return None
        defs.append(copy.deepcopy(c))
    elif op == "redefine-builtin-directive":
        name, locs = [("skip", ["FIELD"]), ("include", ["FIELD"]), ("deprecated", ["FIELD_DEFINITION"]), ("specifiedBy", ["SCALAR"])][site % 4]
        defs.append(SG.dirdef(name, locs))
    elif op == "dup-typedef":
        c = nth([d for d in defs if d["k"] not in ("schema", "directive")])
        defs.append(copy.deepcopy(c))
    elif op in ("unknown-fieldtype", "unknown-ifieldtype"):
        iface_fields = {f["name"] for d in by("interface") for f in d["fields"]}
        c = nth([(d, f) for d, f in (ofields() if op == "unknown-fieldtype" else ifields())
                 if f["name"] not in iface_fields or op == "unknown-ifieldtype"])
        if op == "unknown-ifieldtype":
            # implementers are not told anything (covariance is undecidable against an unknown type): a single fault
            c = nth(ifields())
        if not c:
            return None
        set_named(c[1]["type"], "Nowhere")
    elif op == "unknown-argtype":
        iface_fields = {f["name"] for d in by("interface") for f in d["fields"]}
        c = nth([a for d, f in ofields() if f["name"] not in iface_fields for a in f["args"]])
        if not c:
            return None
        set_named(c["type"], "Nowhere")
        c["hasDefault"], c["default"] = False, {"k": "null"}
    elif op == "unknown-dirargtype":
        defs.append(SG.dirdef("fresh", ["OBJECT"], [SG.ival("x", N("Int")), SG.ival("y", [N("Nowhere"), L(NN(N("Nowhere")))][site % 2])]))
    elif op == "unknown-inputfieldtype":
        c = nth([f for d in by("input") for f in d["inputFields"] if not mentions_input_field(m, f["name"])])
        if not c:
            return None
        set_named(c["type"], "Nowhere")
        c["hasDefault"], c["default"] = False, {"k": "null"}
    elif op in ("unknown-implements", "unknown-iimplements"):
        c = nth(by("object") if op == "unknown-implements" else by("interface"))
        c["interfaces"].append({"n": "Nowhere"})
    elif op == "unknown-member":
        nth(by("union"))["members"].append({"n": "Nowhere"})
    elif op in ("input-in-output", "input-in-ioutput"):
        iface_fields = {f["name"] for d in by("interface") for f in d["fields"]}
        c = nth([(d, f) for d, f in ofields() if f["name"] not in iface_fields] if op == "input-in-output" else ifields())
        if not c:
            return None
        if op == "input-in-ioutput":
            # the same (wrong) type in every implementer keeps the implementation relation intact: one rule broken
            for d, f in ofields() + ifields():
                if f["name"] == c[1]["name"]:
                    f["type"] = N(by("input")[0]["name"])
        else:
            set_named(c[1]["type"], by("input")[0]["name"])
    elif op == "output-in-arg":
        iface_fields = {f["name"] for d in by("interface") for f in d["fields"]}
        c = nth([a for d, f in ofields() if f["name"] not in iface_fields for a in f["args"]])
        if not c:
            return None
        set_named(c["type"], by("object")[site % len(by("object"))]["name"])
        c["hasDefault"], c["default"] = False, {"k": "null"}
    elif op == "output-in-dirarg":
        tn = (by("union") + by("interface") + by("object"))[site % (len(by("union")) + len(by("interface")) + len(by("object")))]["name"]
        defs.append(SG.dirdef("fresh", ["OBJECT"], [SG.ival("x", N("Int")), SG.ival("y", [N(tn), NN(L(N(tn)))][site % 2])]))
    elif op == "output-in-inputfield":
        c = nth([f for d in by("input") for f in d["inputFields"] if not mentions_input_field(m, f["name"])])
        if not c:
            return None
        set_named(c["type"], by("object")[0]["name"])
        c["hasDefault"], c["default"] = False, {"k": "null"}
    elif op in ("implements-object", "iimplements-object"):
        c = nth(by("object") if op == "implements-object" else by("interface"))
        other = [d for d in by("object") + by("union") + by("scalar") if d["name"] != c["name"]]
        c["interfaces"].append({"n": other[site % len(other)]["name"]})
    elif op == "implements-self":
        c = nth(by("interface"))
        c["interfaces"].append({"n": c["name"]})
    elif op in ("missing-transitive", "imissing-transitive"):
        # drop an interface that another declared interface itself implements
        cands = []
        for d in (by("object") if op == "missing-transitive" else by("interface")):
            names = [i["n"] for i in d["interfaces"]]
            for n in names:
                if any(n in [j["n"] for j in types[p]["interfaces"]] for p in names if p != n and p in types):
                    cands.append((d, n))
        c = nth(cands)
        if not c:
            return None
        c[0]["interfaces"] = [i for i in c[0]["interfaces"] if i["n"] != c[1]]
    elif op.startswith("iface-"):
        # (implementer, interface, interface field) triples
        trip = []
        for d in by("object") + by("interface"):
            for i in d["interfaces"]:
                idef = types.get(i["n"])
                if idef and idef["k"] == "interface":
                    for f in idef["fields"]:
                        g = [x for x in d["fields"] if x["name"] == f["name"]]
                        if g:
                            trip.append((d, idef, f, g[0]))
        if op == "iface-field-missing":
            c = nth(trip)
            if not c:
                return None
            c[0]["fields"] = [x for x in c[0]["fields"] if x["name"] != c[2]["name"]]
            if not c[0]["fields"]:
                return None
            # sub-implementers would be told the same thing: fine, it is the same rule
        elif op == "iface-field-type":
            c = nth(trip)
            if not c:
                return None
            cur = unwrap(c[3]["type"])
            set_named(c[3]["type"], "Boolean" if cur != "Boolean" else "Int")
        elif op == "iface-field-nullability":
            c = nth([t for t in trip if t[2]["type"]["k"] == "nn"])
            if not c:
                return None
            c[3]["type"] = c[3]["type"]["of"] if c[3]["type"]["k"] == "nn" else c[3]["type"]
        elif op == "iface-field-listness":
            c = nth(trip)
            if not c:
                return None
            t = c[3]["type"]
            inner = t["of"] if t["k"] == "nn" else t
            if inner["k"] == "list":
                c[3]["type"] = inner["of"]
            else:
                c[3]["type"] = L(t)
        elif op == "iface-arg-missing":
            c = nth([t for t in trip if t[2]["args"]])
            if not c:
                return None
            drop = c[2]["args"][site % len(c[2]["args"])]["name"]
            c[3]["args"] = [a for a in c[3]["args"] if a["name"] != drop]
        elif op == "iface-arg-type":
            c = nth([t for t in trip if t[2]["args"]])
            if not c:
                return None
            name = c[2]["args"][site % len(c[2]["args"])]["name"]
            a = [x for x in c[3]["args"] if x["name"] == name][0]
            if site % 2 == 0:
                a["type"] = a["type"]["of"] if a["type"]["k"] == "nn" else NN(a["type"])
                if a["hasDefault"] and a["default"]["k"] == "null":
                    a["hasDefault"] = False
            else:
                cur = unwrap(a["type"])
                set_named(a["type"], "Boolean" if cur != "Boolean" else "Int")
                a["hasDefault"], a["default"] = False, {"k": "null"}
        elif op == "iface-extra-required-arg":
            c = nth(trip)
            if not c:
                return None
            c[3]["args"].append(SG.ival("needed", NN(N("Int"))))
        else:
            return None
    elif op in ("member-interface", "member-scalar", "member-input"):
        k = {"member-interface": "interface", "member-scalar": "scalar", "member-input": "input"}[op]
        nth(by("union"))["members"].append({"n": by(k)[0]["name"] if op != "member-scalar" or site % 2 else "Int"})
    elif op.startswith("dir-"):
        sk = DIR_SITES[site % len(DIR_SITES)]
        hs = dir_holders(m, sk)
        h = hs[(site // len(DIR_SITES)) % len(hs)] if hs else None
        if not h:
            return None
        loc, holder = h
        dirdefs = [d for d in by("directive")]
        # only leaf directives (nothing applied inside, built-in scalar arguments) so that no recursion is introduced
        leaf = [d for d in dirdefs if d["name"] in ("mark", "once")]
        if op == "dir-unknown":
            holder["dirs"].append(G.directive("nowhere"))
        elif op == "dir-misplaced":
            if site % 2 == 0:
                holder["dirs"].append(G.directive("skip", [G.arg("if", {"k": "bool", "v": True})]))
            else:
                c = [d for d in leaf if not any(l["n"] == loc for l in d["locations"])
                     and not any(a["type"]["k"] == "nn" and not a["hasDefault"] for a in d["args"])]
                if not c:
                    holder["dirs"].append(G.directive("specifiedBy", [G.arg("url", G.v_str("u"))]) if loc != "SCALAR"
                                          else G.directive("include", [G.arg("if", {"k": "bool", "v": True})]))
                else:
                    holder["dirs"].append(G.directive(c[0]["name"]))
        elif op == "dir-repeated":
            if loc in ("FIELD_DEFINITION", "ARGUMENT_DEFINITION", "INPUT_FIELD_DEFINITION", "ENUM_VALUE"):
                holder["dirs"] = [x for x in holder["dirs"] if x["name"] != "deprecated"] + [SG.dep("a"), SG.dep()]
            elif loc == "SCALAR":
                holder["dirs"] = [x for x in holder["dirs"] if x["name"] != "specifiedBy"] + [G.directive("specifiedBy", [G.arg("url", G.v_str("u"))])] * 2
            else:
                once = [d for d in leaf if d["name"] == "once" and any(l["n"] == loc for l in d["locations"])]
                if not once:
                    return None
                args = [G.arg("must", {"k": "bool", "v": True})] if once[0]["args"] else []
                holder["dirs"] = [x for x in holder["dirs"] if x["name"] != "once"] + [G.directive("once", args), G.directive("once", copy.deepcopy(args))]
        elif op == "dir-unknown-arg":
            holder["dirs"].append(G.directive("mark", [G.arg("nope", G.v_int("1"))]))
        elif op == "dir-missing-arg":
            if loc == "SCALAR":
                holder["dirs"] = [x for x in holder["dirs"] if x["name"] != "specifiedBy"] + [G.directive("specifiedBy")]
            else:
                once = [d for d in leaf if d["name"] == "once" and d["args"] and any(l["n"] == loc for l in d["locations"])]
                if not once or any(x["name"] == "once" for x in holder["dirs"]):
                    return None
                holder["dirs"].append(G.directive("once"))
        elif op == "dir-wrong-literal":
            v = [G.v_str("x"), {"k": "float", "v": "1.5"}, {"k": "bool", "v": True}, {"k": "enum", "v": "V0"}, {"k": "list", "vs": [G.v_str("q")]},
                 {"k": "object", "fs": []}][site % 6]
            holder["dirs"].append(G.directive("mark", [G.arg("n", v)]))
        else:
            return None
    elif op.startswith("recursive-"):
        dirdefs = by("directive")
        mark = [d for d in dirdefs if d["name"] == "mark"][0]
        app = lambda n: G.directive(n, [])
        if op == "recursive-direct":
            mark["args"][site % len(mark["args"])]["dirs"].append(app("mark"))
        elif op == "recursive-indirect":
            # mark -> loopA -> mark  (loopA is new: nothing else changes)
            defs.append(SG.dirdef("loopA", ["ARGUMENT_DEFINITION"], [SG.ival("x", N("Int"), None, [app("mark")])]))
            mark["args"][0]["dirs"].append(app("loopA"))
        elif op == "recursive-via-type":
            t = nth(by("scalar") + by("enum") + by("input"))
            defs.append(SG.dirdef("loopB", ["SCALAR", "ENUM", "INPUT_OBJECT"], [SG.ival("x", N(t["name"]))]))
            t["dirs"].append(app("loopB"))
        elif op == "recursive-via-enumvalue":
            t = nth(by("enum"))
            defs.append(SG.dirdef("loopC", ["ENUM_VALUE"], [SG.ival("x", L(N(t["name"])))]))
            t["values"][site % len(t["values"])]["dirs"].append(app("loopC"))
        elif op == "recursive-via-inputfield":
            t = nth(by("input"))
            defs.append(SG.dirdef("loopD", ["INPUT_FIELD_DEFINITION"], [SG.ival("x", N(t["name"]))]))
            t["inputFields"][site % len(t["inputFields"])]["dirs"].append(app("loopD"))
        elif op == "recursive-via-nested-input":
            t = nth(by("input"))
            defs.append(SG.tdef("input", "Outer", input_fields=[SG.ival("inner", N(t["name"]))]))
            defs.append(SG.dirdef("loopE", ["INPUT_FIELD_DEFINITION"], [SG.ival("x", N("Outer"))]))
            t["inputFields"][site % len(t["inputFields"])]["dirs"].append(app("loopE"))
        else:
            return None
    else:
        raise ValueError(op)
    return m


def walk_values(m):
    def rec(v):
        yield v
        if v["k"] == "list":
            for x in v["vs"]:
                yield from rec(x)
        elif v["k"] == "object":
            for f in v["fs"]:
                yield from rec(f["v"])
    for d in m["defs"]:
        holders = []
        if d["k"] == "directive":
            holders = d["args"]
        elif d["k"] != "schema":
            holders = [a for f in d["fields"] for a in f["args"]] + d["inputFields"]
        for h in holders:
            if h["hasDefault"]:
                yield from rec(h["default"])
    for dl in all_dir_lists(m):
        for x in dl:
            for a in x["args"]:
                yield from rec(a["v"])


def mentions_input_field(m, name):
    return any(v["k"] == "object" and any(f["name"] == name for f in v["fs"]) for v in walk_values(m))


def mentions_enum_value(m, name):
    return any(v["k"] == "enum" and v["v"] == name for v in walk_values(m))
