"""Seeded generators of ABSTRACT documents (shape: harness/ABSTRACT_JSON.md, positions omitted).

Plumbing only: these build inputs; every verdict about them is computed in TLA+.
The fixed schema OPS_SCHEMA is what the generated operations are valid against.
"""

OPS_SCHEMA = """
type Query { a: Int  b(x: Int, s: String, l: [Int], o: In, e: E, f: Float, bo: Boolean, id: ID): String  q: Query  qs: [Query!]  n: Node }
interface Node { id: ID! }
type U implements Node { id: ID! name: String }
input In { a: Int, b: [In!], s: String }
enum E { A B }
type Mutation { m(x: Int): Int  q: Query }
type Subscription { s: Int }
directive @dv(a: Int) on VARIABLE_DEFINITION
directive @dq(s: String) on QUERY | MUTATION | SUBSCRIPTION | FIELD | FRAGMENT_DEFINITION | FRAGMENT_SPREAD | INLINE_FRAGMENT
"""


def named(n):
    return {"k": "named", "n": n}


def lst(t):
    return {"k": "list", "of": t}


def nn(t):
    return {"k": "nn", "of": t}


def v_int(s):
    return {"k": "int", "v": s}


def v_str(s, block=False):
    return {"k": "string", "cp": [ord(c) for c in s], "block": block}


def v_var(n):
    return {"k": "var", "n": n}


def field(name, alias=None, args=None, dirs=None, sel=None):
    return {"k": "field", "hasAlias": alias is not None, "alias": alias or "", "name": name, "args": args or [],
            "dirs": dirs or [], "hasSel": sel is not None, "sel": sel or []}


def spread(name, dirs=None):
    return {"k": "spread", "name": name, "dirs": dirs or []}


def inline(sel, on=None, dirs=None):
    return {"k": "inline", "hasOn": on is not None, "on": on or "", "dirs": dirs or [], "sel": sel}


def directive(name, args=None):
    return {"name": name, "args": args or []}


def arg(name, v):
    return {"name": name, "v": v}


def op(name, sel, op_type="query", vars_=None, dirs=None):
    return {"k": "op", "opType": op_type, "hasName": name is not None, "name": name or "", "vars": vars_ or [],
            "dirs": dirs or [], "sel": sel}


def frag(name, sel, on="Query", dirs=None):
    return {"k": "frag", "name": name, "on": on, "dirs": dirs or [], "sel": sel}


def vardef(name, ty, default=None, dirs=None):
    return {"name": name, "type": ty, "hasDefault": default is not None, "default": default or {"k": "null"},
            "dirs": dirs or []}


def imp(spec, names=None):
    return {"k": "import", "path": "/".join(spec), "spec": spec, "wild": names is None, "names": names or []}


class Gen:
    """Random valid documents over OPS_SCHEMA."""

    def __init__(self, rng):
        self.rng = rng
        self.vars = {}        # name -> vardef, collected while generating one operation
        self.allow_vars = True
        self.prefix, self.counter = "k", 0

    def use_var(self, ty_name, ty):
        n = "v%s%d" % (ty_name.lower(), self.rng.below(2))
        if n not in self.vars:
            default = None
            if self.rng.chance(1, 3) and ty["k"] != "nn":
                # `= null` is a default value like any other (the variable then IS defined when it is not provided)
                default = {"k": "null"} if self.rng.chance(1, 4) else self.value_for(ty_name, depth=2, allow_var=False)
            dirs = [directive("dv", [arg("a", v_int("1"))])] if self.rng.chance(1, 4) else []
            self.vars[n] = vardef(n, ty, default, dirs)
        return v_var(n)

    def value_for(self, ty_name, depth=0, allow_var=True):
        r = self.rng
        if allow_var and self.allow_vars and r.chance(1, 4) and ty_name in ("Int", "String", "Boolean", "Float", "ID", "E", "In"):
            return self.use_var(ty_name, named(ty_name))
        if ty_name == "Int":
            return v_int(r.choice(["0", "1", "-7", "42"]))
        if ty_name == "Float":
            return {"k": "float", "v": r.choice(["1.5", "-0.25", "1e3", "2.5E-2"])}
        if ty_name == "String":
            return v_str(r.choice(["", "x", "hello world", "q\"uote", "back\\slash", "line\nbreak", "unié中", "astral \U0001F389 \U0001D11E"]))
        if ty_name == "Boolean":
            return {"k": "bool", "v": r.chance(1, 2)}
        if ty_name == "ID":
            return r.choice([v_str("id1"), v_int("5")])
        if ty_name == "E":
            return {"k": "enum", "v": r.choice(["A", "B"])}
        if ty_name == "In":
            fs = []
            if r.chance(1, 2):
                fs.append({"name": "a", "v": self.value_for("Int", depth + 1, allow_var)})
            if r.chance(1, 2):
                fs.append({"name": "s", "v": self.value_for("String", depth + 1, allow_var)})
            if depth < 2 and r.chance(1, 3):
                # items of [In!] are non-null positions: a (nullable) variable would not be valid there
                fs.append({"name": "b", "v": {"k": "list", "vs": [self.value_for("In", depth + 1, False)
                                                                for _ in range(r.below(3))]}})
            return {"k": "object", "fs": fs}
        raise ValueError(ty_name)

    def args_b(self):
        r = self.rng
        out = []
        for name, ty in (("x", "Int"), ("s", "String"), ("o", "In"), ("e", "E"), ("f", "Float"), ("bo", "Boolean"), ("id", "ID")):
            if r.chance(1, 4):
                out.append(arg(name, r.chance(1, 8) and {"k": "null"} or self.value_for(ty)))
        if r.chance(1, 4):
            out.append(arg("l", {"k": "list", "vs": [self.value_for("Int") for _ in range(r.below(3))]}))
        return out

    def cond_dirs(self):
        r = self.rng
        out = []
        if r.chance(1, 5):
            d = r.choice(["skip", "include"])
            v = self.use_var("Boolean", nn(named("Boolean"))) if (self.allow_vars and r.chance(1, 2)) else {"k": "bool", "v": r.chance(1, 2)}
            # a Boolean! variable: make sure its definition is non-null
            if v["k"] == "var":
                self.vars[v["n"]] = vardef(v["n"], nn(named("Boolean")))
            out.append(directive(d, [arg("if", v)]))
        if r.chance(1, 8):
            out.append(directive("dq", [arg("s", v_str("d"))] if r.chance(1, 2) else []))
        return out

    def selection(self, depth, frags, used_keys=None):
        """selection set on type Query"""
        r = self.rng
        sel, keys = [], set()
        n = 1 + r.below(4)
        for _ in range(n):
            c = r.below(10)
            if c < 3:
                name, alias = "a", None
            elif c < 5:
                name, alias = "b", None
            elif c < 7 and depth < 3:
                name, alias = r.choice(["q", "qs"]), None
            elif c < 8 and frags:
                sel.append(spread(r.choice(frags), self.cond_dirs()))
                continue
            elif c < 9 and depth < 3:
                sel.append(inline(self.selection(depth + 1, frags), on=("Query" if r.chance(1, 2) else None), dirs=self.cond_dirs()))
                continue
            else:
                name, alias = "__typename", None
            # FieldsInSetCanMerge: selections from inline fragments and spreads share one response scope, so only
            # argument-less scalar fields may go unaliased; everything else gets an alias unique in the whole document
            if name not in ("a", "__typename") or r.chance(1, 4):
                self.counter += 1
                alias = "%s_%d" % (self.prefix, self.counter)
            key = alias or name
            if key in keys:
                continue
            args = self.args_b() if name == "b" else []
            sub = self.selection(depth + 1, frags) if name in ("q", "qs") else None
            sel.append(field(name, alias, args, self.cond_dirs(), sub))
        if not sel:
            sel.append(field("a"))
        return sel

    def operation(self, name, frags, op_type="query"):
        self.prefix = "o" + (name or "")
        self.vars = {}
        self.allow_vars = True
        if op_type == "query":
            sel = self.selection(0, frags)
        elif op_type == "mutation":
            sel = [field("m", None, [arg("x", self.value_for("Int"))]), field("q", None, [], [], self.selection(1, frags))]
        else:
            sel = [field("s")]
        dirs = [directive("dq")] if self.rng.chance(1, 6) else []
        return op(name, sel, op_type, [self.vars[k] for k in sorted(self.vars)], dirs)

    def fragment(self, name, frags):
        self.prefix = "f" + name
        self.allow_vars = False       # fragments stay variable-free so that any operation may spread them
        self.vars = {}
        d = frag(name, self.selection(1, frags), "Query", [directive("dq")] if self.rng.chance(1, 6) else [])
        self.allow_vars = True
        return d
