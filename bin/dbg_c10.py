#!/usr/bin/env python3
"""dbg_c10.py <seed> <case-index>: regenerate one C10 case and dump its inputs and emitted texts (development aid)"""
import sys, os, json
sys.path.insert(0, os.path.dirname(os.path.abspath(__file__)))
import vlib
from props import c10
seed, idx = int(sys.argv[1]), int(sys.argv[2])
ctx = vlib.Ctx("C10dbg", "quick", seed)
cases = [c10.make_case(ctx, i) for i in range(idx + 1)]
c = cases[idx]
c["keepTexts"] = True
vlib.write_ndjson(ctx.path("cases.ndjson"), [c])
vlib.run_harness(["typegen", vlib.CLI_BIN, ctx.path("cases.ndjson"), ctx.path("events.ndjson"), ctx.path("proj"), "1"])
e = vlib.read_ndjson(ctx.path("events.ndjson"))[0]
for f in e["inputs"]:
    print("=====", f["rel"]); print(f["text"])
for k, v in e.get("texts", {}).items():
    if not k.endswith(".map"):
        print("=====", k); print(v)
print("exit", e["exit"], e["diag"][:2000])
print(ctx.work)
