#!/usr/bin/env python3
"""Prints the markdown table of seeded changes (seeded/<tag>/meta.json + detection.json) for DESIGN.md section 13."""
import json, os, sys
V = os.path.dirname(os.path.dirname(os.path.abspath(__file__)))
rows = []
for tag in sorted(os.listdir(os.path.join(V, "seeded"))):
    d = os.path.join(V, "seeded", tag)
    mp, dp = os.path.join(d, "meta.json"), os.path.join(d, "detection.json")
    if not os.path.exists(mp):
        continue
    m = json.load(open(mp))
    det = json.load(open(dp)) if os.path.exists(dp) else {"runs": [], "detected_by": []}
    tried = sorted({p for r in det["runs"] for p in r["results"]})
    last = det["runs"][-1] if det["runs"] else None
    status = "not run"
    if tag.startswith("R"):
        status = ("quiet: " + ", ".join(tried)) if not det["detected_by"] else ("ALARM from " + ", ".join(det["detected_by"]))
    elif det["detected_by"]:
        status = "caught by " + ", ".join(det["detected_by"])
    elif last:
        status = "MISSED by " + ", ".join(tried)
    note = m.get("note_by_me", "")
    summ = m["summary"].replace("\n", " ").replace("|", "/")
    rows.append("| %s | %s | %s | %s%s |" % (tag, m["property"], summ[:230] + ("..." if len(summ) > 230 else ""), status, (" - " + note) if note else ""))
print("| seed | property | change (abridged from the author's own summary) | outcome |")
print("|------|----------|--------------------------------------------------|---------|")
print("\n".join(rows))
