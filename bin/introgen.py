"""The standard introspection result of an abstract schema model, as JSON (C15).  Plumbing: Introspection.tla states what the JSON must
contain and Trace_C15 reads this writer's output back against it before any verdict is taken."""
import json
import docgen as G

BUILTIN_SCALARS = ["Int", "Float", "String", "Boolean", "ID"]
KIND = {"scalar": "SCALAR", "object": "OBJECT", "interface": "INTERFACE", "union": "UNION", "enum": "ENUM", "input": "INPUT_OBJECT"}


def text_of(desc):
    return "".join(chr(c) for c in desc["cp"]) if desc and desc.get("has") else None


def lit(v):
    k = v["k"]
    if k in ("int", "float", "enum"):
        return v["v"]
    if k == "string":
        return json.dumps("".join(chr(c) for c in v["cp"]))
    if k == "bool":
        return "true" if v["v"] else "false"
    if k == "null":
        return "null"
    if k == "list":
        return "[" + ", ".join(lit(x) for x in v["vs"]) + "]"
    if k == "object":
        return "{" + ", ".join("%s: %s" % (f["name"], lit(f["v"])) for f in v["fs"]) + "}"
    raise ValueError(k)


class Intro:
    def __init__(self, merged_defs, rng, drop_optional=False, meta_types=False):
        self.defs = merged_defs
        self.kinds = {d["name"]: KIND[d["k"]] for d in merged_defs if d["k"] in KIND}
        for s in BUILTIN_SCALARS:
            self.kinds.setdefault(s, "SCALAR")
        self.r = rng
        self.drop = drop_optional
        self.meta = meta_types

    def opt(self, obj, key, value):
        """a key whose value is null may be left out entirely (clients differ)"""
        if value is None and self.drop and self.r.chance(1, 2):
            return
        obj[key] = value

    def tref(self, t):
        if t["k"] == "nn":
            return {"kind": "NON_NULL", "name": None, "ofType": self.tref(t["of"])}
        if t["k"] == "list":
            return {"kind": "LIST", "name": None, "ofType": self.tref(t["of"])}
        o = {"kind": self.kinds.get(t["n"], "OBJECT"), "name": t["n"]}
        self.opt(o, "ofType", None)
        return o

    def named(self, n):
        o = {"kind": self.kinds.get(n, "OBJECT"), "name": n}
        self.opt(o, "ofType", None)
        return o

    def deprecation(self, o, dirs):
        dep = [d for d in dirs if d["name"] == "deprecated"]
        if dep:
            o["isDeprecated"] = True
            reason = [a for a in dep[0]["args"] if a["name"] == "reason"]
            o["deprecationReason"] = "".join(chr(c) for c in reason[0]["v"]["cp"]) if reason else "No longer supported"
        else:
            if not (self.drop and self.r.chance(1, 3)):
                o["isDeprecated"] = False
            self.opt(o, "deprecationReason", None)

    def input_value(self, a):
        o = {"name": a["name"]}
        self.opt(o, "description", text_of(a["desc"]))
        o["type"] = self.tref(a["type"])
        self.opt(o, "defaultValue", lit(a["default"]) if a["hasDefault"] else None)
        self.deprecation(o, a["dirs"])
        return o

    def field(self, f):
        o = {"name": f["name"]}
        self.opt(o, "description", text_of(f["desc"]))
        o["args"] = [self.input_value(a) for a in f["args"]]
        o["type"] = self.tref(f["type"])
        self.deprecation(o, f["dirs"])
        return o

    def type(self, d):
        k = d["k"]
        o = {"kind": KIND[k], "name": d["name"]}
        self.opt(o, "description", text_of(d.get("desc")))
        objs = [x for x in self.defs if x["k"] == "object"]
        fields = [self.field(f) for f in d["fields"]] if k in ("object", "interface") else None
        interfaces = [self.named(i["n"]) for i in d["interfaces"]] if k in ("object", "interface") else None
        possible = None
        if k == "interface":
            possible = [self.named(x["name"]) for x in objs if any(i["n"] == d["name"] for i in x["interfaces"])]
        elif k == "union":
            possible = [self.named(m["n"]) for m in d["members"]]
        enum_values = None
        if k == "enum":
            enum_values = []
            for v in d["values"]:
                ev = {"name": v["name"]}
                self.opt(ev, "description", text_of(v["desc"]))
                self.deprecation(ev, v["dirs"])
                enum_values.append(ev)
        input_fields = [self.input_value(f) for f in d["inputFields"]] if k == "input" else None
        self.opt(o, "fields", fields)
        self.opt(o, "inputFields", input_fields)
        self.opt(o, "interfaces", interfaces)
        self.opt(o, "enumValues", enum_values)
        self.opt(o, "possibleTypes", possible)
        return o

    def result(self):
        defs = self.defs
        schema_defs = [d for d in defs if d["k"] == "schema"]
        names = {d["name"] for d in defs if d["k"] == "object"}
        if schema_defs:
            roots = {o["op"]: o["type"] for sd in schema_defs for o in sd["ops"]}
        else:
            roots = {op: n for op, n in (("query", "Query"), ("mutation", "Mutation"), ("subscription", "Subscription")) if n in names}
        types = [self.type(d) for d in defs if d["k"] in KIND]
        for s in BUILTIN_SCALARS:
            if s not in {t["name"] for t in types}:
                types.append(self.type({"k": "scalar", "name": s, "desc": None}))
        # the order of `types` is unspecified: shuffle it, and put the introspection system's own types (if included) anywhere
        for i in range(len(types) - 1, 0, -1):
            j = self.r.below(i + 1)
            types[i], types[j] = types[j], types[i]
        if self.meta:
            at = self.r.below(len(types) + 1)
            types[at:at] = META_TYPES
        sch = {}
        self.opt(sch, "description", text_of(schema_defs[0]["desc"]) if schema_defs else None)
        sch["queryType"] = {"name": roots["query"]}
        self.opt(sch, "mutationType", {"name": roots["mutation"]} if "mutation" in roots else None)
        self.opt(sch, "subscriptionType", {"name": roots["subscription"]} if "subscription" in roots else None)
        sch["types"] = types
        dirs = []
        for d in defs:
            if d["k"] == "directive":
                o = {"name": d["name"]}
                self.opt(o, "description", text_of(d["desc"]))
                o["locations"] = [l["n"] for l in d["locations"]]
                o["args"] = [self.input_value(a) for a in d["args"]]
                o["isRepeatable"] = bool(d["repeatable"])
                dirs.append(o)
        sch["directives"] = dirs + STANDARD_DIRECTIVES
        return {"__schema": sch}


def _nn(n):
    return {"kind": "NON_NULL", "name": None, "ofType": {"kind": "SCALAR", "name": n, "ofType": None}}


STANDARD_DIRECTIVES = [
    {"name": "skip", "description": None, "locations": ["FIELD", "FRAGMENT_SPREAD", "INLINE_FRAGMENT"], "isRepeatable": False,
     "args": [{"name": "if", "description": None, "type": _nn("Boolean"), "defaultValue": None}]},
    {"name": "include", "description": None, "locations": ["FIELD", "FRAGMENT_SPREAD", "INLINE_FRAGMENT"], "isRepeatable": False,
     "args": [{"name": "if", "description": None, "type": _nn("Boolean"), "defaultValue": None}]},
    {"name": "deprecated", "description": None, "locations": ["FIELD_DEFINITION", "ARGUMENT_DEFINITION", "INPUT_FIELD_DEFINITION", "ENUM_VALUE"], "isRepeatable": False,
     "args": [{"name": "reason", "description": None, "type": {"kind": "SCALAR", "name": "String", "ofType": None}, "defaultValue": "\"No longer supported\""}]},
    {"name": "specifiedBy", "description": None, "locations": ["SCALAR"], "isRepeatable": False,
     "args": [{"name": "url", "description": None, "type": _nn("String"), "defaultValue": None}]},
]


def _meta_obj(name, fields):
    return {"kind": "OBJECT", "name": name, "description": None, "fields": [{"name": f, "description": None, "args": [], "type": t, "isDeprecated": False, "deprecationReason": None} for f, t in fields],
            "inputFields": None, "interfaces": [], "enumValues": None, "possibleTypes": None}


META_TYPES = [
    _meta_obj("__Schema", [("description", {"kind": "SCALAR", "name": "String", "ofType": None}),
                           ("types", {"kind": "NON_NULL", "name": None, "ofType": {"kind": "LIST", "name": None, "ofType": {"kind": "NON_NULL", "name": None, "ofType": {"kind": "OBJECT", "name": "__Type", "ofType": None}}}})]),
    _meta_obj("__Type", [("kind", {"kind": "NON_NULL", "name": None, "ofType": {"kind": "ENUM", "name": "__TypeKind", "ofType": None}}), ("name", {"kind": "SCALAR", "name": "String", "ofType": None})]),
    {"kind": "ENUM", "name": "__TypeKind", "description": None, "fields": None, "inputFields": None, "interfaces": None, "possibleTypes": None,
     "enumValues": [{"name": n, "description": None, "isDeprecated": False, "deprecationReason": None} for n in ("SCALAR", "OBJECT", "INTERFACE", "UNION", "ENUM", "INPUT_OBJECT", "LIST", "NON_NULL")]},
]


LIST_KEYS = ("fields", "inputFields", "interfaces", "enumValues", "possibleTypes")


def null_free(v, key=None):
    """the same JSON without null (TLC's JSON reader rejects it), keeping every position's sort: a null string becomes "$null",
    a null name "", a null ofType {"kind": "$none"}, a null root type {"name": ""}, a null list []"""
    if v is None:
        if key == "ofType":
            return {"kind": "$none"}
        if key in ("mutationType", "subscriptionType"):
            return {"name": ""}
        if key in LIST_KEYS:
            return []
        if key == "name":
            return ""
        return "$null"
    if isinstance(v, list):
        return [null_free(x) for x in v]
    if isinstance(v, dict):
        return {k: null_free(x, k) for k, x in v.items()}
    return v
