#!/usr/bin/env python3
"""verify_seed.py <tag> <demo-src(relative to /tmp/seed_out/<tag>/demo)> <dest-in-worktree> -- <demo command...>
Confirms, in the scratch worktree /tmp/wt/<tag>, that a seeded change (a) applies to /repo HEAD and compiles,
(b) leaves the pinned test suite green, (c) makes the demonstration fail while it passes without the change.
On success copies patch.diff, the demo and meta.json to /verif/seeded/<tag>/."""
import json, os, shutil, subprocess, sys
tag = sys.argv[1]; demo_src = sys.argv[2]; dest = sys.argv[3]
cmd = sys.argv[sys.argv.index("--") + 1:]
wt = "/tmp/wt/" + tag; so = "/tmp/seed_out/" + tag
def sh(c, **kw):
    return subprocess.run(c, shell=isinstance(c, str), cwd=wt, stdout=subprocess.PIPE, stderr=subprocess.STDOUT, text=True, **kw)
head = subprocess.check_output(["git", "-C", "/repo", "rev-parse", "HEAD"], text=True).strip()
sh("git checkout -q -- . ; git clean -qfd -e target; git checkout -q --detach %s && git reset -q --hard && git clean -qfd -e target" % head)
os.makedirs(os.path.dirname(os.path.join(wt, dest)), exist_ok=True)
shutil.copy(os.path.join(so, "demo", demo_src), os.path.join(wt, dest))
env = dict(os.environ, CARGO_NET_OFFLINE="true")
r0 = sh(cmd, env=env)
print("demo WITHOUT patch: rc=%d" % r0.returncode); print(r0.stdout[-600:])
a = sh(["git", "apply", os.path.join(so, "patch.diff")])
if a.returncode != 0:
    print("patch does not apply:", a.stdout); sys.exit(1)
r1 = sh(cmd, env=env)
print("demo WITH patch: rc=%d" % r1.returncode); print(r1.stdout[-900:])
os.remove(os.path.join(wt, dest))
t = sh("cargo test --workspace --no-fail-fast --offline -j 8 2>&1 | grep -E '^test result' | awk '{p+=$4; f+=$6} END {print p, f}'", env=env)
print("suite with patch (passed failed):", t.stdout.strip())
ok = r0.returncode == 0 and r1.returncode != 0 and t.stdout.split()[:2] == ["215", "0"]
print("VERIFIED" if ok else "NOT VERIFIED")
if ok:
    d = "/verif/seeded/" + tag
    os.makedirs(d + "/demo", exist_ok=True)
    shutil.copy(os.path.join(so, "patch.diff"), d)
    for f in os.listdir(os.path.join(so, "demo")):
        shutil.copy(os.path.join(so, "demo", f), d + "/demo")
    meta = json.load(open(os.path.join(so, "meta.json")))
    meta["verified_by_me"] = {"repo_head": head, "demo_cmd": " ".join(cmd), "demo_rc_without_patch": r0.returncode,
                              "demo_rc_with_patch": r1.returncode, "suite_with_patch": t.stdout.strip()}
    json.dump(meta, open(d + "/meta.json", "w"), indent=1)
sys.exit(0 if ok else 1)
