CONSTANTS
  NBlocks = 4
INIT Init
NEXT Next
INVARIANT Emit
CHECK_DEADLOCK FALSE
