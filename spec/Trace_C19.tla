----------------------------- MODULE Trace_C19 -----------------------------
(* impl -> spec for C19: a recorded history of real extern "C" loader calls *)
(* is replayed through the actions of Loader.tla; after every call the     *)
(* observed return value, RESULT contents and buffer ownership events must *)
(* be what the specification's step produces.                              *)
EXTENDS Loader, Json, IOUtils
Rec == ndJsonDeserialize(IOEnv.TRACE)
VARIABLES l, bufmap     \* bufmap: abstract buffer token -> [ptr, len, cap] observed at its leak
tvars == <<lvars, l, bufmap>>

Ev == Rec[l]
Item(cls, what) == [cls |-> cls, what |-> what, l |-> l, event |-> Rec[l],
                    expected |-> [resp |-> resp', result |-> result'],
                    task |-> IF "t" \in DOMAIN Rec[l] /\ Live(Rec[l].t)
                             THEN [root |-> tasks[Rec[l].t].root,
                                   files |-> [p \in DOMAIN tasks[Rec[l].t].files |-> tasks[Rec[l].t].files[p]]]
                             ELSE [root |-> <<>>]]

(* --- observation vs. specification ------------------------------------ *)
RetOk(e) ==
  CASE resp'.k = "id"   -> e.ret = resp'.id
    [] resp'.k = "bool" -> e.ret = resp'.ok
    [] OTHER -> TRUE

(* RESULT as read by the driver, when it read it *)
ResOk(e) ==
  IF "res" \notin DOMAIN e THEN TRUE
  ELSE IF e.res.k = "any" THEN result' # NoResult
  ELSE CASE result'.k = "err"   -> e.res.k = "text" /\ ((e.res.s = "Task not found") <=> result'.tnf)
         [] result'.k = "files" -> e.res.k = "files" /\ NoDup(e.res.list)
                                    /\ {x.c : x \in Range(e.res.list)} = result'.set
                                    /\ \A x \in Range(e.res.list) : x.abs
         [] result'.k = "js"    -> e.res.k = "js" /\ e.res.fresh = TRUE
         [] OTHER -> FALSE          \* nothing to read: the driver must not have read

Leaks(e)    == SelectSeq(e.own, LAMBDA o : o.kind = "L")
Releases(e) == SelectSeq(e.own, LAMBDA o : o.kind = "R")
Triple(o)   == [ptr |-> o.ptr, len |-> o.len, cap |-> o.cap]
NoTriple    == [ptr |-> "none", len |-> 0, cap |-> 0]
LiveTokens  == UNION {tasks[t].bufs : t \in DOMAIN tasks}

(* the triple of a token as seen while judging event e: the token leaked *)
(* by this very call is described by e's own L record                     *)
TripleOf(e, b) == IF b \in DOMAIN bufmap THEN bufmap[b]
                  ELSE IF Len(Leaks(e)) = 1 THEN Triple(Leaks(e)[1]) ELSE NoTriple

(* tokens this call may release *)
Allowed(e) ==
  CASE e.ev = "Initiate" -> IF e.d.ok THEN {} ELSE {nextBuf}
    [] e.ev = "Load" /\ Live(e.t) -> Releasable(e.t, e.p, e.d)
    [] e.ev = "Free" /\ Live(e.t) -> tasks[e.t].bufs
    [] OTHER -> {}

(* tokens the observed R records denote *)
RelTokens(e) == {b \in Allowed(e) : \E i \in DOMAIN Releases(e) : Triple(Releases(e)[i]) = TripleOf(e, b)}

MayLeak(e) == e.ev = "Initiate" \/ (e.ev = "Load" /\ Live(e.t))

(* Ownership protocol, judged on what the hook recorded during this call: *)
OwnProtocol(e) ==
  LET lk == Leaks(e) rl == Releases(e) IN
  /\ Len(lk) <= (IF MayLeak(e) THEN 1 ELSE 0)
  \* the registered triple describes the buffer that was actually leaked
  /\ \A i \in DOMAIN lk : lk[i].ptr = lk[i].aptr /\ lk[i].len = lk[i].alen /\ lk[i].cap = lk[i].alen
  \* a freshly leaked buffer is not one that a live task still owns
  /\ \A i \in DOMAIN lk : lk[i].alen > 0 => \A b \in LiveTokens \cap DOMAIN bufmap : bufmap[b].ptr # lk[i].ptr
  \* every release is of a buffer the addressed task owns and no loaded document points into,
  \* with the triple it was registered with, and at most once
  /\ \A i \in DOMAIN rl : \E b \in Allowed(e) : Triple(rl[i]) = TripleOf(e, b)
  /\ \A i, j \in DOMAIN rl : i # j => Triple(rl[i]) # Triple(rl[j])

OwnOk(e) == OwnProtocol(e)

Bind(e) == LET lk == Leaks(e) IN
  bufmap' = [b \in DOMAIN bufmap \cup resp'.leaked |->
               IF b \in DOMAIN bufmap THEN bufmap[b]
               ELSE IF Len(lk) = 1 THEN Triple(lk[1]) ELSE NoTriple]

NextReset(k) == IF \E j \in (k + 1)..Len(Rec) : Rec[j].ev = "Reset"
                THEN CHOOSE j \in (k + 1)..Len(Rec) : Rec[j].ev = "Reset" /\ \A i \in (k + 1)..(j - 1) : Rec[i].ev # "Reset"
                ELSE Len(Rec) + 1

Judge(e) ==
  LET items == (IF RetOk(e) THEN <<>> ELSE <<Item("return", "call returned a value the specification's step does not")>>)
            \o (IF ResOk(e) THEN <<>> ELSE <<Item("result", "RESULT differs from the specification's (task answers depend only on its own files)")>>)
            \o (IF OwnOk(e) THEN <<>> ELSE <<Item("ownership", "source buffer leaked/released differently from the ownership protocol")>>)
  IN /\ \A i \in DOMAIN items : PrintT(<<"ITEM", ToJson(items[i])>>)
     /\ l' = IF items = <<>> THEN l + 1 ELSE NextReset(l)     \* resynchronise at the next history
     /\ Bind(e)
     /\ TLCSet(1, l' - 1)

IsEvent(k) == l <= Len(Rec) /\ Rec[l].ev = k

TReset    == IsEvent("Reset") /\ LReset /\ bufmap' = << >> /\ l' = l + 1 /\ TLCSet(1, l)
TInitiate == IsEvent("Initiate") /\ Initiate(Ev.p, Ev.d) /\ Judge(Ev)
TRequired == IsEvent("Required") /\ Required(Ev.t) /\ Judge(Ev)
TLoad     == IsEvent("Load") /\ Load(Ev.t, Ev.p, Ev.d, IF Live(Ev.t) THEN RelTokens(Ev) ELSE {}) /\ Judge(Ev)
TEmit     == IsEvent("Emit") /\ Emit(Ev.t) /\ Judge(Ev)
TFree     == IsEvent("Free") /\ Free(Ev.t) /\ Judge(Ev)
TRead     == IsEvent("Read") /\ (IF result # NoResult THEN ReadResult ELSE UNCHANGED lvars) /\ Judge(Ev)
(* the process died (abort / signal) inside a call: the spec has no such step *)
TCrash    == /\ IsEvent("Crash")
             /\ PrintT(<<"ITEM", ToJson([cls |-> "crash", what |-> "loader call aborted the process", l |-> l, event |-> Rec[l]])>>)
             /\ UNCHANGED <<lvars, bufmap>> /\ l' = NextReset(l) /\ TLCSet(1, l' - 1)

TInit == LInit /\ l = 1 /\ bufmap = << >> /\ TLCSet(1, 0)
TNext == TReset \/ TInitiate \/ TRequired \/ TLoad \/ TEmit \/ TFree \/ TRead \/ TCrash
Spec == TInit /\ [][TNext]_tvars
Inv == IdsNeverReused /\ OwnedOnce /\ RootLoaded
Done == PrintT(<<"DONE", ToJson([consumed |-> TLCGet(1)])>>)
=============================================================================
