----------------------------- MODULE Trace_X02 -----------------------------
(* impl -> spec for SchemaSources: one run of the real CLI per scenario.   *)
EXTENDS SchemaSources, Json, IOUtils, TLC, SequencesExt
Rec == ndJsonDeserialize(IOEnv.TRACE)
VARIABLE l
IsEvent(k) == l <= Len(Rec) /\ Rec[l].ev = k /\ l' = l + 1
Scen(e) == [sources |-> e.scenario.sources, plugin |-> e.scenario.plugin, gen |-> ToSet(e.scenario.gen)]
Item(cls, what, e, x) == [cls |-> cls, what |-> what, l |-> l, scenario |-> e.scenario, obs |-> e.obs, expected |-> [exit |-> x.exit, why |-> x.why]]
TRun ==
  /\ IsEvent("SchemaSourcesRun")
  /\ LET e == Rec[l]
         x == Expected(Scen(e))
         o == e.obs
         listing == {<<o.listing[i].fileType, o.listing[i].path>> : i \in DOMAIN o.listing}
         its == (IF o.panicked THEN {Item("panic", "the CLI panicked", e, x)} ELSE {})
                \cup (IF ~o.panicked /\ o.exit # x.exit THEN {Item("exit-status", "exit status differs from the schema-source model", e, x)} ELSE {})
                \cup (IF ~o.panicked /\ o.exit = 0 /\ x.exit = 0 /\ listing # x.listing THEN {Item("listing", "generate does not list exactly one typed entry per output", e, x)} ELSE {})
                \cup (IF ~o.panicked /\ o.exit = 0 /\ x.exit = 0 /\ {w[2] : w \in x.listing} # ToSet(o.written) THEN {Item("written", "written files differ from the listing", e, x)} ELSE {})
                \cup (IF ~o.panicked /\ o.exit = 1 /\ o.written # <<>> THEN {Item("write-on-failure", "a failing run wrote files", e, x)} ELSE {})
                \cup (IF ~o.panicked /\ o.exit = 0 /\ x.exit = 0 /\ ~(x.types \subseteq ToSet(o.types)) THEN {Item("types", "a type of one schema source is not exported by the schema declaration file", e, x)} ELSE {})
     IN /\ \A it \in its : PrintT(<<"ITEM", ToJson(it)>>)
        /\ PrintT(<<"STAT", ToJson([l |-> l, why |-> x.why, ok |-> (its = {})])>>)
Init == l = 1
Next == TRun
Spec == Init /\ [][Next]_l
Done == PrintT(<<"DONE", ToJson([consumed |-> TLCGet("stats").diameter - 1])>>)
=============================================================================
