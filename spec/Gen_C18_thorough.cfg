CONSTANTS
  MaxSchema = 2
  MaxOps = 3
  MaxFaults = 2
  Emitting = TRUE
INIT MCInit
NEXT PNext
INVARIANTS PipelineInv Emit
CHECK_DEADLOCK FALSE
