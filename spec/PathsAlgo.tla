----------------------------- MODULE PathsAlgo -----------------------------
(***************************************************************************)
(* Design-level model of nitrogql's own path algorithms                    *)
(* (crates/utils/src/relative_path.rs), kept in step with the code so that *)
(* TLC explains WHY a conformance failure happens.  Never a conformance    *)
(* oracle: Trace_C20 judges the implementation by Paths!RelContract only.  *)
(***************************************************************************)
EXTENDS Paths, TLC, FiniteSets

(* normalize_path: component stack; ".." pops whatever is on top — the    *)
(* root marker included, which is the deviation from Normalize outside    *)
(* the property's domain.  The stack is modelled with the root marker.    *)
RECURSIVE AlgoNormAcc(_, _)
AlgoNormAcc(p, st) ==
  IF p = <<>> THEN st
  ELSE LET c == Head(p) IN
       AlgoNormAcc(Tail(p),
                   IF c = Dot THEN st
                   ELSE IF c = DotDot THEN (IF st = <<>> THEN st ELSE Front(st))
                   ELSE Append(st, c))
\* "/" is the root marker; the result keeps it iff it survived
AlgoNormalize(p) == AlgoNormAcc(p, <<"/">>)

StripRoot(st) == IF st # <<>> /\ Head(st) = "/" THEN Tail(st) ELSE st

RECURSIVE CommonPrefixLen(_, _)
CommonPrefixLen(f, t) ==
  IF f = <<>> \/ t = <<>> \/ Head(f) # Head(t) THEN 0 ELSE 1 + CommonPrefixLen(Tail(f), Tail(t))

(* relative_path(from, to) *)
AlgoRelative(a, b) ==
  LET nf0 == AlgoNormalize(a)
      from == IF nf0 = <<>> THEN nf0 ELSE Front(nf0)          \* from.pop()
      to == AlgoNormalize(b)
      k == CommonPrefixLen(from, to)
      ups == [i \in 1..(Len(from) - k) |-> IF from[k + i] = "/" THEN "" ELSE DotDot]
      upsClean == SelectSeq(ups, LAMBDA c : c # "")
      rest == SubSeq(to, k + 1, Len(to))
      comps == upsClean \o SelectSeq(rest, LAMBDA c : c # "/")
  IN IF comps = <<>> THEN <<>>
     ELSE IF Head(comps) \in {Dot, DotDot} THEN comps ELSE <<Dot>> \o comps

AlgoResolve(a, rel) == StripRoot(AlgoNormalize(Dir(a) \o rel))

----------------------------------------------------------------------------
(* Model check: every pair in the domain, up to depth MaxDepth.           *)
CONSTANTS Comps, MaxDepth
VARIABLES a, b

Universe == {p \in SeqsUpTo(Comps, MaxDepth) : IsFilePath(p)}

Init == a \in Universe /\ b \in Universe
Next == UNCHANGED <<a, b>>

NormalizeAgrees   == StripRoot(AlgoNormalize(a)) = Normalize(a)
NormalizeIdem     == Normalize(Normalize(a)) = Normalize(a) /\ IsNormal(Normalize(a))
ResolveAgrees     == \A r \in {<<Dot>> \o b, <<DotDot>> \o b, <<DotDot, DotDot>> \o b} :
                        ~ClimbsAboveRoot(Dir(a) \o r) => AlgoResolve(a, r) = ResolveRef(a, r)
RelativeInverse   == PairInDomain(a, b) => RelContract(a, b, AlgoRelative(a, b))
(* The inverse direction of the round trip: what resolve gives back is   *)
(* again a normal file path.                                              *)
ResolveIsNormal   == PairInDomain(a, b) => IsNormal(ResolveRef(a, AlgoRelative(a, b)))
=============================================================================
