------------------------------- MODULE Loader -------------------------------
(***************************************************************************)
(* The bundler-loader ABI (crates/graphql-loader) as a state machine.      *)
(* One action per exported call; the thread-local task table, id counter   *)
(* and last-result cell are the state.  Property C19.                      *)
(***************************************************************************)
EXTENDS Imports, Naturals, Sequences, TLC

VARIABLES
  tasks,    \* live tasks: id -> [root: path, files: path -> descriptor, bufs: set of owned buffer tokens,
            \*                     backing: path -> token of the buffer its document points into]
  nextId,   \* next id to issue (ids are never reused)
  freed,    \* ids that were issued and freed
  result,   \* last RESULT: [k:"none"] | [k:"err", tnf] | [k:"files", set] | [k:"js"]
  nextBuf,  \* abstract identity of the next leaked source buffer
  resp      \* what the last call returned to its caller (observation)

lvars == <<tasks, nextId, freed, result, nextBuf, resp>>

NoResult   == [k |-> "none"]
ErrTNF     == [k |-> "err", tnf |-> TRUE]      \* "Task not found"
ErrOther   == [k |-> "err", tnf |-> FALSE]     \* parse / extension / import error
FilesRes(S) == [k |-> "files", set |-> S]
JsRes      == [k |-> "js"]

Live(t) == t \in DOMAIN tasks

Ext(f, k, v) == [x \in DOMAIN f \cup {k} |-> IF x = k THEN v ELSE f[x]]
Drop(f, k)   == [x \in DOMAIN f \ {k} |-> f[x]]

(* files the task still needs: import targets of loaded files, not loaded *)
RequiredOf(task) ==
  UNION {TargetsOf(task.files, f) : f \in DOMAIN task.files} \ DOMAIN task.files

EmitOk(task) == ~RefError(task.files, task.root)

LInit ==
  /\ tasks = << >> /\ nextId = 1 /\ freed = {} /\ result = NoResult /\ nextBuf = 1
  /\ resp = [k |-> "init"]

(* a fresh thread / process: all thread-locals start over *)
LReset ==
  /\ tasks' = << >> /\ nextId' = 1 /\ freed' = {} /\ result' = NoResult /\ nextBuf' = 1
  /\ resp' = [k |-> "init"]

(* initiate_task(file, source) *)
Initiate(p, d) ==
  /\ nextBuf' = nextBuf + 1
  /\ IF d.ok
     THEN /\ tasks' = Ext(tasks, nextId, [root |-> p, files |-> (p :> d), bufs |-> {nextBuf}, backing |-> (p :> nextBuf)])
          /\ nextId' = nextId + 1
          /\ resp' = [k |-> "id", id |-> nextId, leaked |-> {nextBuf}, released |-> {}]
          /\ UNCHANGED <<freed, result>>
     ELSE \* the half-built task is dropped at once, releasing its buffer
          /\ result' = ErrOther
          /\ resp' = [k |-> "id", id |-> 0, leaked |-> {nextBuf}, released |-> {nextBuf}]
          /\ UNCHANGED <<tasks, nextId, freed>>

(* get_required_files(t) *)
Required(t) ==
  /\ IF Live(t)
     THEN result' = FilesRes(RequiredOf(tasks[t])) /\ resp' = [k |-> "bool", ok |-> TRUE, leaked |-> {}, released |-> {}]
     ELSE result' = ErrTNF /\ resp' = [k |-> "bool", ok |-> FALSE, leaked |-> {}, released |-> {}]
  /\ UNCHANGED <<tasks, nextId, freed, nextBuf>>

(* Buffers of task t (after adding the new one) that no loaded document  *)
(* points into: only these may be released while the task lives.          *)
Releasable(t, p, d) ==
  LET all == tasks[t].bufs \cup {nextBuf}
      backing2 == IF d.ok THEN Ext(tasks[t].backing, p, nextBuf) ELSE tasks[t].backing
  IN all \ Range(backing2)

(* load_file(t, file, source); rel = buffers the implementation chooses   *)
(* to release early (the pinned code releases none before the task drops) *)
Load(t, p, d, rel) ==
  IF ~Live(t)
  THEN /\ result' = ErrTNF /\ resp' = [k |-> "bool", ok |-> FALSE, leaked |-> {}, released |-> {}]
       /\ UNCHANGED <<tasks, nextId, freed, nextBuf>>
  ELSE /\ rel \subseteq Releasable(t, p, d)
       /\ nextBuf' = nextBuf + 1
       /\ UNCHANGED <<nextId, freed>>
       /\ IF d.ok
          THEN /\ tasks' = [tasks EXCEPT ![t].files = Ext(@, p, d), ![t].backing = Ext(@, p, nextBuf),
                                         ![t].bufs = (@ \cup {nextBuf}) \ rel]
               /\ resp' = [k |-> "bool", ok |-> TRUE, leaked |-> {nextBuf}, released |-> rel]
               /\ UNCHANGED result
          ELSE \* the file table is unchanged: a rejected source never replaces an accepted one
               /\ tasks' = [tasks EXCEPT ![t].bufs = (@ \cup {nextBuf}) \ rel]
               /\ result' = ErrOther
               /\ resp' = [k |-> "bool", ok |-> FALSE, leaked |-> {nextBuf}, released |-> rel]

(* emit_js(t) *)
Emit(t) ==
  /\ IF Live(t)
     THEN IF EmitOk(tasks[t])
          THEN result' = JsRes /\ resp' = [k |-> "bool", ok |-> TRUE, leaked |-> {}, released |-> {}]
          ELSE result' = ErrOther /\ resp' = [k |-> "bool", ok |-> FALSE, leaked |-> {}, released |-> {}]
     ELSE result' = ErrTNF /\ resp' = [k |-> "bool", ok |-> FALSE, leaked |-> {}, released |-> {}]
  /\ UNCHANGED <<tasks, nextId, freed, nextBuf>>

(* free_task(t): the task is dropped, and with it every buffer it owns *)
Free(t) ==
  /\ IF Live(t)
     THEN /\ tasks' = Drop(tasks, t) /\ freed' = freed \cup {t}
          /\ resp' = [k |-> "void", leaked |-> {}, released |-> tasks[t].bufs]
     ELSE /\ UNCHANGED <<tasks, freed>>
          /\ resp' = [k |-> "void", leaked |-> {}, released |-> {}]
  /\ UNCHANGED <<nextId, result, nextBuf>>

(* get_result_ptr/size: only defined when a result exists (the TypeScript *)
(* wrapper never reads otherwise)                                          *)
ReadResult ==
  /\ result # NoResult
  /\ resp' = [k |-> "read", value |-> result, leaked |-> {}, released |-> {}]
  /\ UNCHANGED <<tasks, nextId, freed, result, nextBuf>>

----------------------------------------------------------------------------
(* Invariants of the design *)
IdsNeverReused ==
  /\ freed \cap DOMAIN tasks = {}
  /\ \A t \in DOMAIN tasks \cup freed : t >= 1 /\ t < nextId
  /\ DOMAIN tasks \cup freed = 1..(nextId - 1)

AllBufs == UNION {tasks[t].bufs : t \in DOMAIN tasks}
OwnedOnce ==
  /\ \A t, u \in DOMAIN tasks : t # u => tasks[t].bufs \cap tasks[u].bufs = {}
  /\ \A b \in AllBufs : b < nextBuf
  \* every loaded document points into a buffer its own task still owns (no use after free)
  /\ \A t \in DOMAIN tasks : /\ DOMAIN tasks[t].backing = DOMAIN tasks[t].files
                              /\ Range(tasks[t].backing) \subseteq tasks[t].bufs

RootLoaded == \A t \in DOMAIN tasks : tasks[t].root \in DOMAIN tasks[t].files

(* isolation: what a task answers is a function of its own files only —  *)
(* structurally true of RequiredOf/EmitOk; stated so TLC evaluates it.    *)
Isolation ==
  \A t, u \in DOMAIN tasks :
     (tasks[t].files = tasks[u].files /\ tasks[t].root = tasks[u].root)
       => (RequiredOf(tasks[t]) = RequiredOf(tasks[u]) /\ EmitOk(tasks[t]) = EmitOk(tasks[u]))
=============================================================================
