SPECIFICATION Spec
POSTCONDITION Done
CHECK_DEADLOCK FALSE
