CONSTANTS
  Chunks <- MCChunks
  Nodes <- MCNodes
  MaxCalls = 4
  CacheSize = 1
INIT Init
NEXT Next
INVARIANTS DecodesToEntries InsideText NamedAtChunkStart NotAfterChunkStart
CHECK_DEADLOCK FALSE
