CONSTANTS
  NDocs = 130
  MaxPos = 160
  PosStep = 1
  NRepl = 28
  ReplStep = 1
INIT Init
NEXT Next
INVARIANT Emit
CHECK_DEADLOCK FALSE
