------------------------------ MODULE Gen_C19 ------------------------------
(* spec -> impl for C19: TLC explores the loader state machine over a small *)
(* universe of files and task ids; for every transition of the (history-    *)
(* free) state graph it prints the call history that reaches it together    *)
(* with the response the specification expects after each call.  The ABI    *)
(* driver replays each history through the real extern "C" functions.       *)
(* The same module, without printing, is the design-level model check.      *)
EXTENDS Loader, Json
CONSTANTS MaxLen, MaxTasks, DoPrint
VARIABLES hist

Imp(spec, names) == [spec |-> spec, wild |-> FALSE, names |-> names]
Frag(n, sp) == [name |-> n, spreads |-> sp]
DM   == [ok |-> TRUE, imports |-> <<Imp(<<".", "a.graphql">>, <<"A">>)>>, frags |-> <<>>, ops |-> <<Frag("Q", <<"A">>)>>]
DA   == [ok |-> TRUE, imports |-> <<Imp(<<".", "b.graphql">>, <<"B">>)>>, frags |-> <<Frag("A", <<"B">>)>>, ops |-> <<>>]
DA2  == [ok |-> TRUE, imports |-> <<>>, frags |-> <<Frag("A", <<>>)>>, ops |-> <<>>]
DB   == [ok |-> TRUE, imports |-> <<>>, frags |-> <<Frag("B", <<>>)>>, ops |-> <<>>]
DBAD == [ok |-> FALSE, imports |-> <<>>, frags |-> <<>>, ops |-> <<>>]

PM  == <<"p", "m.graphql">>
PA  == <<"p", "a.graphql">>
PB  == <<"p", "b.graphql">>
PA2 == <<"p", "s", "..", "a.graphql">>       \* another spelling of PA: a different key

Ids == {1, 2, 7}                              \* 7 is never issued
InitCalls == {<<PM, DM>>, <<PM, DBAD>>, <<PB, DB>>}
LoadCalls == {<<PA, DA>>, <<PA, DA2>>, <<PB, DB>>, <<PA, DBAD>>, <<PA2, DA2>>, <<PB, DA2>>}

Call(name, args) == [call |-> name, args |-> args]
Step(c) == hist' = Append(hist, [c |-> c, resp |-> resp', result |-> result'])

GNext ==
  /\ Len(hist) < MaxLen
  /\ \/ \E c \in InitCalls : nextId <= MaxTasks /\ Initiate(c[1], c[2]) /\ Step([call |-> "initiate", p |-> c[1], d |-> c[2]])
     \/ \E t \in Ids : Required(t) /\ Step([call |-> "required", t |-> t])
     \/ \E t \in Ids, c \in LoadCalls : Load(t, c[1], c[2], {}) /\ Step([call |-> "load", t |-> t, p |-> c[1], d |-> c[2]])
     \/ \E t \in Ids : Emit(t) /\ Step([call |-> "emit", t |-> t])
     \/ \E t \in Ids : Free(t) /\ Step([call |-> "free", t |-> t])
     \/ ReadResult /\ Step([call |-> "read"])
  /\ (DoPrint => PrintT(<<"CASE", ToJson(hist')>>))

GInit == LInit /\ hist = <<>>
View == lvars
Spec == GInit /\ [][GNext]_<<lvars, hist>>

Inv == IdsNeverReused /\ OwnedOnce /\ RootLoaded /\ Isolation
=============================================================================
