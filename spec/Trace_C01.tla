----------------------------- MODULE Trace_C01 -----------------------------
(***************************************************************************)
(* impl -> spec for C01 and C02: each event is one run of the real         *)
(* `nitrogql generate` on a valid schema plus a valid, accepted operation  *)
(* document; the emitted Result / fragment types (read with the emitted    *)
(* schema declaration file) are judged against Exec.tla:                   *)
(*  MODE = "C01": every response in Responses(X, sigma) (all sigma, all    *)
(*               runtime types) is a member of the emitted type;           *)
(*  MODE = "C02": every one-position perturbation of a member of RefLocal  *)
(*               that the emitted type admits is itself in RefLocal.       *)
(* Cases whose response set exceeds MaxSet are discarded (counted).        *)
(***************************************************************************)
EXTENDS Exec, Json, IOUtils
Rec == ndJsonDeserialize(IOEnv.TRACE)
Mode == IOEnv.MODE
MaxSet == 6000
PerturbMax == IF "TIER" \in DOMAIN IOEnv /\ IOEnv.TIER = "thorough" THEN 100000 ELSE 48
VARIABLE l
IsEvent(k) == l <= Len(Rec) /\ Rec[l].ev = k /\ l' = l + 1
Stat(s) == PrintT(<<"STAT", ToJson(s)>>)
RECURSIVE CatFiles(_, _)
CatFiles(files, i) == IF i > Len(files) THEN <<>> ELSE files[i].items \o CatFiles(files, i + 1)
Report(e, its) == \A it \in its : PrintT(<<"ITEM", ToJson([cls |-> it.cls, what |-> it.what, l |-> l, id |-> e.id, more |-> it.more])>>)

(* X: definition; name: the emitted type's name *)
DefItems(S, cfg, env, frs, X, name) ==
  LET d == ExportedMember(env.local, "local", "", name)
      vis == IF X.k = "frag" THEN {X.name} ELSE {}
      BV == CondVars(frs, X.sel, vis)
      taus == IF X.k = "op" THEN {RootTypeName(S, X.opType)} ELSE PossibleTypes(S, X.on)
      ctx == <<X.k, name>>
  IN IF d.k # "decl" THEN {Item("result-type-missing", "the operation declaration has no type of the expected name", [ctx |-> ctx])}
     ELSE
     LET InTs(v) == Member(v, d.stmt.t, env, ScopeOfDecl(d), 24)
         dang == Dangling(d.stmt.t, env, ScopeOfDecl(d))
         dangIt == IF dang = {} THEN {} ELSE {Item("dangling-reference", "a reference inside the emitted type does not resolve", [ctx |-> ctx, paths |-> dang])}
     IN IF Mode = "C01" THEN
          LET combos == {<<tau, sigma>> : tau \in taus, sigma \in Assignments(BV)}
              size == SumN(combos, LAMBDA c : SizeSel(S, cfg, frs, c[1], X.sel, c[2], FALSE, BV))
          IN IF size > MaxSet THEN {Item("$discard", "response set beyond the bound", [ctx |-> ctx, size |-> size])}
             ELSE LET bad == {c \in combos : \E r \in ExecSel(S, cfg, frs, c[1], X.sel, c[2], FALSE, BV) : ~InTs(r)}
                  IN (IF bad = {} THEN {Item("$ok", "", [ctx |-> ctx, size |-> size, combos |-> Cardinality(combos)])}
                      ELSE LET c == CHOOSE c \in bad : TRUE
                               r == CHOOSE r \in ExecSel(S, cfg, frs, c[1], X.sel, c[2], FALSE, BV) : ~InTs(r)
                           IN {Item("response-not-admitted", "a response a conformant server can return is not a member of the emitted type",
                                    [ctx |-> ctx, runtimeType |-> c[1], sigma |-> c[2], response |-> r])})
                     \cup dangIt
        ELSE
          LET size == SumN(taus, LAMBDA tau : SizeSel(S, cfg, frs, tau, X.sel, <<>>, TRUE, BV))
          IN IF size > MaxSet \div 10 THEN {Item("$discard", "reference set beyond the bound", [ctx |-> ctx, size |-> size])}
             ELSE LET members == UNION {ExecSel(S, cfg, frs, tau, X.sel, <<>>, TRUE, BV) : tau \in taus}
                      A == AltAtoms(S)
                      (* one-position perturbations are taken of at most PerturbMax members of the reference set, evenly                    *)
                      (* spread over the (deterministically ordered) member set - quick tier 48, thorough tier all                          *)
                      mseq == SetToSeq(members)
                      step == IF Len(mseq) <= PerturbMax THEN 1 ELSE (Len(mseq) + PerturbMax - 1) \div PerturbMax
                      picked == {mseq[i] : i \in {j \in DOMAIN mseq : j % step = 0}}
                      cands == UNION {Perturb(r, A) : r \in picked}
                      InTsExact(v) == MemberExact(v, d.stmt.t, env, ScopeOfDecl(d), 24)
                      loose == {v \in cands : InTsExact(v) /\ ~InSel(v, S, cfg, frs, taus, X.sel, BV)}
                      dropped == DroppedKeys(d.stmt.t, env, ScopeOfDecl(d))
                  IN (IF loose = {} THEN {Item("$ok", "", [ctx |-> ctx, size |-> size, cands |-> Cardinality(cands)])}
                      ELSE {Item("non-response-admitted", "the emitted type admits a value no execution of the selection set can return",
                                 [ctx |-> ctx, witness |-> CHOOSE v \in loose : TRUE])})
                     \cup dangIt
                     \cup (IF dropped = {} THEN {} ELSE {Item("key-dropped-by-utility-type", "a selected key is not declared by the schema type the emitted type refers to, so __SelectionSet drops it and leaves it unconstrained",
                                                                [ctx |-> ctx, keys |-> dropped])})

(* the name of the type a definition is judged by comes from the documented naming rules (Naming.tla) under the case's `generate.name` options *)
NM == INSTANCE Naming
TypeNameOf(e, i) == LET d == e.opFiles[1].doc.defs[i] IN
                    IF d.k = "op" THEN NM!ResultTypeName(e.nameCfg, IF d.hasName THEN d.name ELSE "") ELSE NM!FragTypeName(e.nameCfg, d.name)

TGen ==
  /\ IsEvent("TypeGen")
  /\ LET e == Rec[l]
         S == MergeItems(CatFiles(e.schemaFiles, 1))
         cfg == [allowUndefined |-> e.cfg.allowUndefined, scalars |-> e.scalars, modelPlugin |-> FALSE, modelTypes |-> <<>>]
         defs == e.opFiles[1].doc.defs
         frs == FragMapOf(defs)
         viol == Violations(S, defs)
     IN IF viol # {} THEN Stat([l |-> l, id |-> e.id, discard |-> "generated document is not valid", rules |-> {v.rule : v \in viol}])
        ELSE IF e.panicked THEN Report(e, {Item("panic", "generate panicked", [diag |-> e.diag])})
        ELSE IF e.exit # 0 THEN Report(e, {Item("generate-failed", "check/generate failed on a valid schema and document", [diag |-> e.diag])})
        ELSE IF e.schemaTs.k # "ok" \/ e.opTs[1].k # "ok" THEN Report(e, {Item("declaration-unreadable", "a declaration file is missing or not well-formed", [schema |-> e.schemaTs.k, op |-> e.opTs[1].k])})
        ELSE LET env == [schema |-> e.schemaTs.stmts, local |-> e.opTs[1].stmts, schemaNs |-> e.opTs[1].schemaNs]
                 its == UNION {DefItems(S, cfg, env, frs, defs[i], TypeNameOf(e, i)) : i \in DOMAIN defs}
                 clash == ClashNames(e.opTs[1].stmts)
                 fragNames == {defs[i].name : i \in {j \in DOMAIN defs : defs[j].k = "frag"}}
                 (* a module with a clash has no usable types: membership is not judged on it.  A clash on an identifier that IS the name the *)
                 (* document gave a fragment (the fragment's type and constant are exported under that very name) is classed separately.      *)
                 real == IF clash = {} THEN {it \in its : it.cls \notin {"$ok", "$discard"}}
                         ELSE {Item(IF clash \subseteq fragNames THEN "identifier-clash-fragment-name" ELSE "identifier-clash",
                                    "one identifier is declared twice (or imported and declared) in the operation declaration file: TypeScript rejects the module",
                                    [names |-> clash])}
             IN /\ Report(e, real)
                /\ Stat([l |-> l, id |-> e.id, ok |-> Cardinality({it \in its : it.cls = "$ok"}), beyond |-> Cardinality({it \in its : it.cls = "$discard"}),
                         sizes |-> {it.more.size : it \in {x \in its : x.cls \in {"$ok", "$discard"}}}, preludeOk |-> e.preludeOk])
(* "TypeGenBatch": one project whose operation files are documents enumerated by Gen_C01.tla (every document with <= MaxNodes selection *)
(* nodes over a tiny schema).  Each file is judged like a TypeGen event; a file whose document is not valid - Validate.tla, plus the   *)
(* conservative form of FieldsInSetCanMerge below - is discarded.                                                                      *)
RECURSIVE AllFields(_, _, _)
AllFields(frs, sel, vis) ==
  LET RECURSIVE Go(_)
      Go(i) == IF i > Len(sel) THEN <<>>
               ELSE (CASE sel[i].k = "field" -> <<sel[i]>>
                       [] sel[i].k = "spread" -> IF sel[i].name \in DOMAIN frs /\ sel[i].name \notin vis
                                                 THEN AllFields(frs, frs[sel[i].name].sel, vis \cup {sel[i].name}) ELSE <<>>
                       [] sel[i].k = "inline" -> AllFields(frs, sel[i].sel, vis)) \o Go(i + 1)
  IN Go(1)
(* every field selected under one response key anywhere in a scope (whatever its type condition or @skip/@include) has one field name,  *)
(* recursively for the merged sub-selections: stricter than the spec's rule, so only valid documents pass                               *)
RECURSIVE KeysConsistent(_, _)
KeysConsistent(frs, sel) ==
  LET fl == AllFields(frs, sel, {}) IN
  \A key \in KeysOf(fl) : LET ns == NodesFor(fl, key) IN
     /\ \A i \in DOMAIN ns : ns[i].name = ns[1].name
     /\ KeysConsistent(frs, MergedSel(ns))
TypeNameOfK(e, k, i) == LET d == e.opFiles[k].doc.defs[i] IN
                        IF d.k = "op" THEN NM!ResultTypeName(e.nameCfg, IF d.hasName THEN d.name ELSE "") ELSE NM!FragTypeName(e.nameCfg, d.name)
FileOutcome(e, S, cfg, k) ==
  LET defs == e.opFiles[k].doc.defs
      frs == FragMapOf(defs)
      valid == Violations(S, defs) = {} /\ \A i \in DOMAIN defs : KeysConsistent(frs, defs[i].sel)
  IN IF ~valid THEN [real |-> {}, ok |-> 0, beyond |-> 0, discarded |-> 1]
     ELSE IF e.opTs[k].k # "ok" THEN [real |-> {Item("declaration-unreadable", "a declaration file is missing or not well-formed", [file |-> k, op |-> e.opTs[k].k])}, ok |-> 0, beyond |-> 0, discarded |-> 0]
     ELSE LET env == [schema |-> e.schemaTs.stmts, local |-> e.opTs[k].stmts, schemaNs |-> e.opTs[k].schemaNs]
              its == UNION {DefItems(S, cfg, env, frs, defs[i], TypeNameOfK(e, k, i)) : i \in DOMAIN defs}
              clash == ClashNames(e.opTs[k].stmts)
              real == IF clash = {} THEN {[it EXCEPT !.more = [file |-> k, detail |-> it.more]] : it \in {x \in its : x.cls \notin {"$ok", "$discard"}}}
                      ELSE {Item("identifier-clash", "one identifier is declared twice in the operation declaration file", [file |-> k, names |-> clash])}
          IN [real |-> real, ok |-> Cardinality({it \in its : it.cls = "$ok"}), beyond |-> Cardinality({it \in its : it.cls = "$discard"}), discarded |-> 0]
TGenBatch ==
  /\ IsEvent("TypeGenBatch")
  /\ LET e == Rec[l]
         S == MergeItems(CatFiles(e.schemaFiles, 1))
         cfg == [allowUndefined |-> e.cfg.allowUndefined, scalars |-> e.scalars, modelPlugin |-> FALSE, modelTypes |-> <<>>]
     IN IF e.panicked THEN Report(e, {Item("panic", "generate panicked", [diag |-> e.diag])})
        ELSE IF e.exit # 0 THEN Report(e, {Item("generate-failed", "check/generate failed on a project of enumerated documents", [diag |-> e.diag])})
        ELSE IF e.schemaTs.k # "ok" THEN Report(e, {Item("declaration-unreadable", "the schema declaration file is missing or not well-formed", [schema |-> e.schemaTs.k])})
        ELSE LET outs == [k \in DOMAIN e.opFiles |-> FileOutcome(e, S, cfg, k)]
             IN /\ Report(e, UNION {outs[k].real : k \in DOMAIN outs})
                /\ Stat([l |-> l, id |-> e.id, batch |-> Len(outs), ok |-> SumN(DOMAIN outs, LAMBDA k : outs[k].ok),
                         beyond |-> SumN(DOMAIN outs, LAMBDA k : outs[k].beyond), discardedFiles |-> SumN(DOMAIN outs, LAMBDA k : outs[k].discarded), sizes |-> {}, preludeOk |-> e.preludeOk])
Init == l = 1
Next == TGen \/ TGenBatch
Spec == Init /\ [][Next]_l
Done == PrintT(<<"DONE", ToJson([consumed |-> TLCGet("stats").diameter - 1])>>)
=============================================================================
