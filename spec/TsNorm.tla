------------------------------- MODULE TsNorm -------------------------------
(* Order-insensitive normal form of the emitted TypeScript subset (shape:  *)
(* harness/TS_AST.md): union / intersection members and object members are *)
(* sets.  For this subset equality of normal forms is semantic equality    *)
(* modulo declaration and member order (C15, C17).                         *)
EXTENDS Sequences, FiniteSets
RECURSIVE NT(_)
NT(t) == CASE t.k = "kw" -> [k |-> "kw", n |-> t.n]
           [] t.k = "lit" -> [k |-> "lit", s |-> t.s]
           [] t.k = "litnum" -> [k |-> "litnum", s |-> t.s]
           [] t.k = "litbool" -> [k |-> "litbool", v |-> t.v]
           [] t.k = "ref" -> [k |-> "ref", path |-> t.path, args |-> [i \in DOMAIN t.args |-> NT(t.args[i])]]
           [] t.k = "array" -> [k |-> "array", readonly |-> t.readonly, of |-> NT(t.of)]
           [] t.k = "union" -> [k |-> "union", ts |-> {NT(t.ts[i]) : i \in DOMAIN t.ts}]
           [] t.k = "inter" -> [k |-> "inter", ts |-> {NT(t.ts[i]) : i \in DOMAIN t.ts}]
           [] t.k = "obj" -> [k |-> "obj", fs |-> {[key |-> t.fs[i].key, opt |-> t.fs[i].opt, readonly |-> t.fs[i].readonly, t |-> NT(t.fs[i].t)] : i \in DOMAIN t.fs}]
           \* helper types outside the structured subset (e.g. `{ A: A; B: B }[T]`): compared as token multisets,
           \* which is insensitive to member order (coarser than equality, never an alarm on a reordering)
           [] t.k = "raw" -> [k |-> "raw", bag |-> [tk \in {t.tokens[i] : i \in DOMAIN t.tokens} |-> Cardinality({i \in DOMAIN t.tokens : t.tokens[i] = tk})]]
AliasSet(files) == UNION {{[file |-> files[f].file, name |-> files[f].aliases[i].name, params |-> files[f].aliases[i].params, t |-> NT(files[f].aliases[i].t)]
                           : i \in DOMAIN files[f].aliases} : f \in DOMAIN files}
=============================================================================
