CONSTANTS
  Alphabet <- AlphabetQuick
  MinToks = 2
  MaxToks = 5
INIT Init
NEXT Next
INVARIANT Emit
CHECK_DEADLOCK FALSE
