------------------------------ MODULE Nitrogql ------------------------------
(***************************************************************************)
(* The CLI pipeline (crates/cli/src/main.rs run_cli_impl, check.rs,        *)
(* generate.rs, output/mod.rs) as a staged state machine over an ABSTRACT  *)
(* project: files carrying ground-truth fault sets.  Properties C18 (and   *)
(* the stage reachability that C03/C08 rely on: generate only after a      *)
(* clean check).                                                           *)
(*                                                                         *)
(* A project is [schema: Seq(faults), ops: Seq(faults), commands, gen];    *)
(* gen \subseteq {"resolvers", "server"}: optional outputs configured;     *)
(* schema fault kinds: "parse", "ext" (orphan extension), "check";         *)
(* operation fault kinds: "parse", "import" (dangling import), "check",    *)
(* "libcheck" / "libvar" (faults of a fragment that only another file      *)
(* imports and spreads).                                                   *)
(***************************************************************************)
EXTENDS Naturals, Sequences, FiniteSets, TLC

VARIABLES P,        \* the project (never changes)
          stage,    \* "loadSchema" | "loadOps" | "command" | "output" | "done"
          idx,      \* next schema file / next command
          checked,  \* check has run and found nothing
          named,    \* files (<<kind, i>>) named by a located diagnostic
          cmdError, \* "none" | "located" | "unlocated"
          written, listed, exit

vars == <<P, stage, idx, checked, named, cmdError, written, listed, exit>>

SchemaFaults == {"parse", "ext", "check"}
OpFaults == {"parse", "import", "check", "libcheck", "libvar"}
(* libcheck: a fault inside a fragment that only ANOTHER file imports and spreads (visible when the fragment is checked on its own too) *)
(* libvar:   such a fragment uses a variable that the importing operation does not define: a fault of the fragment's file that   *)
(*           exists only in the context of the importing operation (a fragment on its own has no variable scope)                *)
SF(i) == <<"schema", i>>
OF(j) == <<"operation", j>>

Has(kind, i, f) == IF kind = "schema" THEN f \in P.schema[i] ELSE f \in P.ops[i]
SchemaWith(f) == {SF(i) : i \in {k \in DOMAIN P.schema : f \in P.schema[k]}}
OpsWith(f) == {OF(j) : j \in {k \in DOMAIN P.ops : f \in P.ops[k]}}
AnyFault == \E i \in DOMAIN P.schema : P.schema[i] # {} \/ \E j \in DOMAIN P.ops : P.ops[j] # {}

(* what `generate` writes for a clean project: schema types (+map), one declaration (+map) per operation file and, when *)
(* configured (P.gen), the resolver types (+map) and the server schema module (no map)                                  *)
GenOf(p) == IF "gen" \in DOMAIN p THEN p.gen ELSE {}
OutputsOf(p) == (IF "noschema" \in GenOf(p) THEN {} ELSE {<<"schemaTypes">>, <<"schemaTypesMap">>}) \cup UNION {{<<"opTypes", j>>, <<"opTypesMap", j>>} : j \in DOMAIN p.ops}
                \cup (IF "resolvers" \in GenOf(p) THEN {<<"resolvers">>, <<"resolversMap">>} ELSE {})
                \cup (IF "server" \in GenOf(p) THEN {<<"server">>} ELSE {})
Outputs == OutputsOf(P)

Fail(loc, nm) == /\ cmdError' = loc /\ named' = named \cup nm /\ exit' = 1 /\ stage' = "output"
                 /\ UNCHANGED <<P, idx, checked, written, listed>>

(* schema files are parsed one by one; the first syntax error aborts *)
LoadSchemaFile ==
  /\ stage = "loadSchema"
  /\ IF idx > Len(P.schema) THEN stage' = "loadOps" /\ UNCHANGED <<P, idx, checked, named, cmdError, written, listed, exit>>
     ELSE IF "parse" \in P.schema[idx] THEN Fail("located", {SF(idx)})
     ELSE idx' = idx + 1 /\ UNCHANGED <<P, stage, checked, named, cmdError, written, listed, exit>>

(* all operation files are parsed; every syntax error is reported *)
LoadOps ==
  /\ stage = "loadOps"
  /\ IF OpsWith("parse") # {} THEN Fail("located", OpsWith("parse"))
     ELSE stage' = "command" /\ idx' = 1 /\ UNCHANGED <<P, checked, named, cmdError, written, listed, exit>>

(* the check stage proper; sub-stages run in order and the first that finds faults ends the command *)
CheckOutcome ==
  IF SchemaWith("ext") # {}   THEN [ok |-> FALSE, some |-> SchemaWith("ext"), all |-> FALSE]   \* resolver stops at its first error
  ELSE IF SchemaWith("check") # {}  THEN [ok |-> FALSE, some |-> SchemaWith("check"), all |-> TRUE]
  ELSE IF OpsWith("import") # {}    THEN [ok |-> FALSE, some |-> OpsWith("import"), all |-> TRUE]
  ELSE IF OpsWith("check") \cup OpsWith("libcheck") \cup OpsWith("libvar") # {}
                                    THEN [ok |-> FALSE, some |-> OpsWith("check") \cup OpsWith("libcheck") \cup OpsWith("libvar"), all |-> TRUE]
  ELSE [ok |-> TRUE, some |-> {}, all |-> TRUE]

RunCheck(thenGenerate) ==
  LET o == CheckOutcome IN
  IF ~o.ok
  THEN \E nm \in (SUBSET o.some) \ {{}} :
         /\ (o.all => nm = o.some)                     \* every offending file of the failing sub-stage is named
         /\ Fail("unlocated", nm)                      \* "Command not successful: check"; the diagnostics carry the locations
  ELSE /\ checked' = TRUE
       /\ IF thenGenerate
          THEN written' = Outputs /\ listed' = Outputs /\ idx' = idx + 1 /\ UNCHANGED <<P, stage, named, cmdError, exit>>
          ELSE idx' = idx + 1 /\ UNCHANGED <<P, stage, named, cmdError, written, listed, exit>>

(* a configuration that `generate` cannot work with: no schemaOutput (and no schemaModuleSpecifier) although other outputs need to *)
(* import the schema types.  It is rejected before anything is written; `check` alone does not care.                              *)
(* "runtimeDts": emitSchemaRuntime together with a `.d.ts` schema output (runtime code cannot go into a declaration file) - rejected   *)
(* at the same point.  ("runtime" = emitSchemaRuntime with a `.ts` schema output is a working configuration.)                       *)
BadGenConfig(p) == "noschema" \in GenOf(p) \/ "runtimeDts" \in GenOf(p)
Command ==
  /\ stage = "command"
  /\ IF idx > Len(P.commands) THEN stage' = "output" /\ UNCHANGED <<P, idx, checked, named, cmdError, written, listed, exit>>
     ELSE IF P.commands[idx] = "check" THEN
          (IF checked THEN Fail("unlocated", {}) ELSE RunCheck(FALSE))   \* check after another command is an error
     ELSE IF ~checked THEN
          (IF CheckOutcome.ok /\ BadGenConfig(P) THEN Fail("unlocated", {}) ELSE RunCheck(TRUE))     \* generate runs check first
     ELSE IF BadGenConfig(P) THEN Fail("unlocated", {})
     ELSE written' = Outputs /\ listed' = Outputs /\ idx' = idx + 1 /\ UNCHANGED <<P, stage, checked, named, cmdError, exit>>

Output == stage = "output" /\ stage' = "done" /\ UNCHANGED <<P, idx, checked, named, cmdError, written, listed, exit>>

PInit(projects) ==
  /\ P \in projects /\ stage = "loadSchema" /\ idx = 1 /\ checked = FALSE /\ named = {} /\ cmdError = "none"
  /\ written = {} /\ listed = {} /\ exit = 0
PNext == LoadSchemaFile \/ LoadOps \/ Command \/ Output
(* liveness: every run of the pipeline reaches "done" (no stage waits for anything) *)
PLiveSpec(projects) == PInit(projects) /\ [][PNext]_vars /\ WF_vars(PNext)
PipelineTerminates == <>(stage = "done")

----------------------------------------------------------------------------
(* The terminal outcome as a function of the project (what Trace_C18 judges a real run by); *)
(* TLC checks that the stage machine above ends exactly there (OutcomeAgrees).              *)
XSchemaWith(p, f) == {SF(i) : i \in {k \in DOMAIN p.schema : f \in p.schema[k]}}
XOpsWith(p, f) == {OF(j) : j \in {k \in DOMAIN p.ops : f \in p.ops[k]}}
XOutputs(p) == OutputsOf(p)
FirstOf(S) == CHOOSE x \in S : \A y \in S : x[2] <= y[2]
Expected(p) ==
  LET fail(st, some, all) == [exit |-> 1, failing |-> st, some |-> some, all |-> all, writes |-> {}]
  IN
  IF XSchemaWith(p, "parse") # {} THEN fail("schemaParse", {FirstOf(XSchemaWith(p, "parse"))}, TRUE)
  ELSE IF XOpsWith(p, "parse") # {} THEN fail("opsParse", XOpsWith(p, "parse"), TRUE)
  ELSE IF XSchemaWith(p, "ext") # {} THEN fail("ext", XSchemaWith(p, "ext"), FALSE)
  ELSE IF XSchemaWith(p, "check") # {} THEN fail("schemaCheck", XSchemaWith(p, "check"), TRUE)
  ELSE IF XOpsWith(p, "import") # {} THEN fail("import", XOpsWith(p, "import"), TRUE)
  ELSE IF XOpsWith(p, "check") \cup XOpsWith(p, "libcheck") \cup XOpsWith(p, "libvar") # {}
       THEN fail("opsCheck", XOpsWith(p, "check") \cup XOpsWith(p, "libcheck") \cup XOpsWith(p, "libvar"), TRUE)
  ELSE IF BadGenConfig(p) /\ p.commands # <<"check">> THEN [exit |-> 1, failing |-> "config", some |-> {}, all |-> TRUE, writes |-> {}]
  ELSE IF p.commands = <<"generate", "check">> THEN [exit |-> 1, failing |-> "misuse", some |-> {}, all |-> TRUE, writes |-> XOutputs(p)]
  ELSE [exit |-> 0, failing |-> "none", some |-> {}, all |-> TRUE,
        writes |-> IF p.commands = <<"check">> THEN {} ELSE XOutputs(p)]

OutcomeAgrees ==
  stage = "done" => LET x == Expected(P) IN
     /\ exit = x.exit /\ written = x.writes /\ listed = x.writes
     /\ named \subseteq x.some /\ (x.some # {} => named # {}) /\ (x.all => named = x.some)

(* C18 *)
Misuse == P.commands = <<"generate", "check">> \/ (BadGenConfig(P) /\ P.commands # <<"check">>)
ExitIffClean       == stage = "done" => (exit = 0 <=> (~AnyFault /\ ~Misuse))
CheckWritesNothing == (P.commands = <<"check">>) => written = {}
WrittenIsListed    == written = listed
NoWriteOnFailure   == (stage = "done" /\ exit = 1 /\ (~Misuse \/ BadGenConfig(P))) => written = {}
FaultIsLocated     == (stage = "done" /\ exit = 1 /\ ~Misuse) => named # {}
NamedAreFaulty     == \A f \in named : IF f[1] = "schema" THEN P.schema[f[2]] # {} ELSE P.ops[f[2]] # {}
GenerateOnlyAfterCleanCheck == written # {} => checked
PipelineInv == ExitIffClean /\ CheckWritesNothing /\ WrittenIsListed /\ NoWriteOnFailure /\ FaultIsLocated /\ NamedAreFaulty
               /\ GenerateOnlyAfterCleanCheck /\ OutcomeAgrees
=============================================================================
