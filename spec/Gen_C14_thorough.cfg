CONSTANTS
  Modes = {"with-loader-ts-5.0", "with-loader-ts-4.0", "standalone-ts-4.0"}
  Suffixes = {"unset", "", "Doc"}
  Bools3 = {"unset", "true", "false"}
  TypeExports = {FALSE, TRUE}
INIT Init
NEXT Next
INVARIANT Emit
CHECK_DEADLOCK FALSE
