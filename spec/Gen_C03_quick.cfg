CONSTANTS
  NDocs = 24
  NOperators = 46
  MaxSite = 5
INIT Init
NEXT Next
INVARIANT Emit
CHECK_DEADLOCK FALSE
