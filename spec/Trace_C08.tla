----------------------------- MODULE Trace_C08 -----------------------------
(***************************************************************************)
(* impl -> spec for C08.  In the pipeline model (Nitrogql.tla) and the     *)
(* loader model (Loader.tla) every stage action ends in "ok" or "err";     *)
(* there is no Panic, Abort or Timeout action.  An event records what each *)
(* stage did with one input text; any other outcome is a violation.  The   *)
(* stage ORDER of the model is checked as well (generation only after an   *)
(* accepting check, diagnostics rendered only after a rejecting one), so a *)
(* driver that fed a stage something the real pipeline never would is      *)
(* caught as a tool error rather than believed.                            *)
(***************************************************************************)
EXTENDS Naturals, Sequences, FiniteSets, TLC, Json, IOUtils
Rec == ndJsonDeserialize(IOEnv.TRACE)
VARIABLE l
IsEvent(k) == l <= Len(Rec) /\ Rec[l].ev = k /\ l' = l + 1

Allowed == {"ok", "err", "accepted", "rejected"}
TimeBoundMs == 5000
StageNames(st) == [i \in DOMAIN st |-> st[i].s]
Idx(st, n) == {i \in DOMAIN st : st[i].s = n}
Verdict(st) == IF Idx(st, "check-verdict") = {} THEN "none" ELSE st[CHOOSE i \in Idx(st, "check-verdict") : TRUE].o
GenStages == {"generate-types", "generate-js", "generate-schema-types", "generate-resolver-types", "print-resolved-graphql"}
OrderOK(st) ==
  /\ \A i \in DOMAIN st : st[i].s \in GenStages => Verdict(st) = "accepted"
  /\ \A i \in DOMAIN st : st[i].s = "render-diagnostics" => (Idx(st, "check-verdict") = {} \/ Verdict(st) = "rejected")
  /\ \A i \in DOMAIN st : st[i].s \in {"extensions", "imports", "check"} => \E j \in 1..(i - 1) : st[j].s = "parse" /\ st[j].o = "ok"

TStages ==
  /\ IsEvent("Stages")
  /\ LET e == Rec[l]
         bad == {i \in DOMAIN e.stages : e.stages[i].o \notin Allowed}
         slow == {i \in DOMAIN e.stages : "ms" \in DOMAIN e.stages[i] /\ e.stages[i].ms > TimeBoundMs}
     IN /\ (bad = {} \/ PrintT(<<"ITEM", ToJson([cls |-> "stage-" \o e.stages[CHOOSE i \in bad : TRUE].o,
                                                   what |-> "a pipeline stage did not end in ok/err",
                                                   l |-> l, kind |-> e.kind, id |-> e.id, stage |-> e.stages[CHOOSE i \in bad : TRUE], text |-> e.cp])>>))
        /\ (slow = {} \/ PrintT(<<"ITEM", ToJson([cls |-> "stage-slow", what |-> "a stage exceeded the time bound", l |-> l, id |-> e.id,
                                                    stage |-> e.stages[CHOOSE i \in slow : TRUE]])>>))
        /\ (OrderOK(e.stages) \/ PrintT(<<"ITEM", ToJson([cls |-> "driver-order", what |-> "TOOL: driver ran stages in an order the pipeline model does not have",
                                                            l |-> l, id |-> e.id, stages |-> StageNames(e.stages)])>>))
Init == l = 1
Next == TStages
Spec == Init /\ [][Next]_l
Done == PrintT(<<"DONE", ToJson([consumed |-> TLCGet("stats").diameter - 1])>>)
=============================================================================
