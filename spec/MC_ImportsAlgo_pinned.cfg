CONSTANTS
  MaxLines = 2
  Reduced = TRUE
  Variant = "pinned"
INIT AInit
NEXT ANext
INVARIANT AlgoMeetsContract
CHECK_DEADLOCK FALSE
