CONSTANTS
  NModels = 3
  NOperators = 60
  MaxSite = 7
INIT Init
NEXT Next
INVARIANT Emit
CHECK_DEADLOCK FALSE
