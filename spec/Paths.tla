------------------------------- MODULE Paths -------------------------------
(***************************************************************************)
(* Path algebra behind property C20 (and the consumers in C06/C13/C19).   *)
(*                                                                         *)
(* An absolute path is the sequence of its components after the root; a   *)
(* component is a name, "." or "..".  A relative path is a sequence of    *)
(* components interpreted against the directory of a file.                *)
(*                                                                         *)
(* This module is the REFERENCE: the unique normal form and what a        *)
(* relative reference denotes.  The three implementation functions are    *)
(* bound to it by Trace_C20; nitrogql's own algorithm is modelled          *)
(* separately in PathsAlgo (design level only, never an oracle).          *)
(***************************************************************************)
EXTENDS Sequences, Naturals, SequencesExt

Dot    == "."
DotDot == ".."
IsName(c) == c # Dot /\ c # DotDot

RECURSIVE NormAcc(_, _)
NormAcc(p, acc) ==
  IF p = <<>> THEN acc
  ELSE LET c == Head(p) IN
       NormAcc(Tail(p),
               IF c = Dot THEN acc
               ELSE IF c = DotDot THEN (IF acc = <<>> THEN acc ELSE Front(acc))
               ELSE Append(acc, c))

(* The canonical location of an absolute path (POSIX: ".." at the root   *)
(* stays at the root; the property's domain excludes that case anyway).  *)
Normalize(p) == NormAcc(p, <<>>)

(* Depth reached after each prefix; the path climbs above the root iff   *)
(* some prefix has more ".." than names before it.                        *)
RECURSIVE ClimbsFrom(_, _)
ClimbsFrom(p, d) ==
  IF p = <<>> THEN FALSE
  ELSE LET c == Head(p) IN
       IF c = Dot THEN ClimbsFrom(Tail(p), d)
       ELSE IF c = DotDot THEN (d = 0 \/ ClimbsFrom(Tail(p), d - 1))
       ELSE ClimbsFrom(Tail(p), d + 1)
ClimbsAboveRoot(p) == ClimbsFrom(p, 0)

(* A path that names a FILE: non-empty, last component a name, never     *)
(* above the root.                                                        *)
IsFilePath(p) == p # <<>> /\ IsName(Last(p)) /\ ~ClimbsAboveRoot(p)

Dir(p) == Front(p)                       \* directory part, verbatim

(* What a relative reference `rel`, written in file `a`, denotes.        *)
ResolveRef(a, rel) == Normalize(Dir(a) \o rel)

IsNormal(p) == \A i \in 1..Len(p) : IsName(p[i])

StartsRelative(rel) == rel # <<>> /\ Head(rel) \in {Dot, DotDot}

IsPrefixOf(p, q) == Len(p) <= Len(q) /\ SubSeq(q, 1, Len(p)) = p

(* "from file A to file B": both files, and B is not the directory of A  *)
(* or one of its ancestors (a file cannot be a directory of another).    *)
PairInDomain(a, b) ==
  /\ IsFilePath(a) /\ IsFilePath(b)
  /\ ~IsPrefixOf(Normalize(b), Dir(Normalize(a)))

(* The property relation for relative_path.                               *)
RelContract(a, b, rel) ==
  /\ StartsRelative(rel)
  /\ ResolveRef(a, rel) = Normalize(b)

(* Bounded universes used by the generator and the model-level check.    *)
RECURSIVE SeqsUpTo(_, _)
SeqsUpTo(S, n) == IF n = 0 THEN {<<>>}
                  ELSE LET R == SeqsUpTo(S, n - 1) IN
                       R \cup {Append(s, c) : s \in {r \in R : Len(r) = n - 1}, c \in S}
=============================================================================
