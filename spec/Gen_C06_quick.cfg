CONSTANTS
  Chunks <- MCChunks
  Nodes <- MCNodes
  MaxCalls = 4
  CacheSize = 1
  Emitting <- EmittingOn
INIT InitAfterFirstLine
NEXT Next
INVARIANT Emit
CHECK_DEADLOCK FALSE
