CONSTANTS
  Alphabet <- AlphabetThorough
  MinToks = 2
  MaxToks = 5
INIT Init
NEXT Next
INVARIANT Emit
CHECK_DEADLOCK FALSE
