------------------------------ MODULE Gen_C05 ------------------------------
(* spec -> impl for C05: the fault-injection space (base schema model,      *)
(* fault operator, site).  bin/props/c05.py applies the operator to the     *)
(* abstract model; TypeSysValidate.tla independently confirms that the      *)
(* result violates a rule of the property's list (else the case is          *)
(* discarded).                                                              *)
EXTENDS Naturals, TLC, Json
CONSTANTS NModels, NOperators, MaxSite
VARIABLES model, operator, site
Init == model \in 1..NModels /\ operator \in 1..NOperators /\ site \in 0..MaxSite
Next == UNCHANGED <<model, operator, site>>
Emit == PrintT(<<"CASE", ToJson([model |-> model, operator |-> operator, site |-> site])>>)
=============================================================================
