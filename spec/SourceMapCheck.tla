--------------------------- MODULE SourceMapCheck ---------------------------
(***************************************************************************)
(* Validity and coverage of an emitted Source Map v3 (property C06),       *)
(* stated on the artefacts:                                                *)
(*   out    = [gen (path of the generated file), lineLens (UTF-16 length   *)
(*             of each generated line), map (version, sources, names,      *)
(*             mappings as code points)]                                   *)
(*   inputs = the GraphQL input files: path, token table <<line,col,text>>,*)
(*            and per definition where its first token / keyword / name /  *)
(*            member names were placed (recorded by the renderer)          *)
(* Decoding is SourceMap.tla's; path resolution is Paths.tla's.            *)
(***************************************************************************)
EXTENDS SourceMap, Paths, TLC

SItem(cls, what, more) == [cls |-> cls, what |-> what, more |-> more]

InputAt(inputs, file) == {i \in DOMAIN inputs : Normalize(inputs[i].path) = file}
TokenStarts(inp, line, col) == \E k \in DOMAIN inp.tokens : inp.tokens[k][1] = line /\ inp.tokens[k][2] = col
TokenAt(inp, line, col) == inp.tokens[CHOOSE k \in DOMAIN inp.tokens : inp.tokens[k][1] = line /\ inp.tokens[k][2] = col]
(* just past a token (range-closing segments point at the end of the mapped name) *)
TokenEnds(inp, line, col) == \E k \in DOMAIN inp.tokens : inp.tokens[k][1] = line /\ inp.tokens[k][2] + Len(inp.tokens[k][3]) = col
(* the definition(s) whose keyword (or `extend`) is at this position *)
DefsWithKeywordAt(inp, line, col) == {a \in {inp.ann[i] : i \in DOMAIN inp.ann} : (a.kw[1] = line /\ a.kw[2] = col) \/ (a.first[1] = line /\ a.first[2] = col)}

(* the segment before segment k of (1-based) line g, in document order; n = 0 if there is none *)
RECURSIVE LastBefore(_, _)
LastBefore(lines, g) == IF g < 1 THEN [n |-> 0] ELSE IF lines[g] # <<>> THEN lines[g][Len(lines[g])] ELSE LastBefore(lines, g - 1)
PrevSeg(lines, g, k) == IF k > 1 THEN lines[g][k - 1] ELSE LastBefore(lines, g - 1)
(* a range-closing segment: just past the mapped name of the segment that opened the range *)
ClosesRange(lines, names, g, k) ==
  LET s == lines[g][k] p == PrevSeg(lines, g, k) IN
  s.n = 4 /\ p.n = 5 /\ p.name >= 0 /\ p.name < Len(names) /\ p.src = s.src /\ p.line = s.line /\ s.col = p.col + Len(names[p.name + 1])

SegmentItems(out, inputs) ==
  LET map == out.map
      dec == DecodeMappings(map.mappings)
  IN IF map.version # 3 THEN {SItem("not-v3", "version is not 3", [gen |-> out.gen])}
     ELSE IF ~dec.ok THEN {SItem("undecodable", "mappings do not decode", [gen |-> out.gen, why |-> dec.why])}
     ELSE IF Len(dec.lines) > Len(out.lineLens) /\ \E g \in (Len(out.lineLens) + 1)..Len(dec.lines) : dec.lines[g] # <<>>
          THEN {SItem("segment-beyond-generated-text", "a segment lies on a line the generated file does not have", [gen |-> out.gen])}
     ELSE UNION {UNION {
            LET s == dec.lines[g][k]
                where == [gen |-> out.gen, genLine |-> g - 1, genCol |-> s.genCol, seg |-> s]
            IN (IF s.genCol < 0 \/ s.genCol > out.lineLens[g] THEN {SItem("segment-beyond-generated-text", "generated column outside the line", where)} ELSE {})
               \cup (IF s.n = 5 /\ g \in DOMAIN out.identStarts /\ ~\E j \in DOMAIN out.identStarts[g] : out.identStarts[g][j] = s.genCol
                     THEN {SItem("named-segment-not-on-identifier", "a named segment does not sit on the start of an identifier of the generated text", where)} ELSE {})
               \cup (IF k > 1 /\ dec.lines[g][k - 1].genCol > s.genCol THEN {SItem("segments-unordered", "segments of a line are not in ascending order", where)} ELSE {})
               \cup (IF s.n < 4 THEN {}
                     ELSE IF s.src < 0 \/ s.src >= Len(map.sources) THEN {SItem("bad-source-index", "source index outside `sources`", where)}
                     ELSE LET file == ResolveRef(out.gen, map.sources[s.src + 1])
                              F == InputAt(inputs, file)
                          IN IF F = {} THEN {SItem("source-not-an-input", "`sources` entry does not resolve to a GraphQL input file", [where EXCEPT !.seg = file])}
                             ELSE LET inp == inputs[CHOOSE i \in F : TRUE] IN
                                  (IF s.line < 0 \/ s.col < 0 \/ ~(TokenStarts(inp, s.line, s.col) \/ TokenEnds(inp, s.line, s.col) \/ ClosesRange(dec.lines, map.names, g, k))
                                   THEN {SItem("original-position-not-a-token", "original position is neither the start of a token nor just past a token / the mapped name", where)} ELSE {})
                                  \cup (IF s.n = 5 THEN
                                          (IF s.name < 0 \/ s.name >= Len(map.names) THEN {SItem("bad-name-index", "name index outside `names`", where)}
                                           ELSE LET nm == map.names[s.name + 1] IN
                                                IF TokenStarts(inp, s.line, s.col) /\
                                                   (TokenAt(inp, s.line, s.col)[3] = nm \/ \E a \in DefsWithKeywordAt(inp, s.line, s.col) : a.name = nm)
                                                THEN {} ELSE {SItem("wrong-name", "the segment's name is not the source identifier of the construct starting there", [where EXCEPT !.gen = nm])})
                                        ELSE {}))
            : k \in DOMAIN dec.lines[g]} : g \in DOMAIN dec.lines}

(* --- coverage: the generated identifier at (line, col) of G carries a segment into one of the given original positions of a file --- *)
Targets4(dec, map, out, line, col) ==
  {s \in SegmentsAt(dec, line, col) : s.n >= 4 /\ s.src >= 0 /\ s.src < Len(map.sources)}
PointsInto(dec, map, out, inputs, line, col, wanted) ==      \* wanted: set of <<file (normalised path), line, col>>
  \E s \in Targets4(dec, map, out, line, col) : <<ResolveRef(out.gen, map.sources[s.src + 1]), s.line, s.col>> \in wanted

(* header positions (first token, keyword, name) of the definitions / extensions of kind-set K named n, over all inputs *)
HeaderPositions(inputs, kinds, n) ==
  UNION {UNION {IF inputs[i].ann[j].k \in kinds /\ inputs[i].ann[j].name = n
                THEN {<<Normalize(inputs[i].path), p[1], p[2]>> : p \in {inputs[i].ann[j].first, inputs[i].ann[j].kw, inputs[i].ann[j].namePos}}
                ELSE {} : j \in DOMAIN inputs[i].ann} : i \in DOMAIN inputs}
MemberPositions(inputs, kinds, n, comp, names, member) ==
  UNION {UNION {LET a == inputs[i].ann[j] IN
                IF a.k \in kinds /\ a.name = n
                THEN {<<Normalize(inputs[i].path), a[comp][m][1], a[comp][m][2]>> : m \in {x \in DOMAIN a[comp] : a[names][x] = member}}
                ELSE {} : j \in DOMAIN inputs[i].ann} : i \in DOMAIN inputs}
=============================================================================
