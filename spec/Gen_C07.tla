------------------------------ MODULE Gen_C07 ------------------------------
(* spec -> impl for C07 (trivia): every vector of n+1 gaps (one before each *)
(* of n tokens, one after the last) over the insignificant-token alphabet,  *)
(* for n = MinToks .. MaxToks.  bin/props/c07.py pairs each vector with the *)
(* small documents that have exactly n tokens; whether a layout is legal    *)
(* (e.g. no separator between two names) is decided by the TLA+ lexer in    *)
(* Trace_C07, not here.                                                     *)
EXTENDS Naturals, Sequences, TLC, Json
CONSTANTS Alphabet, MinToks, MaxToks
VARIABLES gaps
AlphabetQuick    == {"", " ", ",", "\n", "#c\n"}
AlphabetThorough == {"", " ", ",", "\n", "\t", "\r\n", "#c\n"}
Init == gaps = <<>>
Next == Len(gaps) < MaxToks + 1 /\ \E g \in Alphabet : gaps' = Append(gaps, g)
Emit == (Len(gaps) >= MinToks + 1) => PrintT(<<"CASE", ToJson([gaps |-> gaps])>>)
=============================================================================
