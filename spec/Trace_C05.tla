----------------------------- MODULE Trace_C05 -----------------------------
(***************************************************************************)
(* impl -> spec for C05: each event is one run of the real schema check    *)
(* (parse per file, concatenation with the CLI's built-ins, extension      *)
(* resolution, check_type_system_document) on rendered schema files.       *)
(*  mode "valid": the model is valid by construction and TSViolations      *)
(*    agrees -> zero diagnostics required.                                 *)
(*  mode "fault": one labelled fault was injected into a model whose base  *)
(*    was cleanly accepted and TSViolations confirms that a rule of the    *)
(*    property's list is broken -> at least one diagnostic required (an    *)
(*    error of the extension resolution stage counts: that is where        *)
(*    duplicate same-kind definitions are reported).                       *)
(***************************************************************************)
EXTENDS TypeSysValidate, Json, IOUtils
Rec == ndJsonDeserialize(IOEnv.TRACE)
VARIABLE l
IsEvent(k) == l <= Len(Rec) /\ Rec[l].ev = k /\ l' = l + 1
Stat(s) == PrintT(<<"STAT", ToJson(s)>>)

RECURSIVE CatFiles(_, _)
CatFiles(files, i) == IF i > Len(files) THEN <<>> ELSE files[i].items \o CatFiles(files, i + 1)

TCheck ==
  /\ IsEvent("CheckSchema")
  /\ LET e == Rec[l]
         items == CatFiles(e.files, 1)
         viol == TSViolations(items)
         reported == (e.out.k = "ok" /\ e.out.diags # <<>>) \/ (e.out.k = "stage-error" /\ e.out.stage = "extensions")
     IN IF e.out.k = "panic" THEN PrintT(<<"ITEM", ToJson([cls |-> "panic", what |-> "schema check (or a stage before it) panicked", l |-> l, id |-> e.id, msg |-> e.out.msg])>>)
        ELSE IF e.out.k = "stage-error" /\ e.out.stage = "parse"
             THEN Stat([l |-> l, discard |-> "rendered schema does not parse", id |-> e.id, msg |-> e.out.msg])
        ELSE IF e.mode = "valid" THEN
             (IF viol # {} THEN Stat([l |-> l, discard |-> "generated model is not valid", id |-> e.id, rules |-> {v.rule : v \in viol}, at |-> {v.at : v \in viol}])
              ELSE IF ~reported THEN Stat([l |-> l, ok |-> "valid-accepted"])
              ELSE PrintT(<<"ITEM", ToJson([cls |-> "false-alarm", what |-> "check reported a diagnostic on a valid schema", l |-> l, id |-> e.id,
                                             out |-> e.out, files |-> e.files])>>))
        ELSE (IF e.baseDiags > 0 THEN Stat([l |-> l, discard |-> "base model not cleanly accepted", id |-> e.id])
              ELSE IF viol = {} THEN Stat([l |-> l, discard |-> "mutation stayed valid", fault |-> e.fault])
              ELSE IF reported THEN Stat([l |-> l, ok |-> "fault-reported", rules |-> {v.rule : v \in viol}, fault |-> e.fault.operator])
              ELSE PrintT(<<"ITEM", ToJson([cls |-> "missed-violation", what |-> "check accepted a schema that violates an implemented rule", l |-> l,
                                             id |-> e.id, rules |-> {v.rule : v \in viol}, at |-> {v.at : v \in viol}, fault |-> e.fault, files |-> e.files])>>))
Init == l = 1
Next == TCheck
Spec == Init /\ [][Next]_l
Done == PrintT(<<"DONE", ToJson([consumed |-> TLCGet("stats").diameter - 1])>>)
=============================================================================
