------------------------------ MODULE ExtMerge ------------------------------
(***************************************************************************)
(* Schema extension resolution (property C11).                             *)
(*                                                                         *)
(* A document is a sequence of items.  An item is                          *)
(*   [k: kind, ext: BOOLEAN, name, id, file,                               *)
(*    dirs, interfaces, fields, members, values, inputFields: Seq(name),   *)
(*    ops: Seq(<<opType, typeName>>)]                                      *)
(* kind \in {"schema","scalar","object","interface","union","enum",        *)
(* "input","directive"}; the schema's name is "".                          *)
(*                                                                         *)
(* This module is the REFERENCE (what resolution must yield); the          *)
(* implementation-shaped state machine (per-kind ordered registries fed    *)
(* item by item, then merged) is ExtMergeAlgo.tla, model-checked against   *)
(* this reference.                                                         *)
(***************************************************************************)
EXTENDS Sequences, Naturals, FiniteSets, SequencesExt, TLC

Kinds == <<"schema", "scalar", "object", "interface", "union", "enum", "input">>   \* resolution order
Comps == {"dirs", "interfaces", "fields", "members", "values", "inputFields", "ops"}

IsOrig(it) == ~it.ext /\ it.k # "directive"
Bucket(it) == <<it.k, it.name>>

Idx(doc, P(_)) == SelectSeq([i \in DOMAIN doc |-> i], LAMBDA i : P(doc[i]))

Origs(doc, b) == SelectSeq(doc, LAMBDA it : IsOrig(it) /\ Bucket(it) = b)
Exts(doc, b)  == SelectSeq(doc, LAMBDA it : it.ext /\ Bucket(it) = b)
Buckets(doc)  == {Bucket(doc[i]) : i \in {j \in DOMAIN doc : doc[j].k # "directive"}}

DuplicateOriginal(doc) == \E b \in Buckets(doc) : Len(Origs(doc, b)) > 1
Orphan(doc)            == \E b \in Buckets(doc) : Len(Origs(doc, b)) = 0 /\ Len(Exts(doc, b)) > 0
RefFails(doc)          == DuplicateOriginal(doc) \/ Orphan(doc)

(* items a failure diagnostic may point at *)
Offenders(doc) ==
  {doc[i].id : i \in {j \in DOMAIN doc : doc[j].k # "directive" /\
       LET b == Bucket(doc[j]) IN
       \/ (IsOrig(doc[j]) /\ Len(Origs(doc, b)) > 1)
       \/ (doc[j].ext /\ Len(Origs(doc, b)) = 0)}}

RECURSIVE ConcatComp(_, _)
ConcatComp(items, c) == IF items = <<>> THEN <<>> ELSE Head(items)[c] \o ConcatComp(Tail(items), c)

(* original followed by each extension in document order, per component *)
Merged(doc, b) ==
  LET o == Origs(doc, b)[1]
      all == <<o>> \o Exts(doc, b)
  IN [k |-> o.k, name |-> o.name, id |-> o.id,
      dirs |-> ConcatComp(all, "dirs"), interfaces |-> ConcatComp(all, "interfaces"),
      fields |-> ConcatComp(all, "fields"), members |-> ConcatComp(all, "members"),
      values |-> ConcatComp(all, "values"), inputFields |-> ConcatComp(all, "inputFields"),
      ops |-> ConcatComp(all, "ops")]

Shape(it) == [k |-> it.k, name |-> it.name, id |-> it.id, dirs |-> it.dirs, interfaces |-> it.interfaces,
              fields |-> it.fields, members |-> it.members, values |-> it.values,
              inputFields |-> it.inputFields, ops |-> it.ops]

(* the set of definitions resolution must yield (directive definitions pass through) *)
RefResult(doc) ==
  {Merged(doc, b) : b \in Buckets(doc)} \cup
  {Shape(doc[i]) : i \in {j \in DOMAIN doc : doc[j].k = "directive"}}

CountOf(s, x) == Cardinality({i \in DOMAIN s : s[i] = x})

(* out = [k |-> "err", at |-> id of the item the diagnostic points at (0 if none)]   *)
(*     | [k |-> "ok", defs |-> sequence of Shape records]                            *)
ResolveContract(doc, out) ==
  IF RefFails(doc)
  THEN out.k = "err" /\ out.at \in Offenders(doc)
  ELSE /\ out.k = "ok"
       /\ {out.defs[i] : i \in DOMAIN out.defs} = RefResult(doc)
       /\ \A i \in DOMAIN out.defs : CountOf(out.defs, out.defs[i]) = 1

=============================================================================
