------------------------------ MODULE Gen_C11 ------------------------------
(* spec -> impl for C11: a builder state machine appends one definition or *)
(* extension per step; TLC's state graph is every sequence of <= MaxItems  *)
(* items over all seven kinds (+ directive definitions), every split over  *)
(* <= MaxFiles files.  Every item contributes uniquely named components,   *)
(* so a component dropped by a merge is visible.                           *)
EXTENDS ExtMerge, Json
CONSTANTS MaxItems, MaxFiles, Emitting
VARIABLES items

Bks == {<<"schema", "">>, <<"scalar", "A">>, <<"object", "A">>, <<"object", "B">>, <<"interface", "A">>,
        <<"union", "A">>, <<"enum", "A">>, <<"input", "A">>}
OpTypes == <<"query", "mutation", "subscription">>

Tag(pre, i) == pre \o ToString(i)
Has(k, c) == CASE c = "dirs" -> TRUE
               [] c = "ops" -> k = "schema"
               [] c = "interfaces" -> k \in {"object", "interface"}
               [] c = "fields" -> k \in {"object", "interface"}
               [] c = "members" -> k = "union"
               [] c = "values" -> k = "enum"
               [] c = "inputFields" -> k = "input"
One(k, c, x) == IF Has(k, c) THEN <<x>> ELSE <<>>

MkItem(k, name, ext, i, file) ==
  [k |-> k, name |-> name, ext |-> ext, id |-> i, file |-> file,
   dirs |-> One(k, "dirs", Tag("d", i)), interfaces |-> One(k, "interfaces", Tag("I", i)),
   fields |-> One(k, "fields", Tag("f", i)), members |-> One(k, "members", Tag("M", i)),
   values |-> One(k, "values", Tag("V", i)), inputFields |-> One(k, "inputFields", Tag("g", i)),
   ops |-> One(k, "ops", <<OpTypes[(i % 3) + 1], Tag("Q", i)>>)]

MkDirective(i, file) ==
  [k |-> "directive", name |-> "A", ext |-> FALSE, id |-> i, file |-> file, dirs |-> <<>>, interfaces |-> <<>>,
   fields |-> <<>>, members |-> <<>>, values |-> <<>>, inputFields |-> <<>>, ops |-> <<>>]

LastFile == IF items = <<>> THEN 1 ELSE items[Len(items)].file

GInit == items = <<>>
GNext == /\ Len(items) < MaxItems
         /\ \E file \in LastFile..MaxFiles :
              LET i == Len(items) + 1 IN
              \/ \E b \in Bks, ext \in BOOLEAN : items' = Append(items, MkItem(b[1], b[2], ext, i, file))
              \/ items' = Append(items, MkDirective(i, file))

Emit == Emitting => PrintT(<<"CASE", ToJson([items |-> items, fails |-> RefFails(items)])>>)
=============================================================================
