CONSTANTS
  MaxSchema = 2
  MaxOps = 2
  MaxFaults = 2
  Emitting = FALSE
INIT MCInit
NEXT PNext
INVARIANT PipelineInv
CHECK_DEADLOCK FALSE
