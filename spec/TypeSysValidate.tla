--------------------------- MODULE TypeSysValidate ---------------------------
(***************************************************************************)
(* Reference validation of type-system documents (property C05).           *)
(*                                                                         *)
(* Input: the ITEMS of a project's schema files in load order (definitions *)
(* and `extend` items, TsDoc shape of harness/ABSTRACT_JSON.md).           *)
(* MergeItems is the reference extension merge (original followed by each  *)
(* of its extensions in document order, per component; ExtMerge.tla states *)
(* the same thing on names only and is what C11 judges).                   *)
(* TSViolations(items) is the set of [rule, at] records, one rule per      *)
(* clause of the property's list, each quantified over EVERY position at   *)
(* which the GraphQL specification (October 2021, section 3) states it.    *)
(* Directive applications reuse Validate!DirsViol with no variables in     *)
(* scope (type-system positions are constant positions).                   *)
(***************************************************************************)
EXTENDS Validate

Reserved(n) == Len(n) >= 2 /\ SubSeq(n, 1, 2) = "__"

(* ---------------------------------------------------------------- merge *)
IsOrigT(d) == d.k \in TypeKinds /\ ~d.ext
IsExtT(d)  == d.k \in TypeKinds /\ d.ext
ExtsOf(items, o) == SelectSeq(items, LAMBDA d : IsExtT(d) /\ d.k = o.k /\ d.name = o.name)
RECURSIVE Cat(_, _)
Cat(ds, c) == IF ds = <<>> THEN <<>> ELSE Head(ds)[c] \o Cat(Tail(ds), c)
MergedType(items, o) ==
  LET all == <<o>> \o ExtsOf(items, o)
  IN [k |-> o.k, ext |-> FALSE, name |-> o.name, desc |-> o.desc, dirs |-> Cat(all, "dirs"), interfaces |-> Cat(all, "interfaces"),
      fields |-> Cat(all, "fields"), members |-> Cat(all, "members"), values |-> Cat(all, "values"), inputFields |-> Cat(all, "inputFields")]
SchemaOrigs(items) == SelectSeq(items, LAMBDA d : d.k = "schema" /\ ~d.ext)
SchemaExts(items)  == SelectSeq(items, LAMBDA d : d.k = "schema" /\ d.ext)
MergedSchemaDef(items) ==
  LET all == SchemaOrigs(items) \o SchemaExts(items)
  IN [k |-> "schema", ext |-> FALSE, desc |-> all[1].desc, dirs |-> Cat(all, "dirs"), ops |-> Cat(all, "ops")]

(* merged, extension-free definitions in the order of their originals *)
MergeItems(items) ==
  LET RECURSIVE M(_)
      M(i) == IF i > Len(items) THEN <<>>
              ELSE LET d == items[i] IN
                   (IF d.k = "directive" THEN <<d>>
                    ELSE IF IsOrigT(d) THEN <<MergedType(items, d)>>
                    ELSE IF d.k = "schema" /\ ~d.ext /\ SchemaOrigs(items)[1] = d THEN <<MergedSchemaDef(items)>>
                    ELSE <<>>) \o M(i + 1)
  IN M(1)

(* the five built-in scalars are defined implicitly: `extend scalar String @d` is no orphan (its applications are judged below) *)
BuiltinScalarNames == {"Int", "Float", "String", "Boolean", "ID"}
IsBuiltinScalarExt(d) == IsExtT(d) /\ d.k = "scalar" /\ d.name \in BuiltinScalarNames
MergeViol(items) ==
  UNION {LET d == items[i] IN
         IF IsOrigT(d) /\ \E j \in 1..(i - 1) : IsOrigT(items[j]) /\ items[j].k = d.k /\ items[j].name = d.name
         THEN V("DuplicateDefinition", d.name)
         ELSE IF IsBuiltinScalarExt(d) THEN {}
         ELSE IF IsExtT(d) /\ ~\E j \in DOMAIN items : IsOrigT(items[j]) /\ items[j].k = d.k /\ items[j].name = d.name
         THEN V("OrphanExtension", d.name)
         ELSE IF d.k = "schema" /\ ~d.ext /\ \E j \in 1..(i - 1) : items[j].k = "schema" /\ ~items[j].ext
         THEN V("DuplicateDefinition", "schema")
         ELSE IF d.k = "schema" /\ d.ext /\ SchemaOrigs(items) = <<>>
         THEN V("OrphanExtension", "schema")
         ELSE {} : i \in DOMAIN items}

(* names are unique among ALL kinds of types (the per-kind check above is the extension resolver's; this one the checker's), and a   *)
(* directive is defined once - the built-in directives count                                                                          *)
BuiltinDirectiveNames == {"skip", "include", "deprecated", "specifiedBy", "nitrogql_ts_type"}
NameViol(items) ==
  UNION {LET d == items[i] IN
         IF IsOrigT(d) /\ \E j \in 1..(i - 1) : IsOrigT(items[j]) /\ items[j].k # d.k /\ items[j].name = d.name
         THEN V("DuplicateDefinition", d.name)
         ELSE IF d.k = "directive" /\ (d.name \in BuiltinDirectiveNames \/ \E j \in 1..(i - 1) : items[j].k = "directive" /\ items[j].name = d.name)
         THEN V("DuplicateDefinition", d.name)
         ELSE {} : i \in DOMAIN items}

(* --------------------------------------------------- rules on merged S *)
DupNames(xs, rule) == UNION {IF \E j \in 1..(i - 1) : xs[j].name = xs[i].name THEN V(rule, xs[i].name) ELSE {} : i \in DOMAIN xs}
DupRefs(xs, rule)  == UNION {IF \E j \in 1..(i - 1) : xs[j].n = xs[i].n THEN V(rule, xs[i].n) ELSE {} : i \in DOMAIN xs}
ReservedIn(xs)     == UNION {IF Reserved(xs[i].name) THEN V("ReservedName", xs[i].name) ELSE {} : i \in DOMAIN xs}
TDirs(S, dirs, loc) == DirsViol(S, NoVars, dirs, loc)

InputPosViol(S, ty) ==        \* the type of an argument or input field
  LET n == Unwrap(ty) IN
  IF ~HasType(S, n) THEN V("UnknownType", n) ELSE IF IsInputTypeName(S, n) THEN {} ELSE V("OutputTypeInInputPosition", n)
OutputPosViol(S, ty) ==       \* the type of a field
  LET n == Unwrap(ty) IN
  IF ~HasType(S, n) THEN V("UnknownType", n) ELSE IF IsOutputTypeName(S, n) THEN {} ELSE V("InputTypeInOutputPosition", n)

ArgDefsViol(S, args) ==
  DupNames(args, "DuplicateArgument") \cup ReservedIn(args)
  \cup UNION {InputPosViol(S, args[i].type) \cup TDirs(S, args[i].dirs, "ARGUMENT_DEFINITION") : i \in DOMAIN args}

FieldDefsViol(S, fields) ==
  DupNames(fields, "DuplicateField") \cup ReservedIn(fields)
  \cup UNION {OutputPosViol(S, fields[i].type) \cup TDirs(S, fields[i].dirs, "FIELD_DEFINITION") \cup ArgDefsViol(S, fields[i].args)
              : i \in DOMAIN fields}

(* IsSubType / IsValidImplementationFieldType (spec 3.6 / 3.7) *)
IsSubTypeName(S, a, b) ==
  \/ a = b
  \/ HasType(S, a) /\ HasType(S, b) /\
     \/ KindOf(S, a) = "object" /\ KindOf(S, b) = "union" /\ a \in MembersOf(S, b)
     \/ KindOf(S, a) \in {"object", "interface"} /\ KindOf(S, b) = "interface" /\ b \in InterfacesOf(S, a)
RECURSIVE Covariant(_, _, _)
Covariant(S, ft, it) ==
  IF ft.k = "nn" THEN Covariant(S, ft.of, IF it.k = "nn" THEN it.of ELSE it)
  ELSE IF ft.k = "list" THEN (it.k = "list" /\ Covariant(S, ft.of, it.of))
  ELSE it.k = "named" /\ IsSubTypeName(S, ft.n, it.n)
RECURSIVE SameType(_, _)
SameType(a, b) == a.k = b.k /\ (IF a.k = "named" THEN a.n = b.n ELSE SameType(a.of, b.of))

FieldOf(fields, n) == fields[CHOOSE i \in DOMAIN fields : fields[i].name = n]
HasNamed(xs, n) == \E i \in DOMAIN xs : xs[i].name = n

(* type d (object or interface) declares that it implements interface idef *)
ImplViol(S, d, idef) ==
  UNION {IF \E j \in DOMAIN d.interfaces : d.interfaces[j].n = idef.interfaces[i].n THEN {}
         ELSE V("TransitiveInterface", idef.interfaces[i].n) : i \in DOMAIN idef.interfaces}
  \cup UNION {LET f == idef.fields[i] IN
              IF ~HasNamed(d.fields, f.name) THEN V("InterfaceFieldMissing", f.name)
              ELSE LET g == FieldOf(d.fields, f.name) IN
                   (IF HasType(S, Unwrap(g.type)) /\ HasType(S, Unwrap(f.type)) /\ ~Covariant(S, g.type, f.type)
                    THEN V("InterfaceFieldType", f.name) ELSE {})
                   \cup UNION {IF ~HasNamed(g.args, f.args[a].name) THEN V("InterfaceArgumentMissing", f.args[a].name)
                               ELSE IF SameType(FieldOf(g.args, f.args[a].name).type, f.args[a].type) THEN {}
                               ELSE V("InterfaceArgumentType", f.args[a].name) : a \in DOMAIN f.args}
                   \cup UNION {IF ~HasNamed(f.args, g.args[a].name) /\ g.args[a].type.k = "nn" /\ ~g.args[a].hasDefault
                               THEN V("InterfaceExtraRequiredArgument", g.args[a].name) ELSE {} : a \in DOMAIN g.args}
              : i \in DOMAIN idef.fields}

ImplementsViol(S, d) ==
  UNION {LET n == d.interfaces[i].n IN
         IF d.k = "interface" /\ n = d.name THEN V("ImplementsSelf", n)
         ELSE IF ~HasType(S, n) THEN V("UnknownType", n)
         ELSE IF KindOf(S, n) # "interface" THEN V("ImplementsNonInterface", n)
         ELSE ImplViol(S, d, TypeDef(S, n)) : i \in DOMAIN d.interfaces}

(* directive definitions: d references e if e is applied inside d's argument definitions, directly or through an *)
(* argument's (input) type: that type's own directives, its enum values', its input fields' and, transitively,   *)
(* the types of its input fields.                                                                                *)
DirNames(dirs) == {dirs[i].name : i \in DOMAIN dirs}
RECURSIVE InputTypeClosure(_, _)
InputTypeClosure(S, ns) ==
  LET nxt == ns \cup UNION {IF HasType(S, n) /\ KindOf(S, n) = "input"
                            THEN {Unwrap(TypeDef(S, n).inputFields[i].type) : i \in DOMAIN TypeDef(S, n).inputFields} ELSE {} : n \in ns}
  IN IF nxt = ns THEN ns ELSE InputTypeClosure(S, nxt)
DirsInType(S, n) ==
  IF ~HasType(S, n) THEN {}
  ELSE LET t == TypeDef(S, n) IN
       DirNames(t.dirs) \cup UNION {DirNames(t.values[i].dirs) : i \in DOMAIN t.values}
       \cup UNION {DirNames(t.inputFields[i].dirs) : i \in DOMAIN t.inputFields}
DirectRefs(S, dd, transitiveTypes) ==
  UNION {DirNames(dd.args[i].dirs)
         \cup UNION {DirsInType(S, n) : n \in IF transitiveTypes THEN InputTypeClosure(S, {Unwrap(dd.args[i].type)}) ELSE {Unwrap(dd.args[i].type)}}
         : i \in DOMAIN dd.args}
RECURSIVE DirReach(_, _, _)
DirReach(S, ns, tt) ==
  LET nxt == ns \cup UNION {IF HasDirective(S, n) THEN DirectRefs(S, DirectiveDef(S, n), tt) ELSE {} : n \in ns}
  IN IF nxt = ns THEN ns ELSE DirReach(S, nxt, tt)
(* tt = TRUE: the specification's reading (references through nested input types count) *)
RecursiveDirective(S, dd, tt) == dd.name \in DirReach(S, DirectRefs(S, dd, tt), tt)

DefViol(S, d) ==
  CASE d.k = "schema" -> TDirs(S, d.dirs, "SCHEMA")
    [] d.k = "directive" ->
         (IF Reserved(d.name) THEN V("ReservedName", d.name) ELSE {}) \cup ArgDefsViol(S, d.args)
         \cup (IF RecursiveDirective(S, d, TRUE) THEN V("RecursiveDirective", d.name) ELSE {})
    [] d.k = "scalar" -> TDirs(S, d.dirs, "SCALAR")
    [] d.k = "object" -> TDirs(S, d.dirs, "OBJECT") \cup FieldDefsViol(S, d.fields) \cup ImplementsViol(S, d)
    [] d.k = "interface" -> TDirs(S, d.dirs, "INTERFACE") \cup FieldDefsViol(S, d.fields) \cup ImplementsViol(S, d)
    [] d.k = "union" ->
         TDirs(S, d.dirs, "UNION") \cup DupRefs(d.members, "DuplicateUnionMember")
         \cup UNION {LET n == d.members[i].n IN
                     IF ~HasType(S, n) THEN V("UnknownType", n) ELSE IF KindOf(S, n) = "object" THEN {} ELSE V("NonObjectUnionMember", n)
                     : i \in DOMAIN d.members}
    [] d.k = "enum" ->
         TDirs(S, d.dirs, "ENUM") \cup DupNames(d.values, "DuplicateEnumValue") \cup ReservedIn(d.values)
         \cup UNION {TDirs(S, d.values[i].dirs, "ENUM_VALUE") : i \in DOMAIN d.values}
    [] d.k = "input" ->
         TDirs(S, d.dirs, "INPUT_OBJECT") \cup DupNames(d.inputFields, "DuplicateInputField") \cup ReservedIn(d.inputFields)
         \cup UNION {InputPosViol(S, d.inputFields[i].type) \cup TDirs(S, d.inputFields[i].dirs, "INPUT_FIELD_DEFINITION")
                     : i \in DOMAIN d.inputFields}

TSViolationsMerged(S) ==
  UNION {DefViol(S, S[i]) \cup (IF S[i].k \in TypeKinds /\ Reserved(S[i].name) THEN V("ReservedName", S[i].name) ELSE {}) : i \in DOMAIN S}

(* directive applications that extensions put on a built-in scalar: judged on the concatenation of all its extensions, at location SCALAR *)
BuiltinExtViol(S, items) ==
  UNION {LET exts == SelectSeq(items, LAMBDA d : IsBuiltinScalarExt(d) /\ d.name = n)
         IN IF exts = <<>> THEN {} ELSE TDirs(S, Cat(exts, "dirs"), "SCALAR") : n \in BuiltinScalarNames}
TSViolations(items) ==
  LET mv == MergeViol(items) IN
  IF mv # {} THEN mv ELSE LET S == MergeItems(items) IN TSViolationsMerged(S) \cup BuiltinExtViol(S, items) \cup NameViol(items)
=============================================================================
