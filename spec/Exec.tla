-------------------------------- MODULE Exec --------------------------------
(***************************************************************************)
(* GraphQL execution on the finite abstract value domain (October 2021     *)
(* specification, section 6.3/6.4): CollectFields with @skip/@include      *)
(* under a Boolean assignment sigma and DoesFragmentTypeApply, grouping by *)
(* response key with merged sub-selections, CompleteValue.                 *)
(*                                                                         *)
(*  Responses  (C01): every data object a conformant server can return     *)
(*             for a selection set evaluated on runtime object type tau    *)
(*             under ONE sigma for the whole operation.                    *)
(*  RefLocal   (C02): the same construction with an independent choice of  *)
(*             (tau, sigma') at every selection set.                       *)
(*                                                                         *)
(* Abstract data choices: a nullable position is null or not; a list has   *)
(* length 0 or 1; a leaf takes each inhabitant of its configured           *)
(* OperationOutput TypeScript type / each enum value; an abstract position *)
(* takes every possible object type.                                       *)
(***************************************************************************)
EXTENDS SchemaDecl, FiniteSetsExt

(* ------------------------------------------------- directives under sigma *)
ArgNamed(args, n) == args[CHOOSE i \in DOMAIN args : args[i].name = n].v
HasArgNamed(args, n) == \E i \in DOMAIN args : args[i].name = n
BoolOf(v, sigma) == IF v.k = "bool" THEN v.v ELSE IF v.k = "var" /\ v.n \in DOMAIN sigma THEN sigma[v.n] ELSE FALSE
Included(dirs, sigma) ==
  \A i \in DOMAIN dirs :
     /\ (dirs[i].name = "skip" /\ HasArgNamed(dirs[i].args, "if")) => ~BoolOf(ArgNamed(dirs[i].args, "if"), sigma)
     /\ (dirs[i].name = "include" /\ HasArgNamed(dirs[i].args, "if")) => BoolOf(ArgNamed(dirs[i].args, "if"), sigma)

(* the Boolean variables that steer @skip / @include anywhere below a selection set (through fragments too) *)
CondVarsOfDirs(dirs) == {ArgNamed(dirs[i].args, "if").n : i \in {j \in DOMAIN dirs : dirs[j].name \in {"skip", "include"} /\ HasArgNamed(dirs[j].args, "if")
                                                                   /\ ArgNamed(dirs[j].args, "if").k = "var"}}
RECURSIVE CondVars(_, _, _)
CondVars(frs, sel, vis) ==
  UNION {CondVarsOfDirs(sel[i].dirs) \cup
         (CASE sel[i].k = "field" -> IF sel[i].hasSel THEN CondVars(frs, sel[i].sel, vis) ELSE {}
            [] sel[i].k = "spread" -> IF sel[i].name \in DOMAIN frs /\ sel[i].name \notin vis THEN CondVars(frs, frs[sel[i].name].sel, vis \cup {sel[i].name}) ELSE {}
            [] sel[i].k = "inline" -> CondVars(frs, sel[i].sel, vis))
         : i \in DOMAIN sel}
Assignments(vars) == [vars -> BOOLEAN]

(* --------------------------------------------------------- CollectFields *)
TypeApplies(S, tau, cond) == tau \in PossibleTypes(S, cond)
RECURSIVE Flat(_, _, _, _, _, _)
Flat(S, frs, tau, sel, sigma, vis) ==
  LET RECURSIVE Go(_)
      Go(i) == IF i > Len(sel) THEN <<>>
               ELSE (IF ~Included(sel[i].dirs, sigma) THEN <<>>
                     ELSE CASE sel[i].k = "field" -> <<sel[i]>>
                            [] sel[i].k = "spread" ->
                                 IF sel[i].name \in DOMAIN frs /\ sel[i].name \notin vis /\ TypeApplies(S, tau, frs[sel[i].name].on)
                                 THEN Flat(S, frs, tau, frs[sel[i].name].sel, sigma, vis \cup {sel[i].name}) ELSE <<>>
                            [] sel[i].k = "inline" ->
                                 IF ~sel[i].hasOn \/ TypeApplies(S, tau, sel[i].on) THEN Flat(S, frs, tau, sel[i].sel, sigma, vis) ELSE <<>>)
                    \o Go(i + 1)
  IN Go(1)
RespKey(f) == IF f.hasAlias THEN f.alias ELSE f.name
KeysOf(flat) == {RespKey(flat[i]) : i \in DOMAIN flat}
NodesFor(flat, key) == SelectSeq(flat, LAMBDA f : RespKey(f) = key)
RECURSIVE MergedSel(_)
MergedSel(nodes) == IF nodes = <<>> THEN <<>> ELSE (IF Head(nodes).hasSel THEN Head(nodes).sel ELSE <<>>) \o MergedSel(Tail(nodes))

(* ------------------------------------------------------------ leaf values *)
RECURSIVE Inhabitants(_)
Inhabitants(t) ==
  CASE t.k = "kw" -> (CASE t.n = "string" -> {VStr("$s")} [] t.n = "number" -> {VNum} [] t.n = "boolean" -> {VBool} [] t.n = "null" -> {VNull}
                        [] t.n \in {"undefined", "void"} -> {VUndef} [] t.n = "never" -> {} [] t.n \in {"unknown", "any"} -> {VGlob("unknown")}
                        [] OTHER -> {VGlob(t.n)})
    [] t.k = "lit" -> {VStr(t.s)}
    [] t.k = "litnum" -> {VNum}
    [] t.k = "litbool" -> {VBool}
    [] t.k = "array" -> {VList(<<>>)} \cup {VList(<<x>>) : x \in Inhabitants(t.of)}
    [] t.k = "union" -> UNION {Inhabitants(t.ts[i]) : i \in DOMAIN t.ts}
    [] t.k = "ref" -> {VGlob(t.path[1])}
    [] t.k = "raw" -> {VRaw(t.tokens)}
    [] OTHER -> {VGlob("opaque")}
LeafVals(S, cfg, n) ==
  IF KindOf(S, n) = "enum" THEN {VStr(x) : x \in EnumValueNames(S, n)}
  ELSE IF ScalarKnown(cfg, n) THEN Inhabitants(ScalarTsFor(cfg, "OperationOutput", n)) ELSE {}

(* ------------------------------------------------------------- execution *)
(* product of value sets: all records f with f[key] \in vs[key] *)
RECURSIVE Product(_, _)
Product(keys, vs) ==
  IF keys = {} THEN {<<>>}
  ELSE LET k == CHOOSE x \in keys : TRUE
           rest == Product(keys \ {k}, vs)
       IN {(k :> x) @@ r : x \in vs[k], r \in rest}

(* local = FALSE: one sigma throughout (Responses); local = TRUE: sigma re-chosen over BV at every selection set (RefLocal) *)
RECURSIVE ExecSel(_, _, _, _, _, _, _, _), Complete(_, _, _, _, _, _, _, _)
ExecSelUnder(S, cfg, frs, tau, sel, sigma, local, BV) ==
  LET flat == Flat(S, frs, tau, sel, sigma, {})
      keys == KeysOf(flat)
      vs == [key \in keys |->
               LET nodes == NodesFor(flat, key) f == nodes[1] IN
               IF f.name = "__typename" THEN {VStr(tau)}
               ELSE IF f.name \notin FieldNames(S, tau) THEN {}
               ELSE Complete(S, cfg, frs, FieldDef(S, tau, f.name).type, MergedSel(nodes), sigma, local, BV)]
  IN {VRec(r) : r \in Product(keys, vs)}
ExecSel(S, cfg, frs, tau, sel, sigma, local, BV) ==
  IF local THEN UNION {ExecSelUnder(S, cfg, frs, tau, sel, s2, local, BV) : s2 \in Assignments(BV)}
  ELSE ExecSelUnder(S, cfg, frs, tau, sel, sigma, local, BV)
Complete(S, cfg, frs, ty, subsel, sigma, local, BV) ==
  IF ty.k = "nn" THEN Complete(S, cfg, frs, ty.of, subsel, sigma, local, BV) \ {VNull}
  ELSE {VNull} \cup
       (IF ty.k = "list" THEN {VList(<<>>)} \cup {VList(<<x>>) : x \in Complete(S, cfg, frs, ty.of, subsel, sigma, local, BV)}
        ELSE IF ~HasType(S, ty.n) THEN {}
        ELSE IF IsLeafType(S, ty.n) THEN LeafVals(S, cfg, ty.n)
        ELSE UNION {ExecSel(S, cfg, frs, tau, subsel, sigma, local, BV) : tau \in PossibleTypes(S, ty.n)})

(* size estimate of the above without building it (to discard cases beyond the bound) *)
RECURSIVE SizeSel(_, _, _, _, _, _, _, _), SizeComplete(_, _, _, _, _, _, _, _)
RECURSIVE ProdN(_, _)
ProdN(keys, n) == IF keys = {} THEN 1 ELSE LET k == CHOOSE x \in keys : TRUE IN n[k] * ProdN(keys \ {k}, n)
SumN(set, n(_)) == MapThenSumSet(n, set)
SizeSelUnder(S, cfg, frs, tau, sel, sigma, local, BV) ==
  LET flat == Flat(S, frs, tau, sel, sigma, {})
      keys == KeysOf(flat)
      n == [key \in keys |->
               LET nodes == NodesFor(flat, key) f == nodes[1] IN
               IF f.name = "__typename" THEN 1
               ELSE IF f.name \notin FieldNames(S, tau) THEN 0
               ELSE SizeComplete(S, cfg, frs, FieldDef(S, tau, f.name).type, MergedSel(nodes), sigma, local, BV)]
  IN ProdN(keys, n)
SizeSel(S, cfg, frs, tau, sel, sigma, local, BV) ==
  IF local THEN SumN(Assignments(BV), LAMBDA s2 : SizeSelUnder(S, cfg, frs, tau, sel, s2, local, BV))
  ELSE SizeSelUnder(S, cfg, frs, tau, sel, sigma, local, BV)
SizeComplete(S, cfg, frs, ty, subsel, sigma, local, BV) ==
  IF ty.k = "nn" THEN LET m == SizeComplete(S, cfg, frs, ty.of, subsel, sigma, local, BV) IN IF m > 0 THEN m - 1 ELSE 0
  ELSE 1 + (IF ty.k = "list" THEN 1 + SizeComplete(S, cfg, frs, ty.of, subsel, sigma, local, BV)
            ELSE IF ~HasType(S, ty.n) THEN 0
            ELSE IF IsLeafType(S, ty.n) THEN Cardinality(LeafVals(S, cfg, ty.n))
            ELSE SumN(PossibleTypes(S, ty.n), LAMBDA tau : SizeSel(S, cfg, frs, tau, subsel, sigma, local, BV)))

(* ------------------------------------------- membership in RefLocal (C02) *)
RECURSIVE InSel(_, _, _, _, _, _, _), InComplete(_, _, _, _, _, _, _)
InSel(v, S, cfg, frs, taus, sel, BV) ==
  /\ v.k = "rec"
  /\ \E tau \in taus, sigma \in Assignments(BV) :
        LET flat == Flat(S, frs, tau, sel, sigma, {})
            keys == KeysOf(flat)
        IN /\ \A key \in DOMAIN v.f \ keys : v.f[key].k = "undef"
           /\ \A key \in keys :
                LET nodes == NodesFor(flat, key) f == nodes[1] x == Read(v, key) IN
                IF f.name = "__typename" THEN x.k = "str" /\ x.s = tau
                ELSE f.name \in FieldNames(S, tau) /\ InComplete(x, S, cfg, frs, FieldDef(S, tau, f.name).type, MergedSel(nodes), BV)
InComplete(x, S, cfg, frs, ty, subsel, BV) ==
  IF ty.k = "nn" THEN x.k \notin {"null", "undef"} /\ InComplete(x, S, cfg, frs, ty.of, subsel, BV)
  ELSE IF x.k = "null" THEN TRUE
  ELSE IF x.k = "undef" THEN FALSE
  ELSE IF ty.k = "list" THEN x.k = "list" /\ \A i \in DOMAIN x.vs : InComplete(x.vs[i], S, cfg, frs, ty.of, subsel, BV)
  ELSE IF ~HasType(S, ty.n) THEN FALSE
  ELSE IF IsLeafType(S, ty.n) THEN InRefNamed(S, cfg, "OperationOutput", ty.n, x)     \* every value of the leaf type, not only the enumerated representatives
  ELSE InSel(x, S, cfg, frs, PossibleTypes(S, ty.n), subsel, BV)

(* ------------------------------------------------ one-position perturbations *)
AltAtoms(S) == {VNull, VUndef, VNum, VBool, VStr("$other"), VStr("$s"), VList(<<>>), VRec(<<>>)}
               \cup {VStr(x) : x \in ObjectNames(S)}
               \cup {VStr(x) : x \in UNION {EnumValueNames(S, n) : n \in {m \in TypeNames(S) : KindOf(S, m) = "enum"}}}
RECURSIVE Perturb(_, _)
Perturb(v, A) ==
  (A \cup {VList(<<v>>)})
  \cup (CASE v.k = "list" -> (IF Len(v.vs) = 1 THEN {v.vs[1]} \cup {VList(<<y>>) : y \in Perturb(v.vs[1], A)} ELSE {})
          [] v.k = "rec" -> UNION {{VRec([v.f EXCEPT ![key] = y]) : y \in Perturb(v.f[key], A)} : key \in DOMAIN v.f}
          [] OTHER -> {})
=============================================================================
