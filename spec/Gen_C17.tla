------------------------------ MODULE Gen_C17 ------------------------------
(* spec -> impl for C17 (order independence): every permutation of NBlocks  *)
(* blocks of schema definitions and every split of the permuted sequence    *)
(* over two files.                                                          *)
EXTENDS Naturals, Sequences, FiniteSets, TLC, Json
CONSTANTS NBlocks
VARIABLES perm, split
Perms == {p \in [1..NBlocks -> 1..NBlocks] : \A i, j \in 1..NBlocks : i # j => p[i] # p[j]}
Init == perm \in Perms /\ split \in 0..NBlocks
Next == UNCHANGED <<perm, split>>
Emit == PrintT(<<"CASE", ToJson([perm |-> perm, split |-> split])>>)
=============================================================================
