-------------------------- MODULE MappingWriterAlgo --------------------------
(***************************************************************************)
(* Design-level model of nitrogql's source-map writer                      *)
(* (crates/sourcemap-writer: SourceWriter + MappingWriter + NameMapper),   *)
(* the state machine behind property C06: the write cursor with deferred   *)
(* indentation, the six last_* fields the deltas are taken from, and the   *)
(* names table with a bounded LRU cache.                                   *)
(*                                                                         *)
(* The model is a transcription of the algorithm and is therefore NEVER    *)
(* used as a conformance oracle; TLC checks it against what the property   *)
(* needs: decoding the emitted delta stream (as SourceMap.tla decodes:     *)
(* generated column reset per line, the other fields carried) gives back   *)
(* exactly the absolute entries that were added, in order, and every       *)
(* opening entry of a named node sits where its chunk starts in the text.  *)
(* The same module generates call sequences that are replayed into the     *)
(* real SourceWriter (harness `srcwriter`) and judged by Trace_C06.        *)
(*                                                                         *)
(* Text is abstracted to line lengths; a chunk is a non-empty sequence of  *)
(* piece lengths (the pieces between its newlines).                        *)
(***************************************************************************)
EXTENDS Naturals, Integers, Sequences, FiniteSets, TLC

CONSTANTS Chunks,       \* set of chunks (sequences of piece lengths)
          Nodes,        \* set of [file, line, col, name (a string, "" = none), builtin]
          MaxCalls, CacheSize

VARIABLES lines,        \* generated text: sequence of line lengths (UTF-16), last = current line
          indent, pending,                      \* indent width; indentation owed at the next non-empty piece
          buf,          \* the mappings stream: sequence of tokens <<"semi">> | <<"comma">> | <<"num", n>>
          lastGL, lastGC, lastOL, lastOC, lastName, lastFile,
          names, cache, \* all_list; LRU cache as a sequence of <<name, index>>, most recent last
          entries,      \* history: absolute entries in the order added
          calls         \* history: the calls made (what the generator prints)
vars == <<lines, indent, pending, buf, lastGL, lastGC, lastOL, lastOC, lastName, lastFile, names, cache, entries, calls>>

CurLine == Len(lines) - 1
CurCol == lines[Len(lines)]

(* --- SourceWriter.write --------------------------------------------------- *)
RECURSIVE WritePieces(_, _, _, _)
WritePieces(ls, pend, ind, pieces) ==       \* returns <<lines', pending'>>
  IF pieces = <<>> THEN <<ls, pend>>
  ELSE LET p == Head(pieces)
           flushed == IF p > 0 /\ pend THEN [ls EXCEPT ![Len(ls)] = @ + ind] ELSE ls
           put == [flushed EXCEPT ![Len(flushed)] = @ + p]
           pend2 == IF p > 0 THEN FALSE ELSE pend
       IN IF Tail(pieces) = <<>> THEN <<put, pend2>>
          ELSE WritePieces(Append(put, 0), TRUE, ind, Tail(pieces))

(* --- MappingWriter.add_entry ---------------------------------------------- *)
Semis(n) == [i \in 1..n |-> <<"semi">>]
AddEntry(b, st, gl, gc, ol, oc, file, nameIdx) ==   \* st: record of last_*; nameIdx = -1 for none; returns <<buf', st'>>
  LET newline == st.gl # gl
      head == Semis(gl - st.gl) \o (IF newline THEN <<<<"num", gc>>>> ELSE <<<<"comma">>, <<"num", gc - st.gc>>>>)
      body == <<<<"num", file - st.file>>, <<"num", ol - st.ol>>, <<"num", oc - st.oc>>>>
      nm == IF nameIdx >= 0 THEN <<<<"num", nameIdx - st.name>>>> ELSE <<>>
  IN <<b \o head \o body \o nm,
       [gl |-> gl, gc |-> gc, ol |-> ol, oc |-> oc, file |-> file, name |-> IF nameIdx >= 0 THEN nameIdx ELSE st.name]>>

(* --- NameMapper.map_name (LRU of CacheSize) -------------------------------- *)
CacheHas(c, n) == \E i \in DOMAIN c : c[i][1] = n
CacheIdx(c, n) == c[CHOOSE i \in DOMAIN c : c[i][1] = n][2]
Touch(c, n) == SelectSeq(c, LAMBDA x : x[1] # n) \o <<<<n, CacheIdx(c, n)>>>>
Put(c, n, idx) == LET c2 == Append(c, <<n, idx>>) IN IF Len(c2) > CacheSize THEN Tail(c2) ELSE c2

St == [gl |-> lastGL, gc |-> lastGC, ol |-> lastOL, oc |-> lastOC, file |-> lastFile, name |-> lastName]
SetSt(st) == /\ lastGL' = st.gl /\ lastGC' = st.gc /\ lastOL' = st.ol /\ lastOC' = st.oc /\ lastFile' = st.file /\ lastName' = st.name

Write(chunk) ==
  /\ LET r == WritePieces(lines, pending, indent, chunk) IN lines' = r[1] /\ pending' = r[2]
  /\ calls' = Append(calls, [op |-> "write", chunk |-> chunk])
  /\ UNCHANGED <<indent, buf, lastGL, lastGC, lastOL, lastOC, lastName, lastFile, names, cache, entries>>

WriteFor(chunk, node) ==
  /\ calls' = Append(calls, [op |-> "write_for", chunk |-> chunk, node |-> node])
  /\ UNCHANGED indent
  /\ IF node.builtin
     THEN /\ LET r == WritePieces(lines, pending, indent, chunk) IN lines' = r[1] /\ pending' = r[2]
          /\ UNCHANGED <<buf, lastGL, lastGC, lastOL, lastOC, lastName, lastFile, names, cache, entries>>
     ELSE IF node.name # ""
     THEN LET hit == CacheHas(cache, node.name)
              idx == IF hit THEN CacheIdx(cache, node.name) ELSE Len(names)
              (* the pending indentation is flushed before the opening entry *)
              flushed == IF pending THEN [lines EXCEPT ![Len(lines)] = @ + indent] ELSE lines
              gl1 == Len(flushed) - 1 gc1 == flushed[Len(flushed)]
              e1 == AddEntry(buf, St, gl1, gc1, node.line, node.col, node.file, idx)
              w == WritePieces(flushed, FALSE, indent, chunk)
              gl2 == Len(w[1]) - 1 gc2 == w[1][Len(w[1])]
              e2 == AddEntry(e1[1], e1[2], gl2, gc2, node.line, node.col + Len(node.name), node.file, -1)
          IN /\ names' = IF hit THEN names ELSE Append(names, node.name)
             /\ cache' = IF hit THEN Touch(cache, node.name) ELSE Put(cache, node.name, idx)
             /\ lines' = w[1] /\ pending' = w[2]
             /\ buf' = e2[1] /\ SetSt(e2[2])
             /\ entries' = entries \o <<[gl |-> gl1, gc |-> gc1, file |-> node.file, ol |-> node.line, oc |-> node.col, name |-> node.name, chunkStart |-> <<gl1, gc1>>],
                                        [gl |-> gl2, gc |-> gc2, file |-> node.file, ol |-> node.line, oc |-> node.col + Len(node.name), name |-> "", chunkStart |-> <<gl2, gc2>>]>>
     ELSE (* a node without a name: the entry is added BEFORE the pending indentation is flushed *)
          LET e1 == AddEntry(buf, St, CurLine, CurCol, node.line, node.col, node.file, -1)
              w == WritePieces(lines, pending, indent, chunk)
              startCol == IF pending /\ Head(chunk) > 0 THEN CurCol + indent ELSE CurCol
          IN /\ lines' = w[1] /\ pending' = w[2] /\ buf' = e1[1] /\ SetSt(e1[2])
             /\ entries' = Append(entries, [gl |-> CurLine, gc |-> CurCol, file |-> node.file, ol |-> node.line, oc |-> node.col, name |-> "", chunkStart |-> <<CurLine, startCol>>])
             /\ UNCHANGED <<names, cache>>

Indent == /\ indent' = indent + 2 /\ calls' = Append(calls, [op |-> "indent"])
          /\ UNCHANGED <<lines, pending, buf, lastGL, lastGC, lastOL, lastOC, lastName, lastFile, names, cache, entries>>
Dedent == /\ indent' = (IF indent >= 2 THEN indent - 2 ELSE 0) /\ calls' = Append(calls, [op |-> "dedent"])
          /\ UNCHANGED <<lines, pending, buf, lastGL, lastGC, lastOL, lastOC, lastName, lastFile, names, cache, entries>>

Init == /\ lines = <<0>> /\ indent = 0 /\ pending = FALSE /\ buf = <<>>
        /\ lastGL = 0 /\ lastGC = 0 /\ lastOL = 0 /\ lastOC = 0 /\ lastName = 0 /\ lastFile = 0
        /\ names = <<>> /\ cache = <<>> /\ entries = <<>> /\ calls = <<>>
Next == /\ Len(calls) < MaxCalls
        /\ \/ \E c \in Chunks : Write(c)
           \/ \E c \in Chunks, n \in Nodes : WriteFor(c, n)
           \/ Indent \/ Dedent

(* ------------------------------------------------------------ decoding *)
(* split the token stream into lines and segments as a Source Map v3 consumer does *)
RECURSIVE Split(_, _, _, _)
Split(ts, curSeg, curLine, out) ==       \* out: sequence of lines; a line: sequence of segments; a segment: sequence of numbers
  IF ts = <<>> THEN Append(out, Append(curLine, curSeg))
  ELSE LET t == Head(ts) IN
       IF t[1] = "num" THEN Split(Tail(ts), Append(curSeg, t[2]), curLine, out)
       ELSE IF t[1] = "comma" THEN Split(Tail(ts), <<>>, Append(curLine, curSeg), out)
       ELSE Split(Tail(ts), <<>>, <<>>, Append(out, Append(curLine, curSeg)))
RawLines == IF buf = <<>> THEN <<>> ELSE Split(buf, <<>>, <<>>, <<>>)
(* a line that holds only one empty segment is an empty line (";;"); any other empty segment is malformed *)
WellFormed == \A g \in DOMAIN RawLines : RawLines[g] = <<<<>>>> \/ \A k \in DOMAIN RawLines[g] : Len(RawLines[g][k]) \in {4, 5}
RECURSIVE DecLine(_, _, _, _, _)
DecLine(segs, k, gc, st, out) ==
  IF k > Len(segs) THEN <<out, st>>
  ELSE LET s == segs[k]
           gc2 == gc + s[1]
           st2 == [file |-> st.file + s[2], ol |-> st.ol + s[3], oc |-> st.oc + s[4], name |-> IF Len(s) = 5 THEN st.name + s[5] ELSE st.name]
       IN DecLine(segs, k + 1, gc2, st2, Append(out, [gc |-> gc2, file |-> st2.file, ol |-> st2.ol, oc |-> st2.oc, named |-> Len(s) = 5, nameIdx |-> st2.name]))
RECURSIVE DecAll(_, _, _, _)
DecAll(ls, g, st, out) ==
  IF g > Len(ls) THEN out
  ELSE IF ls[g] = <<<<>>>> THEN DecAll(ls, g + 1, st, out)
  ELSE LET r == DecLine(ls[g], 1, 0, st, <<>>) IN
       DecAll(ls, g + 1, r[2], out \o [i \in DOMAIN r[1] |-> [gl |-> g - 1] @@ r[1][i]])
Decoded == DecAll(RawLines, 1, [file |-> 0, ol |-> 0, oc |-> 0, name |-> 0], <<>>)

(* ------------------------------------------------------------ properties *)
(* the very first entry being on generated line 0 makes the stream start with a comma (an empty first segment): the emitted files *)
(* always begin with an unmapped line, so this is outside what `generate` can produce; the precondition is stated, not hidden     *)
FirstEntryNotOnLine0 == entries = <<>> \/ entries[1].gl > 0
DecodesToEntries ==
  FirstEntryNotOnLine0 =>
    /\ WellFormed
    /\ Len(Decoded) = Len(entries)
    /\ \A i \in DOMAIN entries :
          /\ Decoded[i].gl = entries[i].gl /\ Decoded[i].gc = entries[i].gc /\ Decoded[i].file = entries[i].file
          /\ Decoded[i].ol = entries[i].ol /\ Decoded[i].oc = entries[i].oc
          /\ Decoded[i].named = (entries[i].name # "")
          /\ (entries[i].name # "" => names[Decoded[i].nameIdx + 1] = entries[i].name)
InsideText == \A i \in DOMAIN entries : entries[i].gl + 1 \in DOMAIN lines /\ entries[i].gc <= lines[entries[i].gl + 1]
NamedAtChunkStart == \A i \in DOMAIN entries : entries[i].name # "" => <<entries[i].gl, entries[i].gc>> = entries[i].chunkStart
(* documented deviation, found by this model: an entry for a node WITHOUT a name that starts an indented line is recorded before *)
(* the indentation, i.e. at column 0 rather than at its chunk; TLC refutes AllAtChunkStart and confirms the weaker statement      *)
AllAtChunkStart == \A i \in DOMAIN entries : <<entries[i].gl, entries[i].gc>> = entries[i].chunkStart
NotAfterChunkStart == \A i \in DOMAIN entries : entries[i].gl = entries[i].chunkStart[1] /\ entries[i].gc <= entries[i].chunkStart[2]
=============================================================================
