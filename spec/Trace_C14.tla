----------------------------- MODULE Trace_C14 -----------------------------
(* impl -> spec for C14: one event per (configuration, operation file).     *)
EXTENDS Exports, Json, IOUtils
Rec == ndJsonDeserialize(IOEnv.TRACE)
VARIABLE l
IsEvent(k) == l <= Len(Rec) /\ Rec[l].ev = k /\ l' = l + 1
Item(cls, what, e, more) == [cls |-> cls, what |-> what, l |-> l, cfg |-> e.cfg, shape |-> e.shape, detail |-> more]
Emit(its) == \A i \in DOMAIN its : PrintT(<<"ITEM", ToJson(its[i])>>)

TExports ==
  /\ IsEvent("Exports")
  /\ LET e == Rec[l] IN
     IF e.cli.panicked \/ e.cli.exit # 0 THEN Emit(<<Item("cli-failed", "generate failed on a valid project", e, e.dts)>>)
     ELSE IF e.dts.k # "ok" THEN Emit(<<Item("declaration-unreadable", "declaration file missing or not in the emitted TS subset", e, e.dts)>>)
     ELSE IF e.js.k # "ok" THEN Emit(<<Item("loader-failed", "loader failed on a valid file", e, e.js)>>)
     ELSE LET dec == IF e.map.k = "ok" THEN DecodeMappings(e.map.mappings) ELSE [ok |-> FALSE, lines |-> <<>>, why |-> "no map"]
              map == IF e.map.k = "ok" THEN e.map ELSE [sources |-> <<>>]
              r == ExportItems(e.dts.ast, dec, map, e.declPath, e.sources, e.js)
          IN /\ Emit(
                (IF r.notExported = {} THEN <<>> ELSE <<Item("not-exported", "declared value export is not exported by the loader module", e, r.notExported)>>)
                \o (IF r.wrongDoc = {} THEN <<>> ELSE <<Item("wrong-document", "export carries the document of a different definition", e, r.wrongDoc)>>)
                \o (IF ~r.defaultMissing THEN <<>> ELSE <<Item("default-missing", "declaration has a default export, the loader module has none", e, DtsDefaults(e.dts.ast))>>)
                \o (IF r.defaultWrong = {} THEN <<>> ELSE <<Item("default-wrong", "default exports denote different operations", e, r.defaultWrong)>>))
             /\ PrintT(<<"STAT", ToJson([l |-> l, exports |-> Cardinality(DtsValueExports(e.dts.ast)),
                                          defaults |-> Cardinality(DtsDefaults(e.dts.ast)),
                                          undetermined |-> Cardinality(r.undetermined)])>>)

Init == l = 1
Next == TExports
Spec == Init /\ [][Next]_l
Done == PrintT(<<"DONE", ToJson([consumed |-> TLCGet("stats").diameter - 1])>>)
=============================================================================
