CONSTANTS
  MaxNodes = 3
  Conds = {"none", "skipA", "includeA"}
  Aliases = {"", "x"}
INIT Init
NEXT Next
INVARIANT Emit
CHECK_DEADLOCK FALSE
