------------------------------ MODULE Gen_X03 ------------------------------
(* spec -> impl for Naming: every combination of the type-name options and *)
(* the export options (each unset or set), one CASE per configuration.     *)
EXTENDS Naming, TLC, Json
VARIABLES cap, rs, vs, fs, qs, xr, xv, xd
Init == /\ cap \in {"unset", "true", "false"} /\ rs \in {"unset", "Data", "Result"} /\ vs \in {"unset", "Vars"}
        /\ fs \in {"unset", "Fragment", ""} /\ qs \in {"unset", "Doc"}
        /\ xr \in {"unset", "true", "false"} /\ xv \in {"unset", "true"} /\ xd \in {"unset", "false"}
Next == UNCHANGED <<cap, rs, vs, fs, qs, xr, xv, xd>>
Emit == PrintT(<<"CASE", ToJson([cap |-> cap, rs |-> rs, vs |-> vs, fs |-> fs, qs |-> qs, xr |-> xr, xv |-> xv, xd |-> xd])>>)
=============================================================================
