CONSTANTS
  MaxLen = 7
  MaxTasks = 2
  DoPrint = FALSE
INIT GInit
NEXT GNext
VIEW View
INVARIANT Inv
CHECK_DEADLOCK FALSE
