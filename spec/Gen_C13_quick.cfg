CONSTANTS
  MaxLines = 2
  Reduced = FALSE
INIT Init
NEXT Next
INVARIANT Emit
CHECK_DEADLOCK FALSE
