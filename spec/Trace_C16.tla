----------------------------- MODULE Trace_C16 -----------------------------
(***************************************************************************)
(* impl -> spec for C16.                                                   *)
(*  ServerSchema: the template literal exported by serverGraphqlOutput is  *)
(*    cooked (JsTemplate), lexed (Lexer) and cut into definitions; the set *)
(*    of definitions must be the checked schema after extension merging    *)
(*    (ExtMerge), optionally plus the built-in scalars and directives.     *)
(*  RoundTrip: print(parse(t)) lexes to the tokens of the document t       *)
(*    denotes, and parsing it again gives the same document.               *)
(***************************************************************************)
EXTENDS JsTemplate, Syntax, TLC, Json, IOUtils
EM == INSTANCE ExtMerge
Rec == ndJsonDeserialize(IOEnv.TRACE)
VARIABLE l
IsEvent(k) == l <= Len(Rec) /\ Rec[l].ev = k /\ l' = l + 1
TabOf(e) == [s \in {e.cptab[i].s : i \in DOMAIN e.cptab} |-> e.cptab[CHOOSE i \in DOMAIN e.cptab : e.cptab[i].s = s].cp]
Emit(its) == \A i \in DOMAIN its : PrintT(<<"ITEM", ToJson(its[i])>>)

IsStr(tk) == tk.k \in {"string", "block"}
(* lexed token -> the flattened-token form (text looked up backwards in the table) *)
TextIs(tk, s, tab) == ~IsStr(tk) /\ s \in DOMAIN tab /\ tk.text = tab[s]
TokMatches(tk, f, tab) == IF f.k = "s" THEN IsStr(tk) /\ tk.val = f.val ELSE TextIs(tk, f.s, tab)
SeqMatches(toks, flat, tab) == Len(toks) = Len(flat) /\ \A i \in DOMAIN toks : TokMatches(toks[i], flat[i], tab)

(* Relaxed comparison used ONLY to recognise the known finding "block strings are returned raw" (C07): the   *)
(* parser hands the printer the raw text of a block string, so what is printed denotes the right value only *)
(* after BlockStringValue().                                                                                  *)
SameUpToBlock(a, b) == a = b \/ BlockStringValue(a) = b \/ a = BlockStringValue(b) \/ BlockStringValue(a) = BlockStringValue(b)
TokMatchesR(tk, f, tab) == IF f.k = "s" THEN IsStr(tk) /\ SameUpToBlock(tk.val, f.val) ELSE TextIs(tk, f.s, tab)
SeqMatchesR(toks, flat, tab) == Len(toks) = Len(flat) /\ \A i \in DOMAIN toks : TokMatchesR(toks[i], flat[i], tab)
FlatSameUpToBlock(fa, fb) == Len(fa) = Len(fb) /\ \A i \in DOMAIN fa :
                               IF fa[i].k = "s" THEN fb[i].k = "s" /\ SameUpToBlock(fa[i].val, fb[i].val) ELSE fa[i] = fb[i]
HasQuote(flat) == \E i \in DOMAIN flat : flat[i].k = "s" /\ \E j \in DOMAIN flat[i].val : flat[i].val[j] = 34
HasBlockLike(flat) == \E i \in DOMAIN flat : flat[i].k = "s" /\ \E j \in DOMAIN flat[i].val : flat[i].val[j] \in {10, 13}
EmptyExtendUnion(doc) == \E i \in DOMAIN doc.defs : doc.defs[i].k = "union" /\ doc.defs[i].ext /\ doc.defs[i].members = <<>>

(* optional leading | and & carry no meaning: drop them on both sides *)
DropOptLex(toks, tab) ==
  SelectSeq([i \in DOMAIN toks |-> [t |-> toks[i], drop |->
              i > 1 /\ ((TextIs(toks[i], "|", tab) /\ (TextIs(toks[i - 1], "=", tab) \/ TextIs(toks[i - 1], "on", tab)))
                        \/ (TextIs(toks[i], "&", tab) /\ TextIs(toks[i - 1], "implements", tab)))]],
            LAMBDA x : ~x.drop)
LexNorm(toks, tab) == LET d == DropOptLex(toks, tab) IN [i \in DOMAIN d |-> d[i].t]

DefKeywords == {"schema", "scalar", "type", "interface", "union", "enum", "input", "directive", "extend"}
NotBefore == {"@", "=", "|", "&", "implements", "on", "extend", ":"}
IsKw(tk, tab) == \E s \in DefKeywords : TextIs(tk, s, tab)
PrevBlocks(tk, tab) == \E s \in NotBefore : TextIs(tk, s, tab)

(* indices at which a definition starts (its description, if any, included) *)
RECURSIVE Depths(_, _, _, _)
Depths(toks, i, d, acc) ==
  IF i > Len(toks) THEN acc
  ELSE LET t == toks[i]
           open == ~IsStr(t) /\ t.text \in {<<123>>, <<40>>, <<91>>}
           close == ~IsStr(t) /\ t.text \in {<<125>>, <<41>>, <<93>>}
       IN Depths(toks, i + 1, IF open THEN d + 1 ELSE IF close THEN d - 1 ELSE d, Append(acc, d))
DefStarts(toks, tab) ==
  LET dep == Depths(toks, 1, 0, <<>>)
      kw == {i \in DOMAIN toks : dep[i] = 0 /\ IsKw(toks[i], tab) /\ (i = 1 \/ ~PrevBlocks(toks[i - 1], tab))}
  IN {IF i > 1 /\ IsStr(toks[i - 1]) /\ dep[i - 1] = 0 THEN i - 1 ELSE i : i \in kw}
Segments(toks, tab) ==
  LET st == DefStarts(toks, tab)
      nextStart(i) == IF \E j \in st : j > i THEN CHOOSE j \in st : j > i /\ \A k \in st : k > i => j <= k ELSE Len(toks) + 1
  IN [i \in st |-> SubSeq(toks, i, nextStart(i) - 1)]

(* ---- expected schema --------------------------------------------------- *)
BI(name) == [k |-> "named", n |-> name]
NoD == [has |-> FALSE, cp |-> <<>>, block |-> FALSE]
BArg(name, ty, hasDef, def) == [name |-> name, desc |-> NoD, type |-> ty, hasDefault |-> hasDef, default |-> def, dirs |-> <<>>]
BDir(name, args, locs) == [k |-> "directive", name |-> name, desc |-> NoD, args |-> args, repeatable |-> FALSE,
                           locations |-> [i \in DOMAIN locs |-> [n |-> locs[i]]]]
BScalar(name) == [k |-> "scalar", ext |-> FALSE, name |-> name, desc |-> NoD, dirs |-> <<>>, interfaces |-> <<>>, fields |-> <<>>,
                  members |-> <<>>, values |-> <<>>, inputFields |-> <<>>]
NoLongerSupported == <<78,111,32,108,111,110,103,101,114,32,115,117,112,112,111,114,116,101,100>>
Builtins == {BScalar("Int"), BScalar("Float"), BScalar("String"), BScalar("Boolean"), BScalar("ID"),
             BDir("skip", <<BArg("if", [k |-> "nn", of |-> BI("Boolean")], FALSE, [k |-> "null"])>>, <<"FIELD", "FRAGMENT_SPREAD", "INLINE_FRAGMENT">>),
             BDir("include", <<BArg("if", [k |-> "nn", of |-> BI("Boolean")], FALSE, [k |-> "null"])>>, <<"FIELD", "FRAGMENT_SPREAD", "INLINE_FRAGMENT">>),
             BDir("deprecated", <<BArg("reason", BI("String"), TRUE, [k |-> "string", cp |-> NoLongerSupported])>>,
                  <<"FIELD_DEFINITION", "ARGUMENT_DEFINITION", "INPUT_FIELD_DEFINITION", "ENUM_VALUE">>),
             BDir("specifiedBy", <<BArg("url", [k |-> "nn", of |-> BI("String")], FALSE, [k |-> "null"])>>, <<"SCALAR">>)}

(* items for ExtMerge: the model's definitions with an id and a name for the schema *)
AsItems(defs) == [i \in DOMAIN defs |-> [x \in DOMAIN defs[i] \cup {"id", "name", "ext", "ops", "interfaces", "fields", "members", "values", "inputFields", "dirs"} |->
                    IF x = "id" THEN i
                    ELSE IF x = "name" THEN (IF defs[i].k = "schema" THEN "" ELSE defs[i].name)
                    ELSE IF x = "ext" THEN (defs[i].k # "directive" /\ defs[i].ext)
                    ELSE IF x \in DOMAIN defs[i] THEN defs[i][x] ELSE <<>>]]
StripNitro(dirs) == SelectSeq(dirs, LAMBDA d : d.name # "nitrogql_ts_type")
ExpectedDefs(defs) ==
  LET items == AsItems(defs) IN
  {LET o == EM!Origs(items, b)[1] m == EM!Merged(items, b) IN
     [k |-> o.k, ext |-> FALSE, name |-> o.name, desc |-> o.desc, dirs |-> StripNitro(m.dirs), interfaces |-> m.interfaces,
      fields |-> m.fields, members |-> m.members, values |-> m.values, inputFields |-> m.inputFields, ops |-> m.ops]
   : b \in EM!Buckets(items)}
  \cup {defs[i] : i \in {j \in DOMAIN defs : defs[j].k = "directive" /\ defs[j].name # "nitrogql_ts_type"}}

FlatNorm(def) == LET f == FTsDef(def) IN f      \* Flatten without hints never emits optional separators

KF(cls, what) == <<[cls |-> cls, what |-> what, l |-> l]>>
QuoteWhat == "a string containing a double quote is printed unescaped"
BlockWhat == "a block string (returned raw by the parser) is re-printed with different raw text / as an escaped string"

TServer ==
  /\ IsEvent("ServerSchema")
  /\ LET e == Rec[l] tab == TabOf(e)
         modelFlat == FlattenTsDoc(e.model)
     IN
     IF e.out.k # "ok" THEN Emit(<<[cls |-> "generate-failed", what |-> "generate failed on a valid schema", l |-> l, out |-> e.out]>>)
     ELSE LET ck == CookTemplate(e.out.body) IN
     IF ~ck.ok THEN Emit(<<[cls |-> "template", what |-> "exported template literal is not a plain template: " \o ck.why, l |-> l]>>)
     ELSE LET lx == Lex(ck.val) IN
     IF ~lx.ok THEN (IF HasQuote(modelFlat) THEN Emit(KF("unescaped-quote", QuoteWhat))
                     ELSE Emit(<<[cls |-> "sdl-does-not-lex", what |-> "evaluated server schema string is not lexically valid GraphQL", l |-> l,
                                  line |-> lx.errLine, col |-> lx.errCol, text |-> ck.val]>>))
     ELSE LET toks == LexNorm(lx.toks, tab)
              segs == Segments(toks, tab)
              exp == ExpectedDefs(e.model.defs)
              matches(sg, d) == SeqMatches(sg, FlatNorm(d), tab)
              matchesR(sg, d) == SeqMatchesR(sg, FlatNorm(d), tab)
              missing == {d \in exp : ~\E i \in DOMAIN segs : matches(segs[i], d)}
              extra == {i \in DOMAIN segs : ~\E d \in exp \cup Builtins : matches(segs[i], d)}
              dup == {d \in exp : Cardinality({i \in DOMAIN segs : matches(segs[i], d)}) > 1}
              missingR == {d \in missing : ~\E i \in DOMAIN segs : matchesR(segs[i], d)}
              extraR == {i \in extra : ~\E d \in exp \cup Builtins : matchesR(segs[i], d)}
          IN IF missing = {} /\ extra = {} /\ dup = {} THEN TRUE
             ELSE IF missingR = {} /\ extraR = {} /\ dup = {} THEN Emit(KF("block-raw-reprint", BlockWhat))
             ELSE IF HasQuote(modelFlat) THEN Emit(KF("unescaped-quote", QuoteWhat))
             ELSE Emit(
               SetToSeq({[cls |-> "schema-definition-lost", what |-> "a definition of the checked schema is missing from (or altered in) the server schema string",
                          l |-> l, def |-> [k |-> d.k, name |-> IF d.k = "schema" THEN "" ELSE d.name]] : d \in missing})
               \o SetToSeq({[cls |-> "schema-definition-invented", what |-> "the server schema string contains a definition the schema does not have",
                             l |-> l, tokens |-> [j \in DOMAIN segs[i] |-> segs[i][j].text]] : i \in extra})
               \o SetToSeq({[cls |-> "schema-definition-duplicated", what |-> "a definition appears twice", l |-> l, def |-> d.name] : d \in dup}))

Unhint(doc) == [defs |-> [i \in DOMAIN doc.defs |-> [x \in DOMAIN doc.defs[i] \ {"leadingAmp", "leadingPipe", "shorthand"} |-> doc.defs[i][x]]]]
NoImports(doc) == [defs |-> SelectSeq(doc.defs, LAMBDA d : d.k # "import")]

TRoundTrip ==
  /\ IsEvent("RoundTrip")
  /\ LET e == Rec[l] tab == TabOf(e) IN
     IF e.out.k = "parse-failed" THEN PrintT(<<"STAT", ToJson([discard |-> "source text did not parse", l |-> l])>>)
     ELSE IF e.out.k = "panic" THEN Emit(<<[cls |-> "panic", what |-> "printing panicked", l |-> l, msg |-> e.out.msg]>>)
     ELSE LET lx == Lex(e.out.printed)
              A == Unhint(NoImports(e.A))
              flat == IF e.kind = "op" THEN FlattenOpDoc(A) ELSE FlattenTsDoc(A)
              F(doc) == IF e.kind = "op" THEN FlattenOpDoc(NoImports(doc)) ELSE FlattenTsDoc(doc)
              bad(cls, what, more) == Emit(<<[cls |-> cls, what |-> what, l |-> l, printed |-> e.out.printed, detail |-> more]>>)
          IN IF ~lx.ok THEN (IF HasQuote(flat) THEN Emit(KF("unescaped-quote", QuoteWhat))
                             ELSE bad("printed-does-not-lex", "printed text is not lexically valid GraphQL", 0))
             ELSE IF ~SeqMatches(LexNorm(lx.toks, tab), flat, tab)
             THEN (IF SeqMatchesR(LexNorm(lx.toks, tab), flat, tab) /\ (HasBlockLike(flat) \/ e.hasBlock) THEN Emit(KF("block-raw-reprint", BlockWhat))
                   ELSE IF e.kind = "ts" /\ EmptyExtendUnion(e.A) THEN Emit(KF("dangling-equals", "'extend union U @d' without member types is printed with a dangling '='"))
                   ELSE IF HasQuote(flat) THEN Emit(KF("unescaped-quote", QuoteWhat))
                   ELSE bad("printed-differs", "printed text does not denote the parsed document", 0))
             ELSE IF e.out.reparsed.k # "ok"
             THEN (IF HasQuote(flat) THEN Emit(KF("unescaped-quote", QuoteWhat))
                   ELSE IF e.kind = "ts" /\ EmptyExtendUnion(e.A) THEN Emit(KF("dangling-equals", "'extend union U @d' without member types is printed with a dangling '='"))
                   ELSE bad("reparse-failed", "printed text does not parse", e.out.reparsed))
             ELSE IF (IF e.kind = "op" THEN NOpDoc(e.out.reparsed.doc) # NOpDoc(NoImports(e.out.parsed)) ELSE NTsDoc(e.out.reparsed.doc) # NTsDoc(e.out.parsed))
             THEN (IF FlatSameUpToBlock(F(e.out.reparsed.doc), F(e.out.parsed)) /\ (HasBlockLike(flat) \/ e.hasBlock) THEN Emit(KF("block-raw-reprint", BlockWhat))
                   ELSE bad("reparse-differs", "parse(print(parse t)) differs from parse t", 0))
             ELSE TRUE

Init == l = 1
Next == TServer \/ TRoundTrip
Spec == Init /\ [][Next]_l
Done == PrintT(<<"DONE", ToJson([consumed |-> TLCGet("stats").diameter - 1])>>)
=============================================================================
