----------------------------- MODULE Trace_C20 -----------------------------
(* impl -> spec: every recorded call of normalize_path / relative_path /   *)
(* resolve_relative_path (and every path-valued artefact of a project run) *)
(* is judged by the relation in Paths.tla.                                 *)
EXTENDS Imports, TLC, Json, IOUtils
Rec == ndJsonDeserialize(IOEnv.TRACE)
VARIABLE l
IsEvent(k) == l <= Len(Rec) /\ Rec[l].ev = k /\ l' = l + 1

Report(items) == \A i \in 1..Len(items) : PrintT(<<"ITEM", ToJson(items[i])>>)
Item(cls, what, e) == [cls |-> cls, what |-> what, l |-> l, event |-> e]

(* out: [abs: BOOLEAN, c: components] as split by the harness *)
TNorm == /\ IsEvent("Norm")
         /\ LET e == Rec[l] IN
            Report(IF ClimbsAboveRoot(e.p) THEN <<>>                       \* outside the domain
                   ELSE IF e.out.k = "panic" THEN <<Item("panic", "normalize_path panicked", e)>>
                   ELSE IF ~(e.out.abs /\ e.out.c = Normalize(e.p))
                        THEN <<Item("normalize", "normalize_path differs from the canonical form", e)>>
                   ELSE <<>>)

TResolve == /\ IsEvent("Resolve")
            /\ LET e == Rec[l] IN
               Report(IF ClimbsAboveRoot(Dir(e.a) \o e.r) THEN <<>>      \* outside the domain
                      ELSE IF e.out.k = "panic" THEN <<Item("panic", "resolve_relative_path panicked", e)>>
                      ELSE IF ~(e.out.abs /\ e.out.c = ResolveRef(e.a, e.r))
                           THEN <<Item("resolve", "resolve_relative_path differs from the reference", e)>>
                      ELSE <<>>)

(* Any spelling is accepted as long as it starts with ./ or ../ and      *)
(* resolves (by the REFERENCE resolution) to normalize(b).                *)
TRel == /\ IsEvent("Rel")
        /\ LET e == Rec[l] IN
           Report(IF ~PairInDomain(e.a, e.b) THEN <<>>
                  ELSE IF e.out.k = "panic" THEN <<Item("panic", "relative_path panicked", e)>>
                  ELSE IF e.out.abs THEN <<Item("relative-abs", "relative_path returned an absolute path", e)>>
                  ELSE IF ~StartsRelative(e.out.c)
                       THEN <<Item("relative-start", "relative path does not start with ./ or ../", e)>>
                  ELSE IF ResolveRef(e.a, e.out.c) # Normalize(e.b)
                       THEN <<Item("relative-inverse", "resolve(a, relative(a,b)) # normalize(b)", e)>>
                  ELSE <<>>)

(* A relative reference written into an artefact at location `at` must    *)
(* denote the file nitrogql meant (`target`): import specifiers, sources[]. *)
TRef == /\ IsEvent("Ref")
        /\ LET e == Rec[l] IN
           Report(IF e.rel.abs THEN <<Item("ref-abs", "artefact holds an absolute reference", e)>>
                  ELSE IF ResolveRef(e.at, e.rel.c) # Normalize(e.target)
                       THEN <<Item("ref-target", "reference in artefact does not resolve to the intended file", e)>>
                  ELSE <<>>)

(* The module specifier that a generated declaration file (at `at`) uses for the schema declaration file written at `target`:  *)
(* relative, and resolving to the target after the documented TypeScript -> JavaScript extension rewrite of its file name.   *)
EndsWith(n, suf) == Len(n) >= Len(suf) /\ SubSeq(n, Len(n) - Len(suf) + 1, Len(n)) = suf
Strip(n, suf) == SubSeq(n, 1, Len(n) - Len(suf))
JsNameOf(n) == IF EndsWith(n, ".d.ts") THEN Strip(n, ".d.ts") \o ".js"
               ELSE IF EndsWith(n, ".d.mts") THEN Strip(n, ".d.mts") \o ".mjs"
               ELSE IF EndsWith(n, ".d.cts") THEN Strip(n, ".d.cts") \o ".cjs"
               ELSE IF EndsWith(n, ".mts") THEN Strip(n, ".mts") \o ".mjs"
               ELSE IF EndsWith(n, ".cts") THEN Strip(n, ".cts") \o ".cjs"
               ELSE IF EndsWith(n, ".tsx") THEN Strip(n, ".tsx") \o ".js"
               ELSE IF EndsWith(n, ".ts") THEN Strip(n, ".ts") \o ".js"
               ELSE n
TSpecifier == /\ IsEvent("Specifier")
              /\ LET e == Rec[l]
                     want == Normalize(Front(e.target) \o <<JsNameOf(Last(e.target))>>)
                 IN Report(IF e.spec = <<>> THEN <<Item("specifier-missing", "the declaration file imports no schema module", e)>>
                           ELSE IF ~StartsRelative(e.spec) THEN <<Item("specifier-not-relative", "the schema module specifier does not start with ./ or ../", e)>>
                           ELSE IF ResolveRef(e.at, e.spec) # want
                                THEN <<Item("specifier-target", "the schema module specifier does not resolve to the schema declaration file (after the TS -> JS extension rewrite)", e)>>
                           ELSE <<>>)
(* every entry of a source map's `sources` denotes one of the project's input files *)
TSources == /\ IsEvent("Sources")
            /\ LET e == Rec[l]
                   bad == {i \in DOMAIN e.sources : ~\E j \in DOMAIN e.inputs : ResolveRef(e.at, e.sources[i]) = Normalize(e.inputs[j])}
               IN Report(IF bad = {} THEN <<>> ELSE <<Item("sources-target", "a `sources` entry does not resolve to an input file", e)>>)

(* the third consumer the property names: every `#import` target.  One resolution of a root operation file over files in several  *)
(* directories that use the SAME specifier text for different targets (and hidden / dotted directory names); the set of definitions   *)
(* (file, kind, name) of the result must be the closure in which each (importer, specifier) pair resolves by Paths!ResolveRef.         *)
ImpFilesOf(e) == [p \in {e.files[i].path : i \in DOMAIN e.files} |-> e.files[CHOOSE i \in DOMAIN e.files : e.files[i].path = p].d]
TImportTargets ==
  /\ IsEvent("ImportTargets")
  /\ LET e == Rec[l]
         files == ImpFilesOf(e)
         out == IF e.out.k = "ok" THEN [k |-> "ok", defs |-> [i \in DOMAIN e.out.defs |-> <<e.out.defs[i].file, e.out.defs[i].kind, e.out.defs[i].name>>]] ELSE [k |-> e.out.k]
     IN Report(IF ImportContract(files, e.root, out) THEN <<>>
               ELSE <<Item("import-target", "an #import does not resolve to the file its specifier names relative to the importing file", [files |-> e.files, root |-> e.root, out |-> e.out])>>)
Init == l = 1
Next == TNorm \/ TResolve \/ TRel \/ TRef \/ TSpecifier \/ TSources \/ TImportTargets
Spec == Init /\ [][Next]_l
Done == PrintT(<<"DONE", ToJson([consumed |-> TLCGet("stats").diameter - 1])>>)
=============================================================================
