----------------------------- MODULE Trace_C20 -----------------------------
(* impl -> spec: every recorded call of normalize_path / relative_path /   *)
(* resolve_relative_path (and every path-valued artefact of a project run) *)
(* is judged by the relation in Paths.tla.                                 *)
EXTENDS Paths, TLC, Json, IOUtils
Rec == ndJsonDeserialize(IOEnv.TRACE)
VARIABLE l
IsEvent(k) == l <= Len(Rec) /\ Rec[l].ev = k /\ l' = l + 1

Report(items) == \A i \in 1..Len(items) : PrintT(<<"ITEM", ToJson(items[i])>>)
Item(cls, what, e) == [cls |-> cls, what |-> what, l |-> l, event |-> e]

(* out: [abs: BOOLEAN, c: components] as split by the harness *)
TNorm == /\ IsEvent("Norm")
         /\ LET e == Rec[l] IN
            Report(IF ClimbsAboveRoot(e.p) THEN <<>>                       \* outside the domain
                   ELSE IF e.out.k = "panic" THEN <<Item("panic", "normalize_path panicked", e)>>
                   ELSE IF ~(e.out.abs /\ e.out.c = Normalize(e.p))
                        THEN <<Item("normalize", "normalize_path differs from the canonical form", e)>>
                   ELSE <<>>)

TResolve == /\ IsEvent("Resolve")
            /\ LET e == Rec[l] IN
               Report(IF ClimbsAboveRoot(Dir(e.a) \o e.r) THEN <<>>      \* outside the domain
                      ELSE IF e.out.k = "panic" THEN <<Item("panic", "resolve_relative_path panicked", e)>>
                      ELSE IF ~(e.out.abs /\ e.out.c = ResolveRef(e.a, e.r))
                           THEN <<Item("resolve", "resolve_relative_path differs from the reference", e)>>
                      ELSE <<>>)

(* Any spelling is accepted as long as it starts with ./ or ../ and      *)
(* resolves (by the REFERENCE resolution) to normalize(b).                *)
TRel == /\ IsEvent("Rel")
        /\ LET e == Rec[l] IN
           Report(IF ~PairInDomain(e.a, e.b) THEN <<>>
                  ELSE IF e.out.k = "panic" THEN <<Item("panic", "relative_path panicked", e)>>
                  ELSE IF e.out.abs THEN <<Item("relative-abs", "relative_path returned an absolute path", e)>>
                  ELSE IF ~StartsRelative(e.out.c)
                       THEN <<Item("relative-start", "relative path does not start with ./ or ../", e)>>
                  ELSE IF ResolveRef(e.a, e.out.c) # Normalize(e.b)
                       THEN <<Item("relative-inverse", "resolve(a, relative(a,b)) # normalize(b)", e)>>
                  ELSE <<>>)

(* A relative reference written into an artefact at location `at` must    *)
(* denote the file nitrogql meant (`target`): import specifiers, sources[]. *)
TRef == /\ IsEvent("Ref")
        /\ LET e == Rec[l] IN
           Report(IF e.rel.abs THEN <<Item("ref-abs", "artefact holds an absolute reference", e)>>
                  ELSE IF ResolveRef(e.at, e.rel.c) # Normalize(e.target)
                       THEN <<Item("ref-target", "reference in artefact does not resolve to the intended file", e)>>
                  ELSE <<>>)

Init == l = 1
Next == TNorm \/ TResolve \/ TRel \/ TRef
Spec == Init /\ [][Next]_l
Done == PrintT(<<"DONE", ToJson([consumed |-> TLCGet("stats").diameter - 1])>>)
=============================================================================
