CONSTANTS
  MaxNodes = 4
  Conds = {"none", "skipA", "includeB", "skipTrue"}
  Aliases = {"", "x"}
INIT Init
NEXT Next
INVARIANT Emit
CHECK_DEADLOCK FALSE
