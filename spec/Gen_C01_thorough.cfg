CONSTANTS
  MaxNodes = 3
  Conds = {"none", "skipA", "includeA", "includeB", "skipTrue", "includeAskipB"}
  Aliases = {"", "x"}
INIT Init
NEXT Next
INVARIANT Emit
CHECK_DEADLOCK FALSE
