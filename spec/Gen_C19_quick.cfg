CONSTANTS
  MaxLen = 4
  MaxTasks = 2
  DoPrint = TRUE
INIT GInit
NEXT GNext
VIEW View
INVARIANT Inv
CHECK_DEADLOCK FALSE
