----------------------------- MODULE JsTemplate -----------------------------
(***************************************************************************)
(* The cooked value (ECMAScript "TV") of the body of a JavaScript template *)
(* literal without substitutions, over code points (property C16).         *)
(***************************************************************************)
EXTENDS Lexer

BACKTICK == 96  DOLLAR == 36  LBRACE == 123

JsSimpleEscape(c) == CASE c = 110 -> 10 [] c = 114 -> 13 [] c = 116 -> 9 [] c = 98 -> 8 [] c = 102 -> 12 [] c = 118 -> 11
                       [] c = 48 -> 0 [] OTHER -> c            \* NonEscapeCharacter: itself (\\ \` \$ \{ \" \' ...)

(* [ok, val] ; not ok: an unescaped backtick or ${, or a malformed escape *)
RECURSIVE CookFrom(_, _, _)
CookFrom(s, i, acc) ==
  LET c == At(s, i) IN
  IF c = EOF THEN [ok |-> TRUE, val |-> acc, why |-> "ok"]
  ELSE IF c = BACKTICK THEN [ok |-> FALSE, val |-> acc, why |-> "unescaped backtick"]
  ELSE IF c = DOLLAR /\ At(s, i + 1) = LBRACE THEN [ok |-> FALSE, val |-> acc, why |-> "unescaped ${"]
  ELSE IF c = CR THEN CookFrom(s, IF At(s, i + 1) = LF THEN i + 2 ELSE i + 1, Append(acc, LF))   \* CR LF and CR cook to LF
  ELSE IF c # BSL THEN CookFrom(s, i + 1, Append(acc, c))
  ELSE LET d == At(s, i + 1) IN
       IF d = EOF THEN [ok |-> FALSE, val |-> acc, why |-> "dangling backslash"]
       ELSE IF d = LF THEN CookFrom(s, i + 2, acc)                                  \* line continuation
       ELSE IF d = CR THEN CookFrom(s, IF At(s, i + 2) = LF THEN i + 3 ELSE i + 2, acc)
       ELSE IF d = 120 THEN                                                         \* \xHH
            IF IsHex(At(s, i + 2)) /\ IsHex(At(s, i + 3))
            THEN CookFrom(s, i + 4, Append(acc, HexVal(At(s, i + 2)) * 16 + HexVal(At(s, i + 3))))
            ELSE [ok |-> FALSE, val |-> acc, why |-> "bad \\x escape"]
       ELSE IF d = 117 THEN                                                         \* \uHHHH or \u{...}
            IF At(s, i + 2) = LBRACE
            THEN LET h == HexBraced(s, i + 3, 0, 0) IN
                 IF h.v < 0 \/ h.v > 1114111 THEN [ok |-> FALSE, val |-> acc, why |-> "bad \\u{} escape"]
                 ELSE CookFrom(s, h.end, Append(acc, h.v))
            ELSE LET v == Hex4(s, i + 2) IN
                 IF v < 0 THEN [ok |-> FALSE, val |-> acc, why |-> "bad \\u escape"]
                 ELSE CookFrom(s, i + 6, Append(acc, v))
       ELSE IF IsDigit(d) /\ d # 48 THEN [ok |-> FALSE, val |-> acc, why |-> "octal escape"]
       ELSE IF d = 48 /\ IsDigit(At(s, i + 2)) THEN [ok |-> FALSE, val |-> acc, why |-> "octal escape"]
       ELSE CookFrom(s, i + 2, Append(acc, JsSimpleEscape(d)))

CookTemplate(body) == CookFrom(body, 1, <<>>)
=============================================================================
