------------------------------ MODULE Gen_X02 ------------------------------
EXTENDS SchemaSources, TLC, Json, SequencesExt
CONSTANT MaxFiles
VARIABLE s
Init == s \in Scenarios(MaxFiles)
Next == UNCHANGED s
Emit == PrintT(<<"CASE", ToJson([sources |-> s.sources, plugin |-> s.plugin, gen |-> SetToSeq(s.gen)])>>)
ASSUME AtMostOneIntrospection /\ NeverMixed /\ EveryMapHasItsFile
=============================================================================
