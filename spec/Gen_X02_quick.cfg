CONSTANTS
  MaxFiles = 2
INIT Init
NEXT Next
INVARIANT Emit
CHECK_DEADLOCK FALSE
