---------------------------- MODULE SchemaSources ----------------------------
(***************************************************************************)
(* The loadSchema stage of the CLI pipeline seen from the configuration:   *)
(* what kind each schema source is (decided by the file name extension),   *)
(* which combinations are accepted, which plugins can be loaded, and what  *)
(* a successful `generate` lists (one entry per written file, typed by     *)
(* its role - the documented CLIOutput.generate.files[].fileType).         *)
(*   cli/src/schema_loader.rs  schema_kind_by_path                         *)
(*   cli/src/main.rs           resolve_loaded_schema, load_plugins order   *)
(*   cli/src/output/file_kind.rs                                           *)
(* JavaScript schema modules (.js/.ts ...) are out of reach offline.       *)
(***************************************************************************)
EXTENDS Naturals, Sequences, FiniteSets

(* the kind of one source file: ".graphql" and any unknown extension are SDL, ".json" is an introspection result *)
SourceKinds == {"graphql", "gql", "json", "badjson", "badgraphql"}
IsJson(k) == k \in {"json", "badjson"}
IsSdl(k) == k \in {"graphql", "gql", "badgraphql"}
Plugins == {"none", "model", "unknown"}
Scenarios(maxFiles) == [sources : UNION {[1..n -> SourceKinds] : n \in 1..maxFiles}, plugin : Plugins, gen : SUBSET {"resolvers", "server"}]

Count(s, P(_)) == Cardinality({i \in DOMAIN s : P(s[i])})
Fail(why) == [exit |-> 1, why |-> why, listing |-> {}, types |-> {}]
(* source i defines the object type "T<i>"; the first SDL source (or the introspection result) also defines Query *)
TypeOf(i) == "T" \o (CASE i = 1 -> "1" [] i = 2 -> "2" [] i = 3 -> "3" [] OTHER -> "9")
Expected(s) ==
  IF s.plugin = "unknown" THEN Fail("cannot-load-plugin")                                   \* before any schema file is read
  ELSE IF \E i \in DOMAIN s.sources : s.sources[i] \in {"badjson", "badgraphql"} THEN Fail("source-error")
  ELSE IF Count(s.sources, IsJson) > 1 THEN Fail("introspection-once")
  ELSE IF Count(s.sources, IsJson) = 1 /\ Count(s.sources, IsSdl) > 0 THEN Fail("mix")
  ELSE [exit |-> 0, why |-> "ok",
        listing |-> {<<"schemaTypeDefinition", "gen/schema.d.ts">>, <<"schemaTypeDefinitionSourceMap", "gen/schema.d.ts.map">>,
                     <<"operationTypeDefinition", "ops/q.d.graphql.ts">>, <<"operationTypeDefinitionSourceMap", "ops/q.d.graphql.ts.map">>}
                    \cup (IF "resolvers" \in s.gen THEN {<<"resolversTypeDefinition", "gen/resolvers.d.ts">>,
                                                         <<"resolversTypeDefinitionSourceMap", "gen/resolvers.d.ts.map">>} ELSE {})
                    \cup (IF "server" \in s.gen THEN {<<"graphqlSource", "gen/server.ts">>} ELSE {}),
        types |-> {"Query"} \cup {TypeOf(i) : i \in DOMAIN s.sources}]

(* design-level statements *)
AtMostOneIntrospection == \A s \in Scenarios(3) : Expected(s).exit = 0 => Count(s.sources, IsJson) <= 1
NeverMixed == \A s \in Scenarios(3) : Expected(s).exit = 0 => (Count(s.sources, IsJson) = 0 \/ Count(s.sources, IsSdl) = 0)
EveryMapHasItsFile == \A s \in Scenarios(3) : \A e \in Expected(s).listing :
                         (Len(e[2]) > 4 /\ SubSeq(e[2], Len(e[2]) - 3, Len(e[2])) = ".map")
                            => \E f \in Expected(s).listing : f[2] \o ".map" = e[2]
=============================================================================
