------------------------------- MODULE Naming -------------------------------
(***************************************************************************)
(* The documented naming of what an operation declaration file declares    *)
(* (website: configuration/options, `generate.name` and `generate.export`):*)
(*   operation  N of kind K : type  Cap?(N) ++ operationResultTypeSuffix   *)
(*                            type  Cap?(N) ++ variablesTypeSuffix         *)
(*                            const Cap?(N) ++ <K>VariableSuffix           *)
(*   fragment   F           : type  F ++ fragmentTypeSuffix                *)
(*                            const F ++ fragmentVariableSuffix            *)
(* Cap? capitalises the first letter unless capitalizeOperationNames is    *)
(* false.  Result / Variables types are exported only when                 *)
(* export.operationResultType / export.variablesType are set; fragment     *)
(* types and fragment constants always are.  An operation constant is a    *)
(* NAMED export iff defaultExportForOperation is false, and the DEFAULT    *)
(* export iff it is true (the default) and the file has exactly one        *)
(* operation ("effective only when a document contains only one            *)
(* operation").  As the code stands, with the option on and two or more    *)
(* operations in a file their constants are declared but not exported at   *)
(* all (neither form): modelled as it is, named here as a quirk.           *)
(* A configuration is a record holding only the options that are SET.      *)
(***************************************************************************)
EXTENDS Naturals, Sequences, FiniteSets

Lower == <<"a", "b", "c", "d", "e", "f", "g", "h", "i", "j", "k", "l", "m", "n", "o", "p", "q", "r", "s", "t", "u", "v", "w", "x", "y", "z">>
Upper == <<"A", "B", "C", "D", "E", "F", "G", "H", "I", "J", "K", "L", "M", "N", "O", "P", "Q", "R", "S", "T", "U", "V", "W", "X", "Y", "Z">>
Cap(s) == IF s = "" THEN s
          ELSE LET c == SubSeq(s, 1, 1) idx == {i \in 1..26 : Lower[i] = c}
               IN IF idx = {} THEN s ELSE Upper[CHOOSE i \in idx : TRUE] \o SubSeq(s, 2, Len(s))
Opt(nc, key, default) == IF key \in DOMAIN nc THEN nc[key] ELSE default

OpBase(nc, name) == IF Opt(nc, "capitalizeOperationNames", TRUE) THEN Cap(name) ELSE name
ResultTypeName(nc, name) == OpBase(nc, name) \o Opt(nc, "operationResultTypeSuffix", "Result")
VariablesTypeName(nc, name) == OpBase(nc, name) \o Opt(nc, "variablesTypeSuffix", "Variables")
OpConstName(nc, opType, name) ==
  OpBase(nc, name) \o (CASE opType = "query" -> Opt(nc, "queryVariableSuffix", "Query")
                         [] opType = "mutation" -> Opt(nc, "mutationVariableSuffix", "Mutation")
                         [] OTHER -> Opt(nc, "subscriptionVariableSuffix", "Subscription"))
FragTypeName(nc, name) == name \o Opt(nc, "fragmentTypeSuffix", "")
FragConstName(nc, name) == name \o Opt(nc, "fragmentVariableSuffix", "")

(* what one definition makes the declaration file declare: a set of [kind, name, exported] *)
D(kind, name, exported) == [kind |-> kind, name |-> name, exported |-> exported]
Declared(nc, xc, d) ==
  IF d.k = "op"
  THEN LET n == IF d.hasName THEN d.name ELSE "" IN
       {D("type", ResultTypeName(nc, n), Opt(xc, "operationResultType", FALSE)),
        D("type", VariablesTypeName(nc, n), Opt(xc, "variablesType", FALSE))}
  ELSE {D("type", FragTypeName(nc, d.name), TRUE)}
ConstsDeclared(nc, d) ==
  IF d.k = "op" THEN {OpConstName(nc, d.opType, IF d.hasName THEN d.name ELSE "")} ELSE {FragConstName(nc, d.name)}
OpConstNamedExport(xc) == ~Opt(xc, "defaultExportForOperation", TRUE)
DefaultExportExpected(xc, defs) ==
  Opt(xc, "defaultExportForOperation", TRUE) /\ Cardinality({i \in DOMAIN defs : defs[i].k = "op"}) = 1

(* design-level: with the default configuration no two definitions of distinctly named operations / fragments collide *)
=============================================================================
