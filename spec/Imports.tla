------------------------------ MODULE Imports ------------------------------
(***************************************************************************)
(* Reference meaning of nitrogql's `#import` extension (property C13; also *)
(* what the loader's emit depends on, C19).                                *)
(*                                                                         *)
(* files : function  path -> descriptor, where a path is the sequence of   *)
(* its components (Paths.tla) and a descriptor is                          *)
(*   [ok      : BOOLEAN,           \* the file parses / registers          *)
(*    imports : Seq([spec: relative path, wild: BOOLEAN, names: Seq(name)]),*)
(*    frags   : Seq([name, spreads: Seq(name)]),                           *)
(*    ops     : Seq([name, spreads: Seq(name)])]                           *)
(***************************************************************************)
EXTENDS Paths, FiniteSets

FragNames(d) == {d.frags[i].name : i \in DOMAIN d.frags}
OpNames(d)   == {d.ops[i].name : i \in DOMAIN d.ops}

Target(f, imp) == ResolveRef(f, imp.spec)

TargetsOf(files, f) == {Target(f, files[f].imports[i]) : i \in DOMAIN files[f].imports}

RECURSIVE ReachFrom(_, _)
ReachFrom(files, S) ==
  LET N == S \cup UNION {TargetsOf(files, f) : f \in S \cap DOMAIN files}
  IN IF N = S THEN S ELSE ReachFrom(files, N)

(* every file whose import lines are honoured when `root` is resolved *)
Reach(files, root) == ReachFrom(files, {root})

ImportFails(files, f, imp) ==
  LET t == Target(f, imp) IN
  \/ t \notin DOMAIN files
  \/ ~imp.wild /\ ~(Range(imp.names) \subseteq FragNames(files[t]))

RefError(files, root) ==
  \E f \in Reach(files, root) \cap DOMAIN files :
     \E i \in DOMAIN files[f].imports : ImportFails(files, f, files[f].imports[i])

Select(files, f, imp) ==
  LET t == Target(f, imp) IN
  IF t \notin DOMAIN files THEN {}
  ELSE IF imp.wild THEN {<<t, "frag", n>> : n \in FragNames(files[t])}
  ELSE {<<t, "frag", n>> : n \in Range(imp.names) \cap FragNames(files[t])}

(* the set of (file, kind, definition name) the resolved document consists of: operations and fragments are separate name spaces, *)
(* and an import names FRAGMENTS only                                                                                            *)
RefResult(files, root) ==
  {<<root, "op", n>> : n \in OpNames(files[root])} \cup {<<root, "frag", n>> : n \in FragNames(files[root])}
  \cup UNION {UNION {Select(files, f, files[f].imports[i]) : i \in DOMAIN files[f].imports}
              : f \in Reach(files, root) \cap DOMAIN files}

(* The property relation.  out = [k |-> "err"] or [k |-> "ok", defs |-> sequence of <<file, kind, name>>] *)
NoDup(s) == \A i, j \in DOMAIN s : i # j => s[i] # s[j]
ImportContract(files, root, out) ==
  IF RefError(files, root) THEN out.k = "err"
  ELSE out.k = "ok" /\ NoDup(out.defs) /\ Range(out.defs) = RefResult(files, root)
=============================================================================
