CONSTANTS
  MaxLines = 3
  Reduced = TRUE
INIT Init
NEXT Next
INVARIANT Emit
CHECK_DEADLOCK FALSE
