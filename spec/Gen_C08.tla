------------------------------ MODULE Gen_C08 ------------------------------
(* spec -> impl for C08: the systematic token-mutation space.  Every        *)
(* (document, token position, operator[, replacement token class]) is one   *)
(* state; the harness applies it to the rendered token stream.              *)
EXTENDS Naturals, TLC, Json
CONSTANTS NDocs, MaxPos, PosStep, NRepl, ReplStep
VARIABLES doc, pos, op, repl
Ops == {"delete", "dup", "swap", "replace", "insert", "truncate"}
Init == /\ doc \in 1..NDocs /\ pos \in {p \in 1..MaxPos : p % PosStep = 0 \/ PosStep = 1} /\ op \in Ops
        /\ repl \in (IF op \in {"replace", "insert"} THEN {r \in 1..NRepl : r % ReplStep = 0 \/ ReplStep = 1} ELSE {1})
Next == UNCHANGED <<doc, pos, op, repl>>
Emit == PrintT(<<"CASE", ToJson([doc |-> doc, pos |-> pos, op |-> op, repl |-> repl])>>)
=============================================================================
