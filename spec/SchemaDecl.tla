------------------------------ MODULE SchemaDecl ------------------------------
(***************************************************************************)
(* What the schema declaration file and the resolvers declaration file     *)
(* must denote (properties C10 and, for the input namespace, C09).         *)
(*                                                                         *)
(* S    : merged, extension-free schema definitions (Schema.tla)           *)
(* cfg  : [allowUndefined |-> BOOLEAN,                                     *)
(*         scalars |-> name :> [ri, ro, oi, oo |-> TS type AST]]           *)
(*        (the configured TypeScript type per target, already selected     *)
(*        from single / send-receive / separate / @nitrogql_ts_type by     *)
(*        ScalarConfigOf below; built-in defaults are part of this spec)   *)
(* env  : TsTypes environment of the emitted files                         *)
(*                                                                         *)
(* One-level abstraction: a reference to another schema type's alias is    *)
(* satisfied by the atom inst(T) exactly when it resolves to THE exported  *)
(* declaration of T; every alias is then compared with the reference       *)
(* denotation of its own type on canonical members and all their           *)
(* one-position perturbations.  If every alias passes, the full (infinite  *)
(* depth) denotations agree by co-induction.                               *)
(***************************************************************************)
EXTENDS TypeSysValidate, TsTypes

Targets == {"OperationInput", "OperationOutput", "ResolverInput", "ResolverOutput"}
TargetNs(tg) == "__" \o tg
IsInputTarget(tg) == tg \in {"OperationInput", "ResolverInput"}
IsSendTarget(tg) == tg \in {"OperationInput", "ResolverOutput"}      \* values the program SENDS; the others it RECEIVES
Kw(n) == [k |-> "kw", n |-> n]
UnionT(ts) == [k |-> "union", ts |-> ts]
BuiltinScalarTs(tg, n) ==
  CASE n \in {"Int", "Float"} -> Kw("number") [] n = "String" -> Kw("string") [] n = "Boolean" -> Kw("boolean")
    [] n = "ID" -> IF IsSendTarget(tg) THEN UnionT(<<Kw("string"), Kw("number")>>) ELSE Kw("string")
IsBuiltinScalar(n) == n \in {"Int", "Float", "String", "Boolean", "ID"}
TargetKey(tg) == CASE tg = "OperationInput" -> "oi" [] tg = "OperationOutput" -> "oo" [] tg = "ResolverInput" -> "ri" [] tg = "ResolverOutput" -> "ro"
HasScalarCfg(cfg, n) == n \in DOMAIN cfg.scalars
ScalarTsFor(cfg, tg, n) == IF HasScalarCfg(cfg, n) THEN cfg.scalars[n][TargetKey(tg)] ELSE BuiltinScalarTs(tg, n)
ScalarKnown(cfg, n) == HasScalarCfg(cfg, n) \/ IsBuiltinScalar(n)

(* configured TypeScript texts live outside the emitted files: every identifier in them is a global *)
GlobalEnv == [schema |-> <<>>, local |-> <<>>, schemaNs |-> ""]
GlobalScope == [file |-> "schema", ns |-> "", params |-> {}]

(* ------------------------------------------------- reference denotations *)
RECURSIVE InRefPos(_, _, _, _, _)
InRefNamed(S, cfg, tg, n, v) ==
  IF ~HasType(S, n) THEN FALSE
  ELSE CASE KindOf(S, n) = "scalar" -> ScalarKnown(cfg, n) /\ Member(v, ScalarTsFor(cfg, tg, n), GlobalEnv, GlobalScope, 6)
         [] KindOf(S, n) = "enum" -> v.k = "str" /\ v.s \in EnumValueNames(S, n)
         [] KindOf(S, n) \in {"object", "interface", "union"} -> ~IsInputTarget(tg) /\ v.k = "inst" /\ v.n \in PossibleTypes(S, n) /\ v.tg = tg
         [] KindOf(S, n) = "input" -> IsInputTarget(tg) /\ v.k = "inst" /\ v.n = n /\ v.tg = tg
InRefPos(S, cfg, tg, ty, v) ==
  IF ty.k = "nn" THEN v.k \notin {"null", "undef"} /\ InRefPos(S, cfg, tg, ty.of, v)
  ELSE IF v.k = "null" THEN TRUE
  ELSE IF ty.k = "list" THEN v.k = "list" /\ \A i \in DOMAIN v.vs : InRefPos(S, cfg, tg, ty.of, v.vs[i])
  ELSE v.k # "undef" /\ InRefNamed(S, cfg, tg, ty.n, v)
(* nn-of-nullable: InRefPos(nn T) excludes null but the recursive call on T admits it; the conjunction is what is meant *)

OptionalInput(cfg, f) == cfg.allowUndefined /\ f.type.k # "nn"

InRefAlias(S, cfg, tg, n, v) ==
  LET d == TypeDef(S, n) IN
  CASE d.k \in {"scalar", "enum"} -> InRefNamed(S, cfg, tg, n, v)
    [] d.k = "object" -> /\ v.k = "rec" /\ Read(v, "__typename").k = "str" /\ Read(v, "__typename").s = n
                         /\ \A i \in DOMAIN d.fields : InRefPos(S, cfg, tg, d.fields[i].type, Read(v, d.fields[i].name))
    [] d.k \in {"interface", "union"} -> v.k = "inst" /\ v.n \in PossibleTypes(S, n) /\ v.tg = tg
    [] d.k = "input" -> v.k = "rec" /\ \A i \in DOMAIN d.inputFields :
                          LET x == Read(v, d.inputFields[i].name) IN
                          (x.k = "undef" /\ OptionalInput(cfg, d.inputFields[i])) \/ InRefPos(S, cfg, tg, d.inputFields[i].type, x)

AliasApplies(S, tg, n) ==
  CASE KindOf(S, n) \in {"scalar", "enum"} -> TRUE
    [] KindOf(S, n) = "input" -> IsInputTarget(tg)
    [] OTHER -> ~IsInputTarget(tg)

(* ------------------------------------------------------------ candidates *)
RECURSIVE LitsIn(_)
LitsIn(t) == CASE t.k = "lit" -> {t.s} [] t.k = "array" -> LitsIn(t.of)
               [] t.k \in {"union", "inter"} -> UNION {LitsIn(t.ts[i]) : i \in DOMAIN t.ts}
               [] t.k = "obj" -> UNION {LitsIn(t.fs[i].t) : i \in DOMAIN t.fs}
               [] t.k = "ref" -> UNION {LitsIn(t.args[i]) : i \in DOMAIN t.args} [] OTHER -> {}
RECURSIVE GlobalsIn(_)
GlobalsIn(t) == CASE t.k = "ref" -> {t.path[1]} \cup UNION {GlobalsIn(t.args[i]) : i \in DOMAIN t.args}
                  [] t.k = "kw" -> IF t.n \in {"bigint", "symbol", "object"} THEN {t.n} ELSE {}
                  [] t.k = "array" -> GlobalsIn(t.of)
                  [] t.k \in {"union", "inter"} -> UNION {GlobalsIn(t.ts[i]) : i \in DOMAIN t.ts}
                  [] t.k = "obj" -> UNION {GlobalsIn(t.fs[i].t) : i \in DOMAIN t.fs} [] OTHER -> {}
RECURSIVE RawsIn(_)
RawsIn(t) == CASE t.k = "raw" -> {t.tokens} [] t.k = "array" -> RawsIn(t.of)
               [] t.k \in {"union", "inter"} -> UNION {RawsIn(t.ts[i]) : i \in DOMAIN t.ts}
               [] t.k = "obj" -> UNION {RawsIn(t.fs[i].t) : i \in DOMAIN t.fs}
               [] t.k = "ref" -> UNION {RawsIn(t.args[i]) : i \in DOMAIN t.args} [] OTHER -> {}
CfgTypes(cfg) == UNION {{cfg.scalars[n].ri, cfg.scalars[n].ro, cfg.scalars[n].oi, cfg.scalars[n].oo} : n \in DOMAIN cfg.scalars}

Atoms(S, cfg) ==
  {VNull, VUndef, VNum, VBool, VStr("$other")}
  \cup {VStr(x) : x \in UNION {EnumValueNames(S, n) : n \in {m \in TypeNames(S) : KindOf(S, m) = "enum"}}}
  \cup {VStr(x) : x \in ObjectNames(S)}
  \cup {VStr(x) : x \in UNION {LitsIn(t) : t \in CfgTypes(cfg)}}
  \cup {VGlob(g) : g \in UNION {GlobalsIn(t) : t \in CfgTypes(cfg)}}
  \cup {VRaw(r) : r \in UNION {RawsIn(t) : t \in CfgTypes(cfg)}}
  \cup {VInstT(n, tg) : n \in {m \in TypeNames(S) : KindOf(S, m) \in {"object", "input"}}, tg \in Targets} \cup {VInst("$none")}
(* an instance atom names the TARGET whose declaration it instantiates: the same type has a different denotation per target (scalars) *)
(* no record is an atom: under the one-level abstraction a position of object / input object type holds inst atoms only *)

RECURSIVE CandsD(_, _)
CandsD(A, d) == A \cup {VList(<<>>)} \cup (IF d = 0 THEN {} ELSE {VList(<<x>>) : x \in CandsD(A, d - 1)})
RECURSIVE ListDepth(_)
ListDepth(ty) == CASE ty.k = "nn" -> ListDepth(ty.of) [] ty.k = "list" -> 1 + ListDepth(ty.of) [] OTHER -> 0
PosCands(A, ty) == CandsD(A, ListDepth(ty) + 1)

(* records over `keys` : canonical value everywhere, one key perturbed *)
RecCands(A, keys, candsOf(_), canonOf(_)) ==
  LET base == [key \in keys |-> canonOf(key)] IN
  {VRec(base), VRec(<<>>)} \cup UNION {{VRec([base EXCEPT ![key] = x]) : x \in candsOf(key)} : key \in keys} \cup A

HasCanon(A, P(_)) == \E x \in A : P(x)
Canon(A, P(_)) == CHOOSE x \in A : P(x)

(* --------------------------------------------------------- discrepancies *)
Item(cls, what, more) == [cls |-> cls, what |-> what, more |-> more]

(* compare a TS type with a reference predicate on a candidate set; at most one witness per direction *)
Compare(cands, InTs(_), InRef(_), cls, ctx) ==
  LET loose == {v \in cands : InTs(v) /\ ~InRef(v)}
      strict == {v \in cands : ~InTs(v) /\ InRef(v)}
  IN (IF loose = {} THEN {} ELSE {Item(cls \o "-too-loose", "the emitted type admits a value the GraphQL type does not", [ctx |-> ctx, witness |-> CHOOSE v \in loose : TRUE])})
     \cup (IF strict = {} THEN {} ELSE {Item(cls \o "-too-strict", "the emitted type rejects a value of the GraphQL type", [ctx |-> ctx, witness |-> CHOOSE v \in strict : TRUE])})

SchemaScope(ns) == [file |-> "schema", ns |-> ns, params |-> {}]

AliasItems(S, cfg, env, tg, n) ==
  LET ns == TargetNs(tg)
      decl == ExportedMember(NamespaceBody(env.schema, ns), "schema", ns, n)
      A == Atoms(S, cfg)
      d == TypeDef(S, n)
      ctx == <<tg, n>>
  IN IF ~HasNamespace(env.schema, ns) THEN {Item("missing-namespace", "a target namespace is missing", [ctx |-> ctx])}
     ELSE IF decl.k # "decl" THEN {Item("missing-alias", "the namespace does not export a type of this name", [ctx |-> ctx])}
     ELSE LET sc == ScopeOfDecl(decl)
              InTs(v) == Member(v, decl.stmt.t, env, sc, 12)
              InRef(v) == InRefAlias(S, cfg, tg, n, v)
              dang == Dangling(decl.stmt.t, env, sc)
          IN (IF dang = {} THEN {} ELSE {Item("dangling-reference", "a reference inside the alias does not resolve", [ctx |-> ctx, paths |-> dang])})
             \cup
             (CASE d.k \in {"scalar", "enum", "interface", "union"} -> Compare(CandsD(A, 1), InTs, InRef, "alias", ctx)
                [] d.k = "object" ->
                     LET keys == {d.fields[i].name : i \in DOMAIN d.fields} \cup {"__typename"}
                         tyOf(key) == FieldDef(S, n, key).type
                         okAll == \A i \in DOMAIN d.fields : HasCanon(PosCands(A, d.fields[i].type), LAMBDA x : InRefPos(S, cfg, tg, d.fields[i].type, x))
                         canonOf(key) == IF key = "__typename" THEN VStr(n) ELSE Canon(PosCands(A, tyOf(key)), LAMBDA x : InRefPos(S, cfg, tg, tyOf(key), x))
                         candsOf(key) == IF key = "__typename" THEN A ELSE PosCands(A, tyOf(key))
                     IN IF ~okAll THEN {} ELSE Compare(RecCands(A, keys, candsOf, canonOf), InTs, InRef, "alias", ctx)
                [] d.k = "input" ->
                     LET keys == {d.inputFields[i].name : i \in DOMAIN d.inputFields}
                         tyOf(key) == InputFieldDef(S, n, key).type
                         okAll == \A i \in DOMAIN d.inputFields : HasCanon(PosCands(A, d.inputFields[i].type), LAMBDA x : InRefPos(S, cfg, tg, d.inputFields[i].type, x))
                         canonOf(key) == Canon(PosCands(A, tyOf(key)), LAMBDA x : InRefPos(S, cfg, tg, tyOf(key), x))
                         candsOf(key) == PosCands(A, tyOf(key))
                         body == decl.stmt.t
                     IN (IF ~okAll THEN {} ELSE Compare(RecCands(A, keys, candsOf, canonOf), InTs, InRef, "alias", ctx))
                        \cup (IF body.k = "obj" /\ \E i \in DOMAIN body.fs : ~body.fs[i].readonly
                              THEN {Item("input-field-not-readonly", "an input object field is not readonly", [ctx |-> ctx])} ELSE {}))

UserTypeNames(S) == {S[i].name : i \in {j \in DOMAIN S : S[j].k \in TypeKinds}}
AllTypeNames(S, cfg) == UserTypeNames(S) \cup {"Int", "Float", "String", "Boolean", "ID"}

RepresentativeItems(S, env, n) ==
  LET e == ExportedMember(env.schema, "schema", "", n) IN
  IF e.k # "decl" THEN {Item("missing-representative", "no module-level export of this name", [ctx |-> <<n>>])}
  ELSE LET t == e.stmt.t
           r == IF t.k = "ref" THEN Lookup(env, SchemaScope(""), t.path) ELSE Missing("")
       IN IF t.k = "ref" /\ Len(t.path) = 2 /\ t.path[1] \in {TargetNs(tg) : tg \in Targets} /\ r.k = "decl" /\ IsDeclOfType(env, r, n)
          THEN {} ELSE {Item("wrong-representative", "the module-level export does not alias this type's declaration in a target namespace", [ctx |-> <<n>>])}

SchemaDeclItems(S, cfg, env) ==
  UNION {UNION {IF AliasApplies(S, tg, n) THEN AliasItems(S, cfg, env, tg, n) ELSE {} : n \in AllTypeNames(S, cfg)} : tg \in Targets}
  \cup UNION {RepresentativeItems(S, env, n) : n \in AllTypeNames(S, cfg)}

(* ----------------------------------------------- enum runtime objects *)
(* With emitSchemaRuntime the schema module also exports, per enum type E, a VALUE E: an object whose keys are exactly E's    *)
(* values, each mapped to its own name, `as const` (so that E.V has the literal type "V", a member of the type E).  Without   *)
(* the option no value is exported (the file may be a pure declaration file).                                                   *)
TopConsts(stmts, n) == {i \in DOMAIN stmts : stmts[i].k = "const" /\ stmts[i].name = n}
EnumRuntimeItems(S, cfg, stmts) ==
  UNION {LET cs == TopConsts(stmts, n) vals == EnumValueNames(S, n) IN
         IF ~cfg.runtime
         THEN (IF cs = {} THEN {} ELSE {Item("unexpected-runtime", "a runtime value is exported although emitSchemaRuntime is off", [ctx |-> <<n>>])})
         ELSE IF Cardinality(cs) # 1 THEN {Item("enum-runtime-missing", "emitSchemaRuntime: not exactly one exported const for an enum type", [ctx |-> <<n>>])}
         ELSE LET c == stmts[CHOOSE i \in cs : TRUE]
                  keys == {c.obj.props[i].key : i \in DOMAIN c.obj.props}
              IN IF /\ c.export /\ c.hasInit /\ c.obj.ok /\ c.obj.asConst
                    /\ keys = vals /\ Len(c.obj.props) = Cardinality(vals)
                    /\ \A i \in DOMAIN c.obj.props : c.obj.props[i].val = c.obj.props[i].key
                 THEN {} ELSE {Item("enum-runtime", "the runtime object of an enum does not map exactly its values to themselves (as const)", [ctx |-> <<n>>])}
        : n \in {m \in UserTypeNames(S) : KindOf(S, m) = "enum"}}

(* ------------------------------------------------------- resolvers file *)
LocalScope(params) == [file |-> "local", ns |-> "", params |-> params]
ObjField(o, key) == o.fs[CHOOSE i \in DOMAIN o.fs : o.fs[i].key = key]
HasObjField(o, key) == o.k = "obj" /\ \E i \in DOMAIN o.fs : o.fs[i].key = key
IsRefTo(t, last, nargs) == t.k = "ref" /\ t.path[Len(t.path)] = last /\ Len(t.args) = nargs

ResolverFieldItems(S, cfg, env, A, sc, o, f, t) ==
  LET ctx == <<"Resolvers", o, f.name>> IN
  IF ~IsRefTo(t, "__Resolver", 4) THEN {Item("resolver-shape", "a field resolver is not a __Resolver<Parent, Args, Context, Result>", [ctx |-> ctx])}
  ELSE LET P == t.args[1] Ar == t.args[2] R == t.args[4]
           pr == IF P.k = "ref" THEN Lookup(env, sc, P.path) ELSE Missing("")
           argKeys == {f.args[i].name : i \in DOMAIN f.args}
           argTy(key) == f.args[CHOOSE i \in DOMAIN f.args : f.args[i].name = key].type
           okArgs == \A key \in argKeys : HasCanon(PosCands(A, argTy(key)), LAMBDA x : InRefPos(S, cfg, "ResolverInput", argTy(key), x))
           canonOf(key) == Canon(PosCands(A, argTy(key)), LAMBDA x : InRefPos(S, cfg, "ResolverInput", argTy(key), x))
           (* whether a nullable argument may be left out is not judged (the property does not say): undef is no candidate there *)
           candsOf(key) == {x \in PosCands(A, argTy(key)) : ~(x.k = "undef" /\ argTy(key).k # "nn")}
           InArgs(v) == v.k = "rec" /\ \A key \in argKeys : InRefPos(S, cfg, "ResolverInput", argTy(key), Read(v, key))
       IN (IF pr.k = "decl" /\ IsDeclOfType(env, pr, o) THEN {} ELSE {Item("resolver-parent", "the parent type of a resolver is not this object type's alias", [ctx |-> ctx])})
          \cup (IF ~okArgs THEN {} ELSE Compare(RecCands({VNull, VUndef, VNum}, argKeys, candsOf, canonOf) \ (IF argKeys = {} THEN {} ELSE {VRec(<<>>)}),
                                                LAMBDA v : Member(v, Ar, env, sc, 12), InArgs, "resolver-args", ctx))
          \cup Compare(PosCands(A, f.type), LAMBDA v : Member(v, R, env, sc, 12), LAMBDA v : InRefPos(S, cfg, "ResolverOutput", f.type, v), "resolver-result", ctx)
          \cup (IF Dangling(t, env, sc) = {} THEN {} ELSE {Item("dangling-reference", "a reference inside the resolver type does not resolve", [ctx |-> ctx, paths |-> Dangling(t, env, sc)])})

(* the model plugin (`nitrogql:model-plugin`): an object with @model(type: "T") is represented by the TypeScript type T and needs every *)
(* resolver; otherwise the parent object handed to resolvers carries exactly the fields marked @model, and those need no resolver   *)
HasDir(dirs, n) == \E i \in DOMAIN dirs : dirs[i].name = n
DirArg(dirs, n, a) == LET d == dirs[CHOOSE i \in DOMAIN dirs : dirs[i].name = n] IN d.args[CHOOSE j \in DOMAIN d.args : d.args[j].name = a].v
ModelObject(cfg, d) == cfg.modelPlugin /\ HasDir(d.dirs, "model")
ModelFields(cfg, d) == IF cfg.modelPlugin /\ ~HasDir(d.dirs, "model") THEN {d.fields[i].name : i \in {j \in DOMAIN d.fields : HasDir(d.fields[j].dirs, "model")}} ELSE {}
ExcludedResolvers(S, cfg) == UNION {{<<n, f>> : f \in ModelFields(cfg, TypeDef(S, n))} : n \in {m \in UserTypeNames(S) : KindOf(S, m) = "object"}}

(* the local alias of an object type: the ResolverOutput declaration minus __typename (no plugin); see above with the model plugin *)
LocalObjectAliasItems(S, cfg, env, A, o) ==
  LET e == ExportedMember(env.local, "local", "", o)
      d == TypeDef(S, o)
      ctx == <<"resolvers-local-alias", o>>
      keys == IF cfg.modelPlugin THEN ModelFields(cfg, d) ELSE {d.fields[i].name : i \in DOMAIN d.fields}
      tyOf(key) == FieldDef(S, o, key).type
      okAll == \A key \in keys : HasCanon(PosCands(A, tyOf(key)), LAMBDA x : InRefPos(S, cfg, "ResolverOutput", tyOf(key), x))
      canonOf(key) == Canon(PosCands(A, tyOf(key)), LAMBDA x : InRefPos(S, cfg, "ResolverOutput", tyOf(key), x))
      candsOf(key) == PosCands(A, tyOf(key))
      InRef(v) == v.k = "rec" /\ \A key \in keys : InRefPos(S, cfg, "ResolverOutput", tyOf(key), Read(v, key))
  IN IF e.k # "decl" THEN {Item("missing-alias", "the resolvers file has no local alias for an object type", [ctx |-> ctx])}
     ELSE IF ModelObject(cfg, d)
          THEN (* the configured TypeScript text, verbatim: every identifier in it is a global, exactly as in cfg.modelTypes *)
               Compare(A \cup {VGlob(g) : g \in GlobalsIn(cfg.modelTypes[o])} \cup {VRaw(r) : r \in RawsIn(cfg.modelTypes[o])},
                       LAMBDA v : Member(v, e.stmt.t, env, ScopeOfDecl(e), 12), LAMBDA v : Member(v, cfg.modelTypes[o], GlobalEnv, GlobalScope, 6), "model-alias", ctx)
     ELSE IF ~okAll THEN {}
     ELSE Compare(RecCands({VNull, VUndef}, keys, candsOf, canonOf), LAMBDA v : Member(v, e.stmt.t, env, ScopeOfDecl(e), 12), InRef, "alias", ctx)

ResolversItems(S, cfg, env, excluded) ==
  LET e == ExportedMember(env.local, "local", "", "Resolvers")
      A == Atoms(S, cfg)
  IN IF e.k # "decl" \/ e.stmt.t.k # "obj" THEN {Item("resolvers-missing", "no exported object type Resolvers", [ctx |-> <<"Resolvers">>])}
     ELSE LET body == e.stmt.t
              sc == ScopeOfDecl(e)
              objs == {n \in UserTypeNames(S) : KindOf(S, n) = "object"}
              abstracts == {n \in UserTypeNames(S) : KindOf(S, n) \in {"interface", "union"}}
          IN UNION {IF \A i \in DOMAIN TypeDef(S, o).fields : <<o, TypeDef(S, o).fields[i].name>> \in excluded
                    THEN LocalObjectAliasItems(S, cfg, env, A, o)          \* every field is plugin-excluded: no entry is required
                    ELSE IF ~HasObjField(body, o) \/ ObjField(body, o).opt \/ ObjField(body, o).t.k # "obj"
                    THEN {Item("resolver-missing", "Resolvers does not require an entry for an object type", [ctx |-> <<"Resolvers", o>>])}
                    ELSE LET ot == ObjField(body, o).t d == TypeDef(S, o) IN
                         UNION {LET f == d.fields[i] IN
                                IF <<o, f.name>> \in excluded THEN {}
                                ELSE IF ~HasObjField(ot, f.name) \/ ObjField(ot, f.name).opt
                                THEN {Item("resolver-missing", "Resolvers does not require a resolver for a field", [ctx |-> <<"Resolvers", o, f.name>>])}
                                ELSE ResolverFieldItems(S, cfg, env, A, sc, o, f, ObjField(ot, f.name).t) : i \in DOMAIN d.fields}
                         \cup LocalObjectAliasItems(S, cfg, env, A, o)
                    : o \in objs}
             \cup UNION {IF ~HasObjField(body, a) \/ ObjField(body, a).opt \/ ~HasObjField(ObjField(body, a).t, "__resolveType")
                         THEN {Item("type-resolver-missing", "Resolvers does not require a type resolver for an abstract type", [ctx |-> <<"Resolvers", a>>])}
                         ELSE LET t == ObjField(ObjField(body, a).t, "__resolveType").t ctx == <<"Resolvers", a, "__resolveType">> IN
                              IF ~IsRefTo(t, "__TypeResolver", 3) THEN {Item("resolver-shape", "a type resolver is not a __TypeResolver<Obj, Context, Result>", [ctx |-> ctx])}
                              ELSE Compare(A, LAMBDA v : Member(v, t.args[1], env, sc, 12), LAMBDA v : v.k = "inst" /\ v.n \in PossibleTypes(S, a) /\ v.tg = "ResolverOutput", "type-resolver-object", ctx)
                                   \cup Compare(A, LAMBDA v : Member(v, t.args[3], env, sc, 12), LAMBDA v : v.k = "str" /\ v.s \in PossibleTypes(S, a), "type-resolver-result", ctx)
                         : a \in abstracts}
=============================================================================
