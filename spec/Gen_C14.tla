------------------------------ MODULE Gen_C14 ------------------------------
(* spec -> impl for C14: the full product of the naming / export options.  *)
EXTENDS Naturals, TLC, Json
CONSTANTS Modes, Suffixes, Bools3, TypeExports
VARIABLES cfg
Init == cfg \in [mode : Modes, defaultExport : BOOLEAN, capitalize : Bools3,
                 querySuffix : Suffixes, mutationSuffix : Suffixes, subscriptionSuffix : Suffixes, fragmentSuffix : Suffixes,
                 resultType : TypeExports, variablesType : TypeExports]
Next == UNCHANGED cfg
Emit == PrintT(<<"CASE", ToJson(cfg)>>)
=============================================================================
