CONSTANTS
  OpPlacements = {"none", "direct", "nested"}
  FragPlacements = {"none", "direct", "inline"}
INIT Init
NEXT Next
INVARIANT Emit
CHECK_DEADLOCK FALSE
