------------------------------ MODULE Gen_C01 ------------------------------
(***************************************************************************)
(* spec -> impl for C01 / C02: a builder state machine grows one operation *)
(* document over a tiny fixed schema, one selection node per step; TLC's   *)
(* state graph is EVERY document with <= MaxNodes selection nodes (children*)
(* in every order: permutations are distinct states).  One CASE per state  *)
(* that is a complete document (every composite field and inline fragment  *)
(* has a selection).  Validity (Validate.tla) and response-key consistency *)
(* are re-confirmed by the trace specification, which discards the rest.   *)
(*                                                                         *)
(*   type Query { n: N  a: A  l: [N!]!  s: String }                        *)
(*   interface N { id: ID!  n: N }                                         *)
(*   type A implements N { id: ID!  n: N  v: Int  o: A }                   *)
(*   type B implements N { id: ID!  n: N  w: String! }                     *)
(*   fragment FN on N { id ... on A { v } }   fragment FA on A { v o { id } } *)
(***************************************************************************)
EXTENDS Naturals, Sequences, FiniteSets, TLC, Json
CONSTANTS MaxNodes, Conds, Aliases
VARIABLE nodes      \* sequence of [p, k, name, alias, on, cond]; p = 0: child of the operation's root selection set

Composite == {"Query", "N", "A", "B"}
FieldType(t, f) ==
  CASE f = "__typename" -> "String"
    [] t = "Query" /\ f = "n" -> "N" [] t = "Query" /\ f = "a" -> "A" [] t = "Query" /\ f = "l" -> "N" [] t = "Query" /\ f = "s" -> "String"
    [] f = "id" -> "ID" [] f = "n" -> "N" [] f = "v" -> "Int" [] f = "o" -> "A" [] f = "w" -> "String"
FieldsOf(t) == CASE t = "Query" -> {"n", "a", "l", "s", "__typename"} [] t = "N" -> {"id", "n", "__typename"}
                 [] t = "A" -> {"id", "n", "v", "o", "__typename"} [] t = "B" -> {"id", "n", "w", "__typename"}
Possible(t) == CASE t = "N" -> {"A", "B"} [] t = "A" -> {"A"} [] t = "B" -> {"B"} [] t = "Query" -> {"Query"}
FragOn(f) == IF f = "FN" THEN "N" ELSE "A"

RECURSIVE TypeAt(_, _)
TypeAt(ns, i) ==        \* the type whose fields the children of node i select from (i = 0: the query root)
  IF i = 0 THEN "Query"
  ELSE LET n == ns[i] IN
       IF n.k = "field" THEN FieldType(TypeAt(ns, n.p), n.name)
       ELSE IF n.on # "" THEN n.on ELSE TypeAt(ns, n.p)
IsParent(ns, i) == i = 0 \/ (ns[i].k = "inline") \/ (ns[i].k = "field" /\ FieldType(TypeAt(ns, ns[i].p), ns[i].name) \in Composite)
Children(ns, i) == {j \in DOMAIN ns : ns[j].p = i}

Node(p, k, name, alias, on, cond) == [p |-> p, k |-> k, name |-> name, alias |-> alias, on |-> on, cond |-> cond]
Candidates(ns, p) ==
  LET t == TypeAt(ns, p) IN
  {Node(p, "field", f, al, "", c) : f \in FieldsOf(t), al \in Aliases, c \in Conds}
  \cup {Node(p, "inline", "", "", on, c) : on \in {""} \cup {u \in Composite \ {"Query"} : Possible(u) \cap Possible(t) # {}}, c \in Conds}
  \cup (IF t = "Query" THEN {} ELSE {Node(p, "spread", f, "", "", c) : f \in {g \in {"FN", "FA"} : Possible(FragOn(g)) \cap Possible(t) # {}}, c \in Conds})

Init == nodes = <<>>
Next == /\ Len(nodes) < MaxNodes
        /\ \E p \in {0} \cup {i \in DOMAIN nodes : IsParent(nodes, i)} :
             \E nd \in Candidates(nodes, p) : nodes' = Append(nodes, nd)

Complete == nodes # <<>> /\ \A i \in DOMAIN nodes : (IsParent(nodes, i) => Children(nodes, i) # {})
Emit == Complete => PrintT(<<"CASE", ToJson([nodes |-> nodes])>>)
=============================================================================
