----------------------------- MODULE Trace_C12 -----------------------------
(* impl -> spec for C12: the JSON DocumentNode embedded for every operation *)
(* and fragment (loader emit_js; standalone .graphql.ts) is read back by an *)
(* independent graphql-js-AST reader and judged by Doc!RuntimeDocContract   *)
(* against the ABSTRACT source documents the text was rendered from.        *)
EXTENDS Doc, TLC, Json, IOUtils
Rec == ndJsonDeserialize(IOEnv.TRACE)
VARIABLE l
IsEvent(k) == l <= Len(Rec) /\ Rec[l].ev = k /\ l' = l + 1
Report(its) == \A i \in DOMAIN its : PrintT(<<"ITEM", ToJson(its[i])>>)

FilesOf(e) == [p \in {e.files[i].path : i \in DOMAIN e.files} |->
                 DescOf(e.files[CHOOSE i \in DOMAIN e.files : e.files[i].path = p].doc)]
DocOf(e, p) == e.files[CHOOSE i \in DOMAIN e.files : e.files[i].path = p].doc

(* definitions in scope of the root file: its own plus the imported fragments *)
Resolved(e) ==
  LET files == FilesOf(e)
      pairs == RefResult(files, e.root)
  IN {d \in UNION {{DocOf(e, p).defs[i] : i \in DOMAIN DocOf(e, p).defs} : p \in DOMAIN files} :
        d.k # "import" /\ \E pr \in pairs :
           /\ \E i \in DOMAIN DocOf(e, pr[1]).defs : DocOf(e, pr[1]).defs[i] = d
           /\ pr[2] = d.k
           /\ pr[3] = (IF d.k = "op" THEN (IF d.hasName THEN d.name ELSE "") ELSE d.name)}

FragMap(defs) == [n \in {d.name : d \in {x \in defs : x.k = "frag"}} |-> CHOOSE d \in defs : d.k = "frag" /\ d.name = n]

Head1(c) == c.doc.defs[1]
SameDef(x, y) == x.k = y.k /\ (IF x.k = "op" THEN x.hasName = y.hasName /\ (x.hasName => x.name = y.name) /\ x.opType = y.opType
                               ELSE x.name = y.name)

Item(cls, what, e, x) == [cls |-> cls, what |-> what, l |-> l, route |-> e.route, root |-> e.root, def |-> x,
                          consts |-> e.out.consts, files |-> e.files]

Judge(e) ==
  LET defs == Resolved(e)
      frs == FragMap(defs)
      cs == e.out.consts
      normdoc(c) == [i \in DOMAIN c.doc.defs |-> NDef(c.doc.defs[i])]
      missing == {x \in defs : ~\E i \in DOMAIN cs : Len(cs[i].doc.defs) >= 1 /\ SameDef(Head1(cs[i]), x)}
      wrong == {x \in defs \ missing : \A i \in DOMAIN cs :
                   (Len(cs[i].doc.defs) >= 1 /\ SameDef(Head1(cs[i]), x)) => ~RuntimeDocContract(frs, x, normdoc(cs[i]))}
      extra == {i \in DOMAIN cs : Len(cs[i].doc.defs) = 0 \/ ~\E x \in defs : SameDef(Head1(cs[i]), x)}
  IN SetToSeq({Item("missing-document", "no embedded document for a definition of the file", e, NDef(x)) : x \in missing})
     \o SetToSeq({Item("wrong-document", "embedded document is not the source definition followed by exactly the fragments it transitively spreads", e, NDef(x)) : x \in wrong})
     \o SetToSeq({Item("extra-document", "an embedded document does not start with a definition of the file", e, [i |-> i]) : i \in extra})

TEmit ==
  /\ IsEvent("RuntimeDocs")
  /\ LET e == Rec[l] IN
     Report(IF e.out.k = "panic" THEN <<[cls |-> "panic", what |-> "emitting the runtime documents panicked", l |-> l, event |-> e]>>
            ELSE IF e.out.k = "malformed" THEN <<[cls |-> "malformed", what |-> "emitted module is not const/export statements with graphql-js JSON", l |-> l, event |-> e]>>
            ELSE IF e.out.k = "err" THEN <<[cls |-> "error", what |-> "valid project was rejected", l |-> l, event |-> e]>>
            ELSE Judge(e))

Init == l = 1
Next == TEmit
Spec == Init /\ [][Next]_l
Done == PrintT(<<"DONE", ToJson([consumed |-> TLCGet("stats").diameter - 1])>>)
=============================================================================
