------------------------------ MODULE Exports ------------------------------
(***************************************************************************)
(* C14: what the generated declaration file declares as value exports is   *)
(* what the loader's JavaScript module exports, under the same name and    *)
(* for the same operation / fragment.  Stated on the artefacts themselves: *)
(*   dts : the declaration file as read by the TS-subset reader (TS_AST)   *)
(*   map : its source map (mappings as code points, sources as paths)      *)
(*   js  : the loader module (consts with their embedded documents)        *)
(*   srcs: the GraphQL files with the header span of every definition      *)
(***************************************************************************)
EXTENDS SourceMap, Paths, TLC

Stmts(dts) == dts.stmts
DtsValueExports(dts) == {Stmts(dts)[i].name : i \in {j \in DOMAIN Stmts(dts) : Stmts(dts)[j].k = "const" /\ Stmts(dts)[j].export}}
DtsDefaults(dts) ==
  UNION {{Stmts(dts)[i].items[k].name : k \in {m \in DOMAIN Stmts(dts)[i].items : Stmts(dts)[i].items[m].as = "default"}}
         : i \in {j \in DOMAIN Stmts(dts) : Stmts(dts)[j].k = "exportList" /\ ~Stmts(dts)[j].typeOnly}}
DtsConst(dts, n) == Stmts(dts)[CHOOSE i \in DOMAIN Stmts(dts) : Stmts(dts)[i].k = "const" /\ Stmts(dts)[i].name = n]
DtsHasConst(dts, n) == \E i \in DOMAIN Stmts(dts) : Stmts(dts)[i].k = "const" /\ Stmts(dts)[i].name = n

JsExports(js) == {js.consts[i].name : i \in {j \in DOMAIN js.consts : js.consts[j].exported}}
JsConst(js, n) == js.consts[CHOOSE i \in DOMAIN js.consts : js.consts[i].name = n]
JsHasConst(js, n) == \E i \in DOMAIN js.consts : js.consts[i].name = n

(* identity of a GraphQL definition *)
Ident(k, opType, name) == [k |-> k, opType |-> opType, name |-> name]
JsDenotes(js, n) ==
  LET d == JsConst(js, n).doc.defs[1] IN
  Ident(d.k, IF d.k = "op" THEN d.opType ELSE "", IF d.k = "op" /\ ~d.hasName THEN "" ELSE d.name)

InSpan(d, line, col) ==
  /\ (line > d.startLine \/ (line = d.startLine /\ col >= d.startCol))
  /\ (line < d.endLine \/ (line = d.endLine /\ col < d.endCol))

(* the definitions the declaring identifier of const n is mapped into *)
DtsDenotes(dts, dec, map, declPath, srcs, n) ==
  LET c == DtsConst(dts, n)
      segs == {s \in SegmentsAt(dec, c.line, c.col) : s.n >= 4 /\ s.src >= 0 /\ s.src < Len(map.sources)}
  IN UNION {
       LET file == ResolveRef(declPath, map.sources[s.src + 1])
           F == {i \in DOMAIN srcs : Normalize(srcs[i].path) = file}
       IN UNION {{Ident(srcs[i].defs[j].k, srcs[i].defs[j].opType, srcs[i].defs[j].name)
                  : j \in {m \in DOMAIN srcs[i].defs : InSpan(srcs[i].defs[m], s.line, s.col)}} : i \in F}
     : s \in segs}

(* standalone mode: the declaration file embeds the document itself *)
DtsEmbedded(dts, n) ==
  LET c == DtsConst(dts, n) IN
  IF c.hasInit /\ "kind" \in DOMAIN c.init /\ "definitions" \in DOMAIN c.init /\ Len(c.init.definitions) >= 1
  THEN LET d == c.init.definitions[1] IN
       {Ident(IF d.kind = "OperationDefinition" THEN "op" ELSE "frag",
              IF d.kind = "OperationDefinition" THEN d.operation ELSE "",
              IF "name" \in DOMAIN d THEN d.name.value ELSE "")}
  ELSE {}

(* items: what is wrong, if anything *)
ExportItems(dts, dec, map, declPath, srcs, js) ==
  LET dv == DtsValueExports(dts) je == JsExports(js)
      denote(n) == DtsDenotes(dts, dec, map, declPath, srcs, n) \cup DtsEmbedded(dts, n)
      notExported == dv \ je
      wrongDoc == {n \in dv \cap je : denote(n) # {} /\ JsDenotes(js, n) \notin denote(n)}
      undetermined == {n \in dv \cap je : denote(n) = {}}
      dd == DtsDefaults(dts)
      defaultMissing == dd # {} /\ ~js.hasDefault
      defaultWrong == {n \in dd : js.hasDefault /\ DtsHasConst(dts, n) /\ JsHasConst(js, js.default)
                                  /\ denote(n) # {} /\ JsDenotes(js, js.default) \notin denote(n)}
  IN [notExported |-> notExported, wrongDoc |-> wrongDoc, undetermined |-> undetermined,
      defaultMissing |-> defaultMissing, defaultWrong |-> defaultWrong]
=============================================================================
