------------------------------ MODULE CliConfig ------------------------------
(***************************************************************************)
(* The front of the CLI pipeline (before Nitrogql.tla's loadSchema stage): *)
(* which configuration the run works with.  Documented on the website's    *)
(* "Configuration File Name" and "CLI Usage" pages and implemented in      *)
(* config-file/load_config.rs + cli/main.rs:                               *)
(*  - no command                      -> error before anything is read     *)
(*  - --config-file P                 -> exactly that file (relative to    *)
(*                                       the working directory); missing   *)
(*                                       or invalid: error                 *)
(*  - otherwise the FIRST existing name of the documented search order in  *)
(*    the working directory (an invalid first one is an error, the search  *)
(*    does not fall through); none: defaults                               *)
(*  - the project root is the directory of the configuration file (the     *)
(*    working directory without one); every pattern and output path -      *)
(*    from the file or from the command line - is relative to it           *)
(*  - --schema / --operation / --schema-output override the file           *)
(*  - no schema pattern at all: error; `generate` without any schema       *)
(*    output: error (Nitrogql!BadGenConfig); unknown command: error after  *)
(*    loading, nothing written                                             *)
(* JavaScript / TypeScript configuration files need @nitrogql/core at run  *)
(* time (not available offline): only the seven YAML / JSON names of the   *)
(* search order are modelled, in their documented relative order.          *)
(***************************************************************************)
EXTENDS Naturals, Sequences, FiniteSets

SearchOrder == <<"graphql.config.json", "graphql.config.yaml", "graphql.config.yml",
                 ".graphqlrc", ".graphqlrc.json", ".graphqlrc.yaml", ".graphqlrc.yml">>
NNames == Len(SearchOrder)

(* a scenario: which of the names exist in the working directory, the command line, what the configuration files say *)
Explicits   == {"none", "custom", "missing"}          \* --config-file: absent | sub/custom.yaml (exists) | missing.yaml
SchemaArgs  == {"none", "good", "bad"}                 \* --schema ./schema_good/*.graphql | ./schema_bad/*.graphql
CfgSchemas  == {"good", "bad", "absent", "invalid"}    \* the `schema` entry of every configuration file ("invalid": not a string or list)
CommandLists == {<<>>, <<"check">>, <<"generate">>, <<"bogus">>}
Scenarios == [present : SUBSET (1..NNames), explicit : Explicits, schemaArg : SchemaArgs, cfgSchema : CfgSchemas,
              opArg : BOOLEAN, outArg : BOOLEAN, commands : CommandLists]

Min(S) == CHOOSE x \in S : \A y \in S : x <= y
(* the configuration the run uses: <<"file", tag, root>> | <<"defaults">> | <<"error">> *)
Chosen(s) ==
  IF s.explicit = "custom" THEN <<"file", "custom", "sub">>
  ELSE IF s.explicit = "missing" THEN <<"error">>
  ELSE IF s.present = {} THEN <<"defaults">>
  ELSE <<"file", SearchOrder[Min(s.present)], ".">>
RootOf(s) == LET c == Chosen(s) IN IF c[1] = "file" THEN c[3] ELSE "."
HasFile(s) == Chosen(s)[1] = "file"
EffSchema(s) == IF s.schemaArg # "none" THEN s.schemaArg ELSE IF HasFile(s) THEN s.cfgSchema ELSE "absent"
OpsDir(s) == IF s.opArg THEN "ops_a" ELSE IF HasFile(s) THEN "ops_c" ELSE "none"
OutDir(s) == IF s.outArg THEN "out_arg" ELSE IF HasFile(s) THEN "out_" \o Chosen(s)[2] ELSE "none"

Join(root, rel) == IF root = "." THEN rel ELSE root \o "/" \o rel
Fail(why, named) == [exit |-> 1, why |-> why, named |-> named, written |-> {}]
Expected(s) ==
  IF s.commands = <<>> THEN Fail("no-command", {})
  ELSE IF Chosen(s) = <<"error">> THEN Fail("config-missing", {})
  ELSE IF HasFile(s) /\ s.cfgSchema = "invalid" THEN Fail("config-invalid", {})
  ELSE IF EffSchema(s) = "absent" THEN Fail("no-schema", {})
  ELSE IF EffSchema(s) = "bad" THEN Fail("schema-parse", {Join(RootOf(s), "schema_bad/s.graphql")})
  ELSE IF s.commands = <<"bogus">> THEN Fail("unknown-command", {})
  ELSE IF s.commands = <<"generate">> /\ OutDir(s) = "none" THEN Fail("no-schema-output", {})
  ELSE [exit |-> 0, why |-> "ok", named |-> {},
        written |-> IF s.commands # <<"generate">> THEN {}
                    ELSE {Join(RootOf(s), OutDir(s) \o "/schema.d.ts"), Join(RootOf(s), OutDir(s) \o "/schema.d.ts.map")}
                         \cup (IF OpsDir(s) = "none" THEN {}
                               ELSE {Join(RootOf(s), OpsDir(s) \o "/q.d.graphql.ts"), Join(RootOf(s), OpsDir(s) \o "/q.d.graphql.ts.map")})]

(* The documented shape of the `json` output (CLIOutput on the "CLI Usage" page): `error` exists when a command fails, `check` when  *)
(* the check command was run (generate implies check), `generate` when the generate command was run.                               *)
JsonKeys(s) ==
  LET x == Expected(s) IN
  (IF x.exit = 1 THEN {"error"} ELSE {})
  \cup (IF x.why \in {"ok", "no-schema-output"} THEN {"check"} ELSE {})
  \cup (IF x.why \in {"ok", "no-schema-output"} /\ s.commands = <<"generate">> THEN {"generate"} ELSE {})

(* design-level sanity, checked by TLC over all scenarios (MC_CliConfig) *)
SearchIsFirstMatch == \A s \in Scenarios : (s.explicit = "none" /\ s.present # {}) =>
                         \A k \in s.present : Chosen(s)[2] = SearchOrder[k] => \A j \in s.present : k <= j
ExplicitWins == \A s \in Scenarios : s.explicit = "custom" => Chosen(s)[2] = "custom"
FailureWritesNothing == \A s \in Scenarios : Expected(s).exit = 1 => Expected(s).written = {}
WritesStayUnderRoot == \A s \in Scenarios : \A w \in Expected(s).written :
                         RootOf(s) = "." \/ (Len(w) > 4 /\ SubSeq(w, 1, 4) = "sub/")
=============================================================================
