------------------------------ MODULE Gen_X01 ------------------------------
(* spec -> impl for CliConfig: one CASE per scenario.  Quick: every set of *)
(* <= 2 present names (and all seven) x --config-file with everything else *)
(* default, plus the full product of the other dimensions over two sets of *)
(* present names; thorough: the full product.                              *)
EXTENDS CliConfig, TLC, Json, SequencesExt
CONSTANT Full
VARIABLE s
Default(sc) == sc.schemaArg = "none" /\ sc.cfgSchema = "good" /\ ~sc.opArg /\ ~sc.outArg /\ sc.commands = <<"generate">>
Wanted(sc) == Full \/ (Default(sc) /\ (Cardinality(sc.present) <= 2 \/ sc.present = 1..NNames))
                   \/ sc.present \in {{}, {2}, {4, 6}}
Init == s \in {sc \in Scenarios : Wanted(sc)}
Next == UNCHANGED s
Emit == PrintT(<<"CASE", ToJson([present |-> SetToSeq(s.present), explicit |-> s.explicit, schemaArg |-> s.schemaArg,
                                 cfgSchema |-> s.cfgSchema, opArg |-> s.opArg, outArg |-> s.outArg, commands |-> s.commands])>>)
(* the design-level statements, evaluated once *)
ASSUME SearchIsFirstMatch /\ ExplicitWins /\ FailureWritesNothing /\ WritesStayUnderRoot
=============================================================================
