---------------------------- MODULE ExtMergeAlgo ----------------------------
(***************************************************************************)
(* Design-level state machine of nitrogql's extension resolver             *)
(* (crates/semantics/src/schema_extension_resolver): per-kind ordered      *)
(* registries keyed by name, fed item by item (set_original /              *)
(* add_extension), then checked for orphans in kind order and merged.      *)
(* The document is first built item by item by Gen_C11's builder, then     *)
(* resolved; TLC checks the outcome against ExtMerge!ResolveContract.      *)
(* Never a conformance oracle.                                             *)
(***************************************************************************)
EXTENDS Gen_C11
VARIABLES phase,
          pos,           \* next item to consume
          registry,      \* kind -> sequence of [name, original: Seq(item) (0 or 1), extensions: Seq(item)] in first-seen order
          directives,    \* directive definitions in order
          outcome        \* [k |-> "run"] | the final out record

evars == <<phase, pos, registry, directives, outcome>>
Doc == items
KindSet == {Kinds[i] : i \in DOMAIN Kinds}

EInit == GInit /\ phase = "build" /\ pos = 1 /\ registry = [k \in KindSet |-> <<>>] /\ directives = <<>> /\ outcome = [k |-> "run"]
Build == phase = "build" /\ GNext /\ UNCHANGED evars
Start == phase = "build" /\ phase' = "run" /\ UNCHANGED <<items, pos, registry, directives, outcome>>

Find(reg, name) == IF \E i \in DOMAIN reg : reg[i].name = name
                   THEN CHOOSE i \in DOMAIN reg : reg[i].name = name ELSE 0

SetOriginal(it) ==
  LET reg == registry[it.k] i == Find(reg, it.name) IN
  IF i # 0 /\ reg[i].original # <<>>
  THEN outcome' = [k |-> "err", at |-> reg[i].original[1].id, second |-> it.id] /\ UNCHANGED <<registry, directives>>
  ELSE /\ registry' = [registry EXCEPT ![it.k] =
                         IF i = 0 THEN Append(reg, [name |-> it.name, original |-> <<it>>, extensions |-> <<>>])
                         ELSE [reg EXCEPT ![i].original = <<it>>]]
       /\ UNCHANGED <<directives, outcome>>

AddExtension(it) ==
  LET reg == registry[it.k] i == Find(reg, it.name) IN
  /\ registry' = [registry EXCEPT ![it.k] =
                    IF i = 0 THEN Append(reg, [name |-> it.name, original |-> <<>>, extensions |-> <<it>>])
                    ELSE [reg EXCEPT ![i].extensions = Append(@, it)]]
  /\ UNCHANGED <<directives, outcome>>

Consume ==
  /\ phase = "run" /\ outcome.k = "run" /\ pos <= Len(Doc)
  /\ UNCHANGED <<phase, items>>
  /\ pos' = pos + 1
  /\ LET it == Doc[pos] IN
     IF it.k = "directive" THEN directives' = Append(directives, it) /\ UNCHANGED <<registry, outcome>>
     ELSE IF it.ext THEN AddExtension(it) ELSE SetOriginal(it)

MergeEntry(e) ==
  LET all == e.original \o e.extensions o == e.original[1] IN
  [k |-> o.k, name |-> o.name, id |-> o.id,
   dirs |-> ConcatComp(all, "dirs"), interfaces |-> ConcatComp(all, "interfaces"),
   fields |-> ConcatComp(all, "fields"), members |-> ConcatComp(all, "members"),
   values |-> ConcatComp(all, "values"), inputFields |-> ConcatComp(all, "inputFields"),
   ops |-> ConcatComp(all, "ops")]

(* first kind (in resolution order) that has an entry without original *)
FirstOrphan ==
  LET bad(k) == SelectSeq(registry[k], LAMBDA e : e.original = <<>>)
      ks == SelectSeq(Kinds, LAMBDA k : bad(k) # <<>>)
  IN IF ks = <<>> THEN 0 ELSE bad(ks[1])[1].extensions[1].id

RECURSIVE FlattenKinds(_)
FlattenKinds(i) == IF i > Len(Kinds) THEN <<>>
                   ELSE [j \in DOMAIN registry[Kinds[i]] |-> MergeEntry(registry[Kinds[i]][j])] \o FlattenKinds(i + 1)

Finish ==
  /\ phase = "run" /\ outcome.k = "run" /\ pos > Len(Doc)
  /\ UNCHANGED <<phase, items>>
  /\ outcome' = IF FirstOrphan # 0 THEN [k |-> "err", at |-> FirstOrphan]
                ELSE [k |-> "ok", defs |-> [i \in DOMAIN directives |-> Shape(directives[i])] \o FlattenKinds(1)]
  /\ UNCHANGED <<pos, registry, directives>>

ENext == Build \/ Start \/ Consume \/ Finish
ESpec == EInit /\ [][ENext]_<<items, evars>>

RegistryMeetsContract == outcome.k # "run" => ResolveContract(Doc, [k |-> outcome.k, at |-> IF outcome.k = "err" THEN outcome.at ELSE 0,
                                                                   defs |-> IF outcome.k = "ok" THEN outcome.defs ELSE <<>>])
NoExtensionSurvives   == outcome.k = "ok" => \A i \in DOMAIN outcome.defs : "ext" \notin DOMAIN outcome.defs[i]
=============================================================================
