------------------------- MODULE MC_MappingWriterAlgo -------------------------
EXTENDS MappingWriterAlgo, Json
MCChunks == {<<2>>, <<0, 0>>, <<1, 3>>, <<0>>}
MCNodes == {[file |-> 0, line |-> 1, col |-> 4, name |-> "ab", builtin |-> FALSE],
            [file |-> 1, line |-> 0, col |-> 2, name |-> "", builtin |-> FALSE],
            [file |-> 0, line |-> 3, col |-> 0, name |-> "cde", builtin |-> FALSE],
            [file |-> 0, line |-> 0, col |-> 0, name |-> "x", builtin |-> TRUE]}
(* generated files start with an unmapped line: the generator starts after `write("\n")` *)
InitAfterFirstLine == /\ lines = <<0, 0>> /\ indent = 0 /\ pending = TRUE /\ buf = <<>>
                      /\ lastGL = 0 /\ lastGC = 0 /\ lastOL = 0 /\ lastOC = 0 /\ lastName = 0 /\ lastFile = 0
                      /\ names = <<>> /\ cache = <<>> /\ entries = <<>> /\ calls = <<[op |-> "write", chunk |-> <<0, 0>>]>>
Emitting == FALSE
EmittingOn == TRUE
(* spec -> impl: one case per complete call sequence *)
Emit == (Emitting /\ Len(calls) = MaxCalls) => PrintT(<<"CASE", ToJson([calls |-> calls])>>)
=============================================================================
