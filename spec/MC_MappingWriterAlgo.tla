------------------------- MODULE MC_MappingWriterAlgo -------------------------
EXTENDS MappingWriterAlgo, Json
MCChunks == {<<2>>, <<0, 0>>, <<1, 3>>, <<0>>}
MCNodes == {[file |-> 0, line |-> 1, col |-> 4, name |-> "ab", builtin |-> FALSE],
            [file |-> 1, line |-> 0, col |-> 2, name |-> "", builtin |-> FALSE],
            [file |-> 0, line |-> 3, col |-> 0, name |-> "cde", builtin |-> FALSE],
            [file |-> 0, line |-> 0, col |-> 0, name |-> "x", builtin |-> TRUE]}
Emitting == FALSE
EmittingOn == TRUE
(* spec -> impl: one case per complete call sequence *)
Emit == (Emitting /\ Len(calls) = MaxCalls) => PrintT(<<"CASE", ToJson([calls |-> calls])>>)
=============================================================================
