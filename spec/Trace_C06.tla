----------------------------- MODULE Trace_C06 -----------------------------
(***************************************************************************)
(* impl -> spec for C06.                                                   *)
(*  "TypeGen" events: one run of the real `nitrogql generate` on a project *)
(*   (schema files, operation files with imports, a generate mode and      *)
(*   output directories); every .map written is decoded and judged by      *)
(*   SourceMapCheck!SegmentItems, and the declaring identifiers of schema  *)
(*   types / fields (every target namespace) and of operations / fragments *)
(*   (imported ones too) must carry a segment into the definition's        *)
(*   header.                                                               *)
(*  "Vlq" events: the implementation's base64 VLQ digits for a block of    *)
(*   integers; decoding them with SourceMap!DecodeSegment must give the    *)
(*   integers back.                                                        *)
(***************************************************************************)
EXTENDS SourceMapCheck, TsTypes, Json, IOUtils
Rec == ndJsonDeserialize(IOEnv.TRACE)
VARIABLE l
IsEvent(k) == l <= Len(Rec) /\ Rec[l].ev = k /\ l' = l + 1
Stat(s) == PrintT(<<"STAT", ToJson(s)>>)
Report(e, its) == \A it \in its : PrintT(<<"ITEM", ToJson([cls |-> it.cls, what |-> it.what, l |-> l, id |-> e.id, more |-> it.more])>>)

OutFor(e, path) == e.maps[CHOOSE i \in DOMAIN e.maps : e.maps[i].gen = path]
HasOutFor(e, path) == \E i \in DOMAIN e.maps : e.maps[i].gen = path
TypeKindsAll == {"scalar", "object", "interface", "union", "enum", "input"}
NsNames == {"__OperationInput", "__OperationOutput", "__ResolverInput", "__ResolverOutput"}

(* schema declaration file: every exported alias of a user-defined type, in every namespace, and every field key of its object literal *)
SchemaCoverage(e, out, dec) ==
  LET stmts == e.schemaTs.stmts
      userTypes == UNION {{e.inputs[i].ann[j].name : j \in {x \in DOMAIN e.inputs[i].ann : e.inputs[i].ann[x].k \in TypeKindsAll}} : i \in {x \in DOMAIN e.inputs : e.inputs[x].kind = "schema"}}
  IN UNION {UNION {
       LET d == ExportedMember(NamespaceBody(stmts, ns), "schema", ns, n) IN
       IF d.k # "decl" THEN {}
       ELSE (IF PointsInto(dec, out.map, out, e.inputs, d.stmt.line, d.stmt.col, HeaderPositions(e.inputs, TypeKindsAll, n)) THEN {}
             ELSE {SItem("declaration-not-mapped", "the identifier declaring a schema type carries no segment into the header of its definition", [ns |-> ns, type |-> n])})
            \cup (IF d.stmt.t.k # "obj" THEN {}
                  ELSE UNION {LET f == d.stmt.t.fs[i] IN
                              IF f.key = "__typename" THEN {}
                              ELSE IF PointsInto(dec, out.map, out, e.inputs, f.line, f.col,
                                                 MemberPositions(e.inputs, TypeKindsAll, n, "fields", "fieldNames", f.key)
                                                 \cup MemberPositions(e.inputs, TypeKindsAll, n, "inputFields", "inputFieldNames", f.key)) THEN {}
                              ELSE {SItem("field-not-mapped", "the key declaring a field carries no segment to the field's definition", [ns |-> ns, type |-> n, field |-> f.key])}
                              : i \in DOMAIN d.stmt.t.fs})
       : n \in userTypes} : ns \in {x \in NsNames : HasNamespace(stmts, x)}}

(* operation declaration file: for each expected definition at least one of its declaring identifiers is mapped into its header *)
OpCoverage(e, out, dec, opTs, expected) ==
  UNION {LET x == expected[i]
             decls == {s \in {opTs.stmts[k] : k \in DOMAIN opTs.stmts} : s.k \in {"type", "const"} /\ s.name \in {x.idents[m] : m \in DOMAIN x.idents}}
             wanted == HeaderPositions(e.inputs, {x.k}, x.name)
         IN IF decls = {} THEN {}
            ELSE IF \E s \in decls : PointsInto(dec, out.map, out, e.inputs, s.line, s.col, wanted) THEN {}
            ELSE {SItem("declaration-not-mapped", "no identifier declaring this operation / fragment carries a segment into the header of its definition", [def |-> x.name, file |-> out.gen])}
         : i \in DOMAIN expected}

TGen ==
  /\ IsEvent("TypeGen")
  /\ LET e == Rec[l] IN
     IF e.panicked THEN Report(e, {SItem("panic", "generate panicked", [diag |-> e.diag])})
     ELSE IF e.exit # 0 THEN Report(e, {SItem("generate-failed", "generate failed on a valid project", [diag |-> e.diag])})
     ELSE LET segIts == UNION {IF e.maps[i].map.k # "ok" THEN {SItem("map-" \o e.maps[i].map.k, "the map file is not a well-formed Source Map v3 JSON object", [gen |-> e.maps[i].gen])}
                               ELSE SegmentItems(e.maps[i], e.inputs) : i \in DOMAIN e.maps}
              schemaOut == e.expect.schemaGen
              covS == IF e.schemaTs.k = "ok" /\ HasOutFor(e, schemaOut) /\ OutFor(e, schemaOut).map.k = "ok"
                      THEN LET out == OutFor(e, schemaOut) dec == DecodeMappings(out.map.mappings) IN IF dec.ok THEN SchemaCoverage(e, out, dec) ELSE {}
                      ELSE {SItem("schema-map-missing", "no source map (or declaration) for the schema declaration file", [gen |-> schemaOut])}
              covO == UNION {LET x == e.expect.ops[i] IN
                             IF e.opTs[i].k = "ok" /\ HasOutFor(e, x.gen) /\ OutFor(e, x.gen).map.k = "ok"
                             THEN LET out == OutFor(e, x.gen) dec == DecodeMappings(out.map.mappings) IN IF dec.ok THEN OpCoverage(e, out, dec, e.opTs[i], x.defs) ELSE {}
                             ELSE {SItem("operation-map-missing", "no source map (or declaration) for an operation declaration file", [gen |-> x.gen])}
                             : i \in DOMAIN e.expect.ops}
          IN /\ Report(e, segIts \cup covS \cup covO)
             /\ Stat([l |-> l, ok |-> (segIts \cup covS \cup covO = {}), maps |-> Len(e.maps),
                      segments |-> LET RECURSIVE Cnt(_) Cnt(i) == IF i > Len(e.maps) THEN 0 ELSE
                                           (IF e.maps[i].map.k = "ok" THEN LET d == DecodeMappings(e.maps[i].map.mappings) IN
                                                IF d.ok THEN LET RECURSIVE C2(_) C2(g) == IF g > Len(d.lines) THEN 0 ELSE Len(d.lines[g]) + C2(g + 1) IN C2(1) ELSE 0 ELSE 0) + Cnt(i + 1)
                                   IN Cnt(1)])

TVlq ==
  /\ IsEvent("Vlq")
  /\ LET e == Rec[l]
         bad == {i \in DOMAIN e.nums : LET d == DecodeSegment([k \in DOMAIN e.digits[i] |-> B64(e.digits[i][k])]) IN ~d.ok \/ d.vals # <<e.nums[i]>>}
     IN /\ (bad = {} \/ PrintT(<<"ITEM", ToJson([cls |-> "vlq", what |-> "the emitted VLQ digits do not decode to the encoded integer", l |-> l, id |-> e.id,
                                                  more |-> [n |-> e.nums[CHOOSE i \in bad : TRUE]]])>>))
        /\ Stat([l |-> l, vlq |-> Len(e.nums)])
(* Integers beyond TLC's 32 bits (the isize boundaries): judged digit by digit, without ever forming the number.  A VLQ is a sequence   *)
(* of base64 digits whose values g1..gk (0..63) satisfy: bit 5 (32) is set on all but the last; bit 0 of g1 is the sign; bits 1..4 of   *)
(* g1 are the low 4 bits of the magnitude; the low 5 bits of g2..gk are the remaining magnitude in base 32, least significant first.   *)
TVlqBig ==
  /\ IsEvent("VlqBig")
  /\ LET e == Rec[l]
         Ok(it) == LET g == [k \in DOMAIN it.digits |-> B64(it.digits[k])] n == Len(g) IN
                   /\ ~it.panicked /\ n >= 1 /\ \A k \in 1..n : g[k] >= 0
                   /\ \A k \in 1..n : (g[k] \div 32 = 1) <=> (k < n)
                   /\ (g[1] % 2 = 1) <=> (it.neg /\ (it.low4 # 0 \/ it.groups # <<>>))          \* "-0" does not occur for a non-zero number
                   /\ (g[1] % 32) \div 2 = it.low4
                   /\ n - 1 = Len(it.groups)
                   /\ \A k \in 2..n : g[k] % 32 = it.groups[k - 1]
         bad == {i \in DOMAIN e.items : ~Ok(e.items[i])}
     IN /\ (bad = {} \/ PrintT(<<"ITEM", ToJson([cls |-> "vlq", what |-> "the emitted VLQ digits do not decode to the encoded integer", l |-> l, id |-> e.id,
                                                  more |-> [n |-> e.items[CHOOSE i \in bad : TRUE].text]])>>))
        /\ Stat([l |-> l, vlq |-> Len(e.items)])
(* "Writer" events: a call sequence generated by TLC from MappingWriterAlgo.tla, replayed into the real SourceWriter.  Judged by   *)
(* what the property needs, not by the algorithm model: the mappings decode; the decoded segments are, in order, the entries the   *)
(* calls ask for (file, original line / column, name; a named node also closes its range just past its name); a named opening       *)
(* segment sits where its chunk starts in the text, any segment sits inside the text and not after its chunk's start.               *)
RECURSIVE ExpectedEntries(_, _, _)
ExpectedEntries(calls, i, k) ==       \* k: index into out.starts of the next non-builtin write_for
  IF i > Len(calls) THEN <<>>
  ELSE LET c == calls[i] IN
       IF c.op = "write_for" /\ ~c.node.builtin
       THEN (IF c.node.name # ""
             THEN <<[file |-> c.node.file, ol |-> c.node.line, oc |-> c.node.col, name |-> c.node.name, start |-> k, opening |-> TRUE],
                    [file |-> c.node.file, ol |-> c.node.line, oc |-> c.node.col + Len(c.node.name), name |-> "", start |-> 0, opening |-> FALSE]>>
             ELSE <<[file |-> c.node.file, ol |-> c.node.line, oc |-> c.node.col, name |-> "", start |-> k, opening |-> TRUE]>>)
            \o ExpectedEntries(calls, i + 1, k + 1)
       ELSE ExpectedEntries(calls, i + 1, k)
RECURSIVE FlatSegs(_, _)
FlatSegs(lines, g) == IF g > Len(lines) THEN <<>> ELSE [k \in DOMAIN lines[g] |-> [gl |-> g - 1] @@ lines[g][k]] \o FlatSegs(lines, g + 1)

TWriter ==
  /\ IsEvent("Writer")
  /\ LET e == Rec[l]
         want == ExpectedEntries(e.calls, 1, 1)
     IN IF e.out.k = "panic" THEN Report(e, {SItem("panic", "the source writer panicked", [calls |-> e.calls, msg |-> e.out.msg])})
        ELSE LET dec == DecodeMappings(e.out.mappings) IN
             IF want = <<>> THEN Stat([l |-> l, writer |-> "no-entries"])
             ELSE IF ~dec.ok
                  THEN (IF e.out.starts[1][1] = 0
                        (* precondition of the writer (MappingWriterAlgo!FirstEntryNotOnLine0): emitted files begin with an unmapped line *)
                        THEN Stat([l |-> l, writer |-> "first-entry-on-line-0"])
                        ELSE Report(e, {SItem("undecodable", "the mappings of a replayed call sequence do not decode", [calls |-> e.calls, why |-> dec.why])}))
             ELSE LET got == FlatSegs(dec.lines, 1)
                      bad == IF Len(got) # Len(want) THEN {0}
                             ELSE {i \in DOMAIN want :
                                     \/ got[i].n < 4 \/ got[i].src # want[i].file \/ got[i].line # want[i].ol \/ got[i].col # want[i].oc
                                     \/ (want[i].name # "") # (got[i].n = 5)
                                     \/ (got[i].n = 5 /\ (got[i].name < 0 \/ got[i].name >= Len(e.out.names) \/ e.out.names[got[i].name + 1] # want[i].name))
                                     \/ got[i].gl + 1 \notin DOMAIN e.out.lineLens \/ got[i].genCol > e.out.lineLens[got[i].gl + 1]
                                     \* a named opening sits exactly where its chunk's first character is (when the chunk has one)
                                     \/ (want[i].opening /\ want[i].name # "" /\ e.out.starts[want[i].start][3] = 1
                                         /\ <<got[i].gl, got[i].genCol>> # <<e.out.starts[want[i].start][1], e.out.starts[want[i].start][2]>>)
                                     \* an unnamed opening is on the chunk's line and not after its start
                                     \/ (want[i].opening /\ want[i].name = "" /\ e.out.starts[want[i].start][3] = 1
                                         /\ ~(got[i].gl = e.out.starts[want[i].start][1] /\ got[i].genCol <= e.out.starts[want[i].start][2]))}
                  IN /\ (bad = {} \/ Report(e, {SItem("writer-entries", "the decoded segments of a replayed call sequence are not the entries the calls ask for",
                                                       [calls |-> e.calls, first |-> CHOOSE i \in bad : TRUE, decoded |-> got, expected |-> want, starts |-> e.out.starts])}))
                     /\ Stat([l |-> l, writer |-> "judged", entries |-> Len(want)])
Init == l = 1
Next == TGen \/ TVlq \/ TVlqBig \/ TWriter
Spec == Init /\ [][Next]_l
Done == PrintT(<<"DONE", ToJson([consumed |-> TLCGet("stats").diameter - 1])>>)
=============================================================================
