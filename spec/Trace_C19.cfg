SPECIFICATION Spec
INVARIANT Inv
POSTCONDITION Done
CHECK_DEADLOCK FALSE
