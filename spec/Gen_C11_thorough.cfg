CONSTANTS
  MaxItems = 4
  MaxFiles = 3
  Emitting = TRUE
INIT GInit
NEXT GNext
INVARIANT Emit
CHECK_DEADLOCK FALSE
