------------------------------ MODULE Gen_C03 ------------------------------
(* spec -> impl for C03: the fault-injection space: (base document, fault   *)
(* operator, site).  bin/props/c03.py applies the operator to the abstract  *)
(* base document; Validate.tla independently confirms that the result       *)
(* violates an implemented rule (otherwise the case is discarded).          *)
EXTENDS Naturals, TLC, Json
CONSTANTS NDocs, NOperators, MaxSite
VARIABLES doc, operator, site
Init == doc \in 1..NDocs /\ operator \in 1..NOperators /\ site \in 0..MaxSite
Next == UNCHANGED <<doc, operator, site>>
Emit == PrintT(<<"CASE", ToJson([doc |-> doc, operator |-> operator, site |-> site])>>)
=============================================================================
