----------------------------- MODULE MC_Nitrogql -----------------------------
EXTENDS Nitrogql, Json, SequencesExt
CONSTANTS MaxSchema, MaxOps, MaxFaults, Emitting
FaultCount(p) == LET RECURSIVE S(_, _) S(s, i) == IF i > Len(s) THEN 0 ELSE Cardinality(s[i]) + S(s, i + 1)
                 IN S(p.schema, 1) + S(p.ops, 1)
Seqs(S, lo, hi) == UNION {[1..n -> S] : n \in lo..hi}
Projects == {p \in [schema : Seqs(SUBSET SchemaFaults, 1, MaxSchema), ops : Seqs(SUBSET OpFaults, 0, MaxOps),
                    commands : {<<"check">>, <<"generate">>, <<"check", "generate">>, <<"generate", "check">>},
                    gen : SUBSET {"resolvers", "server", "noschema", "runtime", "runtimeDts"}] :
               /\ FaultCount(p) <= MaxFaults
               \* optional outputs are varied where they can matter: generate requested, at most one fault
               /\ (p.gen # {} => (FaultCount(p) <= 1 /\ p.commands \in {<<"generate">>, <<"check", "generate">>}))
               \* a configuration without schemaOutput is only interesting together with the server schema output, on a fault-free project
               /\ ("noschema" \in p.gen => (p.gen \cap {"server", "resolvers"} # {} /\ FaultCount(p) = 0))
               \* a project without operation documents (server side only): fault-free schema, every combination of the outputs
               /\ (Len(p.ops) = 0 => FaultCount(p) = 0)
               \* emitSchemaRuntime: into a .ts schema output (fine) or into a .d.ts one (rejected); not combined with the other variations
               /\ ("runtime" \in p.gen => p.gen \subseteq {"runtime", "resolvers"})
               /\ ("runtimeDts" \in p.gen => (p.gen \subseteq {"runtimeDts", "resolvers"} /\ FaultCount(p) = 0))}
MCInit == PInit(Projects)
MCLiveSpec == PLiveSpec(Projects)
(* spec -> impl: one case per project, with every terminal outcome the model allows left to the trace spec *)
Emit == (Emitting /\ stage = "loadSchema") =>
          PrintT(<<"CASE", ToJson([schema |-> [i \in DOMAIN P.schema |-> SetToSeq(P.schema[i])],
                                   ops |-> [i \in DOMAIN P.ops |-> SetToSeq(P.ops[i])], commands |-> P.commands, gen |-> SetToSeq(P.gen)])>>)
=============================================================================
