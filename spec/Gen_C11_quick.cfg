CONSTANTS
  MaxItems = 3
  MaxFiles = 2
  Emitting = TRUE
INIT GInit
NEXT GNext
INVARIANT Emit
CHECK_DEADLOCK FALSE
