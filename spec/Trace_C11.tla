----------------------------- MODULE Trace_C11 -----------------------------
(* impl -> spec for C11: each recorded resolve_schema_extensions call (items *)
(* rendered to SDL, split into files, parsed by the real parser with the    *)
(* CLI's file indexing, concatenated and resolved) is judged by             *)
(* ExtMerge!ResolveContract.                                                *)
EXTENDS ExtMerge, Json, IOUtils
Rec == ndJsonDeserialize(IOEnv.TRACE)
VARIABLE l
IsEvent(k) == l <= Len(Rec) /\ Rec[l].ev = k /\ l' = l + 1
Report(its) == \A i \in DOMAIN its : PrintT(<<"ITEM", ToJson(its[i])>>)

Names(s)  == [i \in DOMAIN s |-> s[i].name]
NNames(s) == [i \in DOMAIN s |-> s[i].n]
OutShape(d) ==
  [k |-> d.k, name |-> IF d.k = "schema" THEN "" ELSE d.name, id |-> d.id,
   dirs |-> IF d.k = "directive" THEN <<>> ELSE Names(d.dirs),
   interfaces |-> IF d.k \in {"object", "interface"} THEN NNames(d.interfaces) ELSE <<>>,
   fields |-> IF d.k \in {"object", "interface"} THEN Names(d.fields) ELSE <<>>,
   members |-> IF d.k = "union" THEN NNames(d.members) ELSE <<>>,
   values |-> IF d.k = "enum" THEN Names(d.values) ELSE <<>>,
   inputFields |-> IF d.k = "input" THEN Names(d.inputFields) ELSE <<>>,
   ops |-> IF d.k = "schema" THEN [i \in DOMAIN d.ops |-> <<d.ops[i].op, d.ops[i].type>>] ELSE <<>>]

(* JSON gives ops as 2-element arrays = tuples already *)
InItems(e) == e.items

Expected(doc) == IF RefFails(doc) THEN [k |-> "err", at |-> SetToSeq(Offenders(doc))]
                 ELSE [k |-> "ok", defs |-> SetToSeq(RefResult(doc))]
Item(cls, what, e) == [cls |-> cls, what |-> what, l |-> l, event |-> e, expected |-> Expected(InItems(e))]

TResolve ==
  /\ IsEvent("ResolveSchema")
  /\ LET e == Rec[l]
         doc == InItems(e)
         out == IF e.out.k = "ok" THEN [k |-> "ok", at |-> 0, defs |-> [i \in DOMAIN e.out.defs |-> OutShape(e.out.defs[i])]]
                ELSE IF e.out.k = "err" THEN [k |-> "err", at |-> e.out.at, defs |-> <<>>]
                ELSE [k |-> e.out.k, at |-> 0, defs |-> <<>>]
     IN Report(
          IF e.out.k = "panic" THEN <<Item("panic", "extension resolution panicked", e)>>
          ELSE IF e.out.k = "ok" /\ \E i \in DOMAIN e.out.defs : e.out.defs[i].k # "directive" /\ e.out.defs[i].ext
               THEN <<Item("extension-survives", "an `extend` item is still present after resolution", e)>>
          ELSE IF ResolveContract(doc, out) THEN <<>>
          ELSE IF RefFails(doc) /\ out.k = "ok"
               THEN <<Item("missed-failure", "duplicate definition or orphan extension accepted", e)>>
          ELSE IF ~RefFails(doc) /\ out.k = "err"
               THEN <<Item("spurious-failure", "resolution failed on a document with neither duplicate nor orphan", e)>>
          ELSE IF out.k = "err"
               THEN <<Item("misplaced-diagnostic", "the diagnostic does not point at an offending item", e)>>
          ELSE IF \E i \in DOMAIN out.defs : CountOf(out.defs, out.defs[i]) > 1
               THEN <<Item("duplicate-definition", "a definition appears twice in the result", e)>>
          ELSE <<Item("merge", "a merged definition is not original ++ extensions (component lost, invented or reordered)", e)>>)

Init == l = 1
Next == TResolve
Spec == Init /\ [][Next]_l
Done == PrintT(<<"DONE", ToJson([consumed |-> TLCGet("stats").diameter - 1])>>)
=============================================================================
