----------------------------- MODULE Trace_C10 -----------------------------
(***************************************************************************)
(* impl -> spec for C10: each event is one run of the real                 *)
(* `nitrogql generate` on a valid schema (abstract items rendered to SDL   *)
(* files) under one configuration; the emitted schema declaration file and *)
(* resolvers declaration file, read syntactically by the harness, are      *)
(* judged against SchemaDecl.tla.                                          *)
(***************************************************************************)
EXTENDS SchemaDecl, Json, IOUtils
Rec == ndJsonDeserialize(IOEnv.TRACE)
VARIABLE l
IsEvent(k) == l <= Len(Rec) /\ Rec[l].ev = k /\ l' = l + 1
Stat(s) == PrintT(<<"STAT", ToJson(s)>>)
RECURSIVE CatFiles(_, _)
CatFiles(files, i) == IF i > Len(files) THEN <<>> ELSE files[i].items \o CatFiles(files, i + 1)
Report(e, its) == \A it \in its : PrintT(<<"ITEM", ToJson([cls |-> it.cls, what |-> it.what, l |-> l, id |-> e.id, more |-> it.more])>>)

TGen ==
  /\ IsEvent("TypeGen")
  /\ LET e == Rec[l]
         S == MergeItems(CatFiles(e.schemaFiles, 1))
         cfg == [allowUndefined |-> e.cfg.allowUndefined, scalars |-> e.scalars, modelPlugin |-> e.cfg.modelPlugin, modelTypes |-> e.modelTypes, runtime |-> e.cfg.runtime]
     IN IF e.panicked THEN Report(e, {Item("panic", "generate panicked", [diag |-> e.diag])})
        ELSE IF e.exit # 0 THEN Report(e, {Item("generate-failed", "generate failed on a valid schema", [diag |-> e.diag])})
        ELSE IF e.schemaTs.k # "ok" THEN Report(e, {Item("schema-dts-" \o e.schemaTs.k, "the schema declaration file is missing or not well-formed", [why |-> IF e.schemaTs.k = "unreadable" THEN e.schemaTs.why ELSE ""])})
        ELSE LET env == [schema |-> e.schemaTs.stmts, local |-> e.schemaTs.stmts, schemaNs |-> ""]
                 its1 == SchemaDeclItems(S, cfg, env) \cup EnumRuntimeItems(S, cfg, e.schemaTs.stmts)
                 its2 == IF ~e.want.resolvers THEN {}
                         ELSE IF e.resolversTs.k # "ok" THEN {Item("resolvers-dts-" \o e.resolversTs.k, "the resolvers declaration file is missing or not well-formed", [why |-> IF e.resolversTs.k = "unreadable" THEN e.resolversTs.why ELSE ""])}
                         ELSE ResolversItems(S, cfg, [schema |-> e.schemaTs.stmts, local |-> e.resolversTs.stmts, schemaNs |-> e.resolversTs.schemaNs], ExcludedResolvers(S, cfg))
             IN /\ Report(e, its1 \cup its2)
                /\ Stat([l |-> l, ok |-> (its1 \cup its2 = {}), types |-> Cardinality(UserTypeNames(S)), atoms |-> Cardinality(Atoms(S, cfg))])
Init == l = 1
Next == TGen
Spec == Init /\ [][Next]_l
Done == PrintT(<<"DONE", ToJson([consumed |-> TLCGet("stats").diameter - 1])>>)
=============================================================================
