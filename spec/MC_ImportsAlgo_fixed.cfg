CONSTANTS
  MaxLines = 2
  Reduced = TRUE
  Variant = "fixed"
INIT AInit
NEXT ANext
INVARIANT AlgoMeetsContract
CHECK_DEADLOCK FALSE
