CONSTANTS
  MaxLines = 2
  Reduced = TRUE
  Variant = "fixed"
SPECIFICATION ALiveSpec
PROPERTY Terminates
CHECK_DEADLOCK FALSE
