-------------------------------- MODULE Doc --------------------------------
(***************************************************************************)
(* Abstract executable documents (shape: harness/ABSTRACT_JSON.md).        *)
(* Normal forms that drop positions and rendering hints, fragment spread   *)
(* closure, and the runtime document of an operation or fragment (C12).    *)
(***************************************************************************)
EXTENDS Imports

RECURSIVE NType(_)
NType(t) == CASE t.k = "named" -> [k |-> "named", n |-> t.n]
              [] t.k = "list"  -> [k |-> "list", of |-> NType(t.of)]
              [] t.k = "nn"    -> [k |-> "nn", of |-> NType(t.of)]

RECURSIVE NValue(_)
NValue(v) == CASE v.k \in {"int", "float", "enum"} -> [k |-> v.k, v |-> v.v]
               [] v.k = "string" -> [k |-> "string", cp |-> v.cp]      \* the decoded value; block-ness is presentation
               [] v.k = "bool"   -> [k |-> "bool", v |-> v.v]
               [] v.k = "null"   -> [k |-> "null"]
               [] v.k = "var"    -> [k |-> "var", n |-> v.n]
               [] v.k = "list"   -> [k |-> "list", vs |-> [i \in DOMAIN v.vs |-> NValue(v.vs[i])]]
               [] v.k = "object" -> [k |-> "object", fs |-> [i \in DOMAIN v.fs |-> [name |-> v.fs[i].name, v |-> NValue(v.fs[i].v)]]]

NArgs(a) == [i \in DOMAIN a |-> [name |-> a[i].name, v |-> NValue(a[i].v)]]
NDirs(d) == [i \in DOMAIN d |-> [name |-> d[i].name, args |-> NArgs(d[i].args)]]

RECURSIVE NSel(_)
NSel(s) == [i \in DOMAIN s |->
  CASE s[i].k = "field"  -> [k |-> "field", hasAlias |-> s[i].hasAlias, alias |-> IF s[i].hasAlias THEN s[i].alias ELSE "",
                             name |-> s[i].name, args |-> NArgs(s[i].args), dirs |-> NDirs(s[i].dirs),
                             hasSel |-> s[i].hasSel, sel |-> IF s[i].hasSel THEN NSel(s[i].sel) ELSE <<>>]
    [] s[i].k = "spread" -> [k |-> "spread", name |-> s[i].name, dirs |-> NDirs(s[i].dirs)]
    [] s[i].k = "inline" -> [k |-> "inline", hasOn |-> s[i].hasOn, on |-> IF s[i].hasOn THEN s[i].on ELSE "",
                             dirs |-> NDirs(s[i].dirs), sel |-> NSel(s[i].sel)]]

NVars(vs) == [i \in DOMAIN vs |-> [name |-> vs[i].name, type |-> NType(vs[i].type), hasDefault |-> vs[i].hasDefault,
                                   default |-> IF vs[i].hasDefault THEN NValue(vs[i].default) ELSE [k |-> "null"],
                                   dirs |-> NDirs(vs[i].dirs)]]

NDef(d) == CASE d.k = "op"   -> [k |-> "op", opType |-> d.opType, hasName |-> d.hasName, name |-> IF d.hasName THEN d.name ELSE "",
                                 vars |-> NVars(d.vars), dirs |-> NDirs(d.dirs), sel |-> NSel(d.sel)]
             [] d.k = "frag" -> [k |-> "frag", name |-> d.name, on |-> d.on, dirs |-> NDirs(d.dirs), sel |-> NSel(d.sel)]

(* names of the fragments spread anywhere inside a selection set *)
RECURSIVE SpreadsIn(_)
SpreadsIn(s) == UNION {CASE s[i].k = "spread" -> {s[i].name}
                         [] s[i].k = "inline" -> SpreadsIn(s[i].sel)
                         [] s[i].k = "field"  -> IF s[i].hasSel THEN SpreadsIn(s[i].sel) ELSE {}
                       : i \in DOMAIN s}

(* frs: fragment name -> definition *)
RECURSIVE SpreadClosureFrom(_, _)
SpreadClosureFrom(frs, S) ==
  LET N == S \cup UNION {SpreadsIn(frs[n].sel) : n \in S \cap DOMAIN frs}
  IN IF N = S THEN S ELSE SpreadClosureFrom(frs, N)
SpreadClosure(frs, x) == SpreadClosureFrom(frs, SpreadsIn(x.sel))

(* file descriptor (Imports.tla) of an abstract document *)
ExecDefs(doc) == SelectSeq(doc.defs, LAMBDA d : d.k # "import")
DescOf(doc) ==
  LET imps == SelectSeq(doc.defs, LAMBDA d : d.k = "import")
      frs == SelectSeq(doc.defs, LAMBDA d : d.k = "frag")
      ops == SelectSeq(doc.defs, LAMBDA d : d.k = "op")
  IN [ok |-> TRUE,
      imports |-> [i \in DOMAIN imps |-> [spec |-> imps[i].spec, wild |-> imps[i].wild, names |-> imps[i].names]],
      frags |-> [i \in DOMAIN frs |-> [name |-> frs[i].name, spreads |-> <<>>]],
      ops |-> [i \in DOMAIN ops |-> [name |-> IF ops[i].hasName THEN ops[i].name ELSE "", spreads |-> <<>>]]]

(* C12: the document embedded for definition x of a resolved document with fragments frs.     *)
(* out: sequence of normalised definitions read back from the emitted graphql-js JSON.         *)
RuntimeDocContract(frs, x, out) ==
  LET need == SpreadClosure(frs, x) \ (IF x.k = "frag" THEN {x.name} ELSE {})
      rest == SubSeq(out, 2, Len(out))
  IN /\ Len(out) >= 1 /\ out[1] = NDef(x)
     /\ need \subseteq DOMAIN frs
     /\ NoDup(rest)
     /\ Range(rest) = {NDef(frs[n]) : n \in need}
=============================================================================
