---------------------------- MODULE PipelineTrace ----------------------------
(***************************************************************************)
(* Trace validation of ONE run of the CLI against the pipeline             *)
(* specification (Nitrogql.tla), at the grain of its stages.  The          *)
(* cfg(nitrogql_verif) hook of the CLI logs one event per stage, at the    *)
(* stage's linearisation point (a sequential program: the point where the  *)
(* stage has produced its outcome); the project p (with its ground-truth   *)
(* faults) is known, so every event must be the one enabled step of the    *)
(* model.  Replay(p, evs) walks the events and returns the first event the *)
(* model does not allow.                                                   *)
(*                                                                         *)
(* Events (already mapped to model identities by the harness):             *)
(*   parseSchemaStart(i) parseSchemaOk(i) schemaLoaded                     *)
(*   parseOpStart(j) parseOpOk(j)                                          *)
(*   command(name) checkStart schemaResolved opsResolved checkOk checkErr  *)
(*   generateStart write(out) exit(code)                                   *)
(* A parse failure shows as a Start without Ok (the hook is add-only and   *)
(* the failing path returns early).                                        *)
(***************************************************************************)
EXTENDS Nitrogql

HasSchemaFault(p, f) == \E i \in DOMAIN p.schema : f \in p.schema[i]
HasOpFault(p, f) == \E j \in DOMAIN p.ops : f \in p.ops[j]
SchemaStageFails(p) == HasSchemaFault(p, "ext") \/ HasSchemaFault(p, "check")
ImportStageFails(p) == HasOpFault(p, "import")
OpsCheckFails(p) == HasOpFault(p, "check") \/ HasOpFault(p, "libcheck") \/ HasOpFault(p, "libvar")
(* outputs whose writing is traced: everything but the source-map files *)
TracedOutputs(p) == {o \in OutputsOf(p) : o[1] \in {"schemaTypes", "opTypes", "resolvers", "server"}}

S0 == [phase |-> "loadSchema", next |-> 1, pend |-> 0, started |-> {}, parsed |-> {}, ci |-> 0, cur |-> "", sub |-> "idle",
       checked |-> FALSE, gen |-> FALSE, failed |-> FALSE, written |-> {}]
Bad(i, why) == [ok |-> FALSE, at |-> i, why |-> why]

(* a command that ran to its end leaves this behind *)
Completed(p, st) ==
  st.ci = 0 \/ st.failed \/
  (st.sub = "idle" /\ (st.cur = "generate" => (st.gen /\ st.written = TracedOutputs(p))))

RECURSIVE Replay(_, _, _, _)
Replay(p, evs, i, st) ==
  IF i > Len(evs) THEN (IF st.phase = "exited" THEN [ok |-> TRUE, at |-> i, why |-> ""] ELSE Bad(i, "the run ended without an exit event"))
  ELSE LET e == evs[i] k == e.stage IN
  IF st.phase = "exited" THEN Bad(i, "an event after exit")
  ELSE IF k = "parseSchemaStart" THEN
       (IF st.phase = "loadSchema" /\ st.pend = 0 /\ e.i = st.next /\ e.i \in DOMAIN p.schema
        THEN Replay(p, evs, i + 1, [st EXCEPT !.pend = e.i]) ELSE Bad(i, "schema files are parsed one by one, in order, before anything else"))
  ELSE IF k = "parseSchemaOk" THEN
       (IF st.phase = "loadSchema" /\ st.pend = e.i /\ "parse" \notin p.schema[e.i]
        THEN Replay(p, evs, i + 1, [st EXCEPT !.pend = 0, !.next = e.i + 1]) ELSE Bad(i, "a schema file with a syntax error was parsed successfully (or out of turn)"))
  ELSE IF k = "schemaLoaded" THEN
       (IF st.phase = "loadSchema" /\ st.pend = 0 /\ st.next = Len(p.schema) + 1
        THEN Replay(p, evs, i + 1, [st EXCEPT !.phase = "loadOps"]) ELSE Bad(i, "schema loading ended before every schema file was parsed"))
  ELSE IF k = "parseOpStart" THEN
       (IF st.phase = "loadOps" /\ st.ci = 0 /\ e.j \in DOMAIN p.ops /\ e.j \notin st.started
        THEN Replay(p, evs, i + 1, [st EXCEPT !.started = @ \cup {e.j}]) ELSE Bad(i, "operation files are parsed after the schema and before any command, each once"))
  ELSE IF k = "parseOpOk" THEN
       (IF st.phase = "loadOps" /\ e.j \in st.started /\ "parse" \notin p.ops[e.j]
        THEN Replay(p, evs, i + 1, [st EXCEPT !.parsed = @ \cup {e.j}]) ELSE Bad(i, "an operation file with a syntax error was parsed successfully"))
  ELSE IF k = "command" THEN
       (IF /\ st.phase = "loadOps" /\ st.started = DOMAIN p.ops /\ st.parsed = DOMAIN p.ops       \* every operation file parsed: all syntax errors are collected first
           /\ ~st.failed /\ Completed(p, st)
           /\ st.ci + 1 \in DOMAIN p.commands /\ e.name = p.commands[st.ci + 1]
        THEN Replay(p, evs, i + 1, [st EXCEPT !.ci = @ + 1, !.cur = e.name, !.sub = "idle", !.gen = FALSE])
        ELSE Bad(i, "a command started although loading failed, the previous command failed or did not finish, or out of order"))
  ELSE IF k = "checkStart" THEN
       (IF st.ci > 0 /\ ~st.failed /\ st.sub = "idle" /\ ~st.checked /\ ~st.gen
        THEN Replay(p, evs, i + 1, [st EXCEPT !.sub = "checking"]) ELSE Bad(i, "check ran twice, or outside a command"))
  ELSE IF k = "schemaResolved" THEN
       (IF st.sub = "checking" /\ ~SchemaStageFails(p)
        THEN Replay(p, evs, i + 1, [st EXCEPT !.sub = "schemaResolved"]) ELSE Bad(i, "the schema stage passed although the schema has an extension / type-system fault"))
  ELSE IF k = "opsResolved" THEN
       (IF st.sub = "schemaResolved" /\ ~ImportStageFails(p)
        THEN Replay(p, evs, i + 1, [st EXCEPT !.sub = "opsResolved"]) ELSE Bad(i, "import resolution passed although an import is dangling"))
  ELSE IF k = "checkOk" THEN
       (IF st.sub = "opsResolved" /\ ~OpsCheckFails(p)
        THEN Replay(p, evs, i + 1, [st EXCEPT !.sub = "idle", !.checked = TRUE]) ELSE Bad(i, "check succeeded although an operation has a fault"))
  ELSE IF k = "checkErr" THEN
       (IF \/ (st.sub = "checking" /\ SchemaStageFails(p))
           \/ (st.sub = "schemaResolved" /\ ImportStageFails(p))
           \/ (st.sub = "opsResolved" /\ OpsCheckFails(p))
        THEN Replay(p, evs, i + 1, [st EXCEPT !.sub = "idle", !.failed = TRUE]) ELSE Bad(i, "check failed at a stage that has no fault"))
  ELSE IF k = "generateStart" THEN
       (IF st.cur = "generate" /\ ~st.failed /\ st.sub = "idle" /\ st.checked /\ ~st.gen
        THEN Replay(p, evs, i + 1, [st EXCEPT !.gen = TRUE]) ELSE Bad(i, "generation started without a clean check before it"))
  ELSE IF k = "write" THEN
       (IF st.gen /\ ~st.failed /\ ~BadGenConfig(p) /\ e.out \in TracedOutputs(p) /\ e.out \notin st.written
        THEN Replay(p, evs, i + 1, [st EXCEPT !.written = @ \cup {e.out}]) ELSE Bad(i, "a file was written outside a generate that follows a clean check, or twice, or one the project does not produce"))
  ELSE IF k = "exit" THEN
       (IF e.code = Expected(p).exit /\ (e.code = 0 => (st.ci = Len(p.commands) /\ ~st.failed /\ st.pend = 0 /\ Completed(p, st)))
        THEN Replay(p, evs, i + 1, [st EXCEPT !.phase = "exited"]) ELSE Bad(i, "exit status does not fit the stages that ran"))
  ELSE Bad(i, "unknown stage event")
=============================================================================
