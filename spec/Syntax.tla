------------------------------- MODULE Syntax -------------------------------
(***************************************************************************)
(* Concrete syntax of abstract documents (shape: ABSTRACT_JSON.md):        *)
(*   Flatten*  : abstract document -> the canonical token sequence it is   *)
(*               written as (GraphQL grammar, sections 2.2 - 3.13);        *)
(*   NTs*      : normal forms of type-system documents (positions and      *)
(*               rendering hints dropped) - Doc.tla has the executable     *)
(*               ones;                                                      *)
(* A flattened token is [k |-> "t", s |-> STRING] (names, keywords,        *)
(* punctuators, numbers as written) or [k |-> "s", val |-> code points]    *)
(* (a string literal, identified by its VALUE, whatever its spelling).     *)
(***************************************************************************)
EXTENDS Doc

T(s)  == <<[k |-> "t", s |-> s]>>
S(cp) == <<[k |-> "s", val |-> cp]>>

RECURSIVE Cat(_)            \* concatenation of a sequence of sequences
Cat(ss) == IF ss = <<>> THEN <<>> ELSE Head(ss) \o Cat(Tail(ss))
Map(s, F(_)) == Cat([i \in DOMAIN s |-> F(s[i])])
MapI(s, F(_, _)) == Cat([i \in DOMAIN s |-> F(s[i], i)])

RECURSIVE FValue(_)
FValue(v) == CASE v.k \in {"int", "float", "enum"} -> T(v.v)
               [] v.k = "string" -> S(v.cp)
               [] v.k = "bool"   -> T(IF v.v THEN "true" ELSE "false")
               [] v.k = "null"   -> T("null")
               [] v.k = "var"    -> T("$") \o T(v.n)
               [] v.k = "list"   -> T("[") \o Cat([i \in DOMAIN v.vs |-> FValue(v.vs[i])]) \o T("]")
               [] v.k = "object" -> T("{") \o Cat([i \in DOMAIN v.fs |-> T(v.fs[i].name) \o T(":") \o FValue(v.fs[i].v)]) \o T("}")

RECURSIVE FType(_)
FType(t) == CASE t.k = "named" -> T(t.n)
              [] t.k = "list"  -> T("[") \o FType(t.of) \o T("]")
              [] t.k = "nn"    -> FType(t.of) \o T("!")

FArgs(a) == IF a = <<>> THEN <<>>
            ELSE T("(") \o Cat([i \in DOMAIN a |-> T(a[i].name) \o T(":") \o FValue(a[i].v)]) \o T(")")
FDirs(d) == Cat([i \in DOMAIN d |-> T("@") \o T(d[i].name) \o FArgs(d[i].args)])

RECURSIVE FSel(_)
FSel(s) ==
  T("{") \o
  Cat([i \in DOMAIN s |->
    CASE s[i].k = "field" ->
           (IF s[i].hasAlias THEN T(s[i].alias) \o T(":") ELSE <<>>) \o T(s[i].name) \o FArgs(s[i].args) \o FDirs(s[i].dirs)
           \o (IF s[i].hasSel THEN FSel(s[i].sel) ELSE <<>>)
      [] s[i].k = "spread" -> T("...") \o T(s[i].name) \o FDirs(s[i].dirs)
      [] s[i].k = "inline" -> T("...") \o (IF s[i].hasOn THEN T("on") \o T(s[i].on) ELSE <<>>) \o FDirs(s[i].dirs) \o FSel(s[i].sel)])
  \o T("}")

FVars(vs) == IF vs = <<>> THEN <<>>
             ELSE T("(") \o Cat([i \in DOMAIN vs |->
                    T("$") \o T(vs[i].name) \o T(":") \o FType(vs[i].type)
                    \o (IF vs[i].hasDefault THEN T("=") \o FValue(vs[i].default) ELSE <<>>) \o FDirs(vs[i].dirs)]) \o T(")")

IsShorthand(d) == "shorthand" \in DOMAIN d /\ d.shorthand

FExecDef(d) ==
  CASE d.k = "op" -> IF IsShorthand(d) THEN FSel(d.sel)
                     ELSE T(d.opType) \o (IF d.hasName THEN T(d.name) ELSE <<>>) \o FVars(d.vars) \o FDirs(d.dirs) \o FSel(d.sel)
    [] d.k = "frag" -> T("fragment") \o T(d.name) \o T("on") \o T(d.on) \o FDirs(d.dirs) \o FSel(d.sel)
    [] d.k = "import" -> <<>>                       \* `#import` lines are comments of the lexical grammar

FlattenOpDoc(doc) == Cat([i \in DOMAIN doc.defs |-> FExecDef(doc.defs[i])])

(* ---- type-system documents ------------------------------------------- *)
FDesc(d) == IF d.has THEN S(d.cp) ELSE <<>>

FInputValues(vals, open, close) ==
  IF vals = <<>> THEN <<>>
  ELSE T(open) \o Cat([i \in DOMAIN vals |->
         FDesc(vals[i].desc) \o T(vals[i].name) \o T(":") \o FType(vals[i].type)
         \o (IF vals[i].hasDefault THEN T("=") \o FValue(vals[i].default) ELSE <<>>) \o FDirs(vals[i].dirs)]) \o T(close)

Flag(d, f) == f \in DOMAIN d /\ d[f]
Sep(d, f, i, s) == IF i > 1 \/ Flag(d, f) THEN T(s) ELSE <<>>

KeywordOf(k) == CASE k = "object" -> "type" [] OTHER -> k

FTsDef(d) ==
  LET ext == d.k # "directive" /\ d.ext IN
  (IF ~ext THEN FDesc(d.desc) ELSE <<>>)
  \o (IF ext THEN T("extend") ELSE <<>>) \o T(KeywordOf(d.k))
  \o CASE d.k = "schema" ->
            FDirs(d.dirs) \o (IF d.ops = <<>> THEN <<>>
                              ELSE T("{") \o Cat([i \in DOMAIN d.ops |-> T(d.ops[i].op) \o T(":") \o T(d.ops[i].type)]) \o T("}"))
       [] d.k = "directive" ->
            T("@") \o T(d.name) \o FInputValues(d.args, "(", ")") \o (IF d.repeatable THEN T("repeatable") ELSE <<>>)
            \o T("on") \o Cat([i \in DOMAIN d.locations |-> Sep(d, "leadingPipe", i, "|") \o T(d.locations[i].n)])
       [] OTHER ->
            T(d.name)
            \o (IF d.interfaces = <<>> THEN <<>>
                ELSE T("implements") \o Cat([i \in DOMAIN d.interfaces |-> Sep(d, "leadingAmp", i, "&") \o T(d.interfaces[i].n)]))
            \o FDirs(d.dirs)
            \o (IF d.fields = <<>> THEN <<>>
                ELSE T("{") \o Cat([i \in DOMAIN d.fields |->
                       FDesc(d.fields[i].desc) \o T(d.fields[i].name) \o FInputValues(d.fields[i].args, "(", ")")
                       \o T(":") \o FType(d.fields[i].type) \o FDirs(d.fields[i].dirs)]) \o T("}"))
            \o (IF d.members = <<>> THEN <<>>
                ELSE T("=") \o Cat([i \in DOMAIN d.members |-> Sep(d, "leadingPipe", i, "|") \o T(d.members[i].n)]))
            \o (IF d.values = <<>> THEN <<>>
                ELSE T("{") \o Cat([i \in DOMAIN d.values |->
                       FDesc(d.values[i].desc) \o T(d.values[i].name) \o FDirs(d.values[i].dirs)]) \o T("}"))
            \o FInputValues(d.inputFields, "{", "}")

FlattenTsDoc(doc) == Cat([i \in DOMAIN doc.defs |-> FTsDef(doc.defs[i])])

(* ---- normal forms of type-system definitions ------------------------- *)
NDesc(d) == [has |-> d.has, cp |-> IF d.has THEN d.cp ELSE <<>>]
NInputValues(vs) == [i \in DOMAIN vs |-> [name |-> vs[i].name, desc |-> NDesc(vs[i].desc), type |-> NType(vs[i].type),
                                          hasDefault |-> vs[i].hasDefault,
                                          default |-> IF vs[i].hasDefault THEN NValue(vs[i].default) ELSE [k |-> "null"],
                                          dirs |-> NDirs(vs[i].dirs)]]
NNames(s) == [i \in DOMAIN s |-> s[i].n]

NTsDef(d) ==
  CASE d.k = "schema" -> [k |-> "schema", ext |-> d.ext, desc |-> IF d.ext THEN NDesc([has |-> FALSE, cp |-> <<>>]) ELSE NDesc(d.desc),
                          dirs |-> NDirs(d.dirs), ops |-> [i \in DOMAIN d.ops |-> [op |-> d.ops[i].op, type |-> d.ops[i].type]]]
    [] d.k = "directive" -> [k |-> "directive", name |-> d.name, desc |-> NDesc(d.desc), args |-> NInputValues(d.args),
                             repeatable |-> d.repeatable, locations |-> NNames(d.locations)]
    [] OTHER -> [k |-> d.k, ext |-> d.ext, name |-> d.name,
                 desc |-> IF d.ext THEN NDesc([has |-> FALSE, cp |-> <<>>]) ELSE NDesc(d.desc),
                 dirs |-> NDirs(d.dirs), interfaces |-> NNames(d.interfaces),
                 fields |-> [i \in DOMAIN d.fields |-> [name |-> d.fields[i].name, desc |-> NDesc(d.fields[i].desc),
                                                        args |-> NInputValues(d.fields[i].args), type |-> NType(d.fields[i].type),
                                                        dirs |-> NDirs(d.fields[i].dirs)]],
                 members |-> NNames(d.members),
                 values |-> [i \in DOMAIN d.values |-> [name |-> d.values[i].name, desc |-> NDesc(d.values[i].desc),
                                                        dirs |-> NDirs(d.values[i].dirs)]],
                 inputFields |-> NInputValues(d.inputFields)]

NTsDoc(doc) == [i \in DOMAIN doc.defs |-> NTsDef(doc.defs[i])]

NImport(d) == [k |-> "import", path |-> d.path, wild |-> d.wild, names |-> d.names]
NOpDoc(doc) == [i \in DOMAIN doc.defs |-> IF doc.defs[i].k = "import" THEN NImport(doc.defs[i]) ELSE NDef(doc.defs[i])]
=============================================================================
