CONSTANTS
  NModels = 12
  NOperators = 60
  MaxSite = 25
INIT Init
NEXT Next
INVARIANT Emit
CHECK_DEADLOCK FALSE
