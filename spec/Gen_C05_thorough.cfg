CONSTANTS
  NModels = 12
  NOperators = 57
  MaxSite = 25
INIT Init
NEXT Next
INVARIANT Emit
CHECK_DEADLOCK FALSE
