CONSTANTS
  NModels = 12
  NOperators = 56
  MaxSite = 25
INIT Init
NEXT Next
INVARIANT Emit
CHECK_DEADLOCK FALSE
