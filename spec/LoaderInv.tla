----------------------------- MODULE LoaderInv -----------------------------
(***************************************************************************)
(* The ownership / identity core of Loader.tla, typed for Apalache, with   *)
(* an INDUCTIVE invariant: ids are issued in order and never reused; every *)
(* leaked source buffer is owned by exactly one live task; every loaded    *)
(* document points into a buffer its own task still owns.  File contents   *)
(* are abstracted to "parses / does not parse"; paths to a finite set.     *)
(* Checked for ALL reachable states (no bound on the history length):      *)
(*   Init => IndInv          (apalache-mc check --init=Init --inv=IndInv --length=0)      *)
(*   IndInv /\ Next => IndInv'  (--init=IndInit --inv=IndInv --length=1)                  *)
(***************************************************************************)
EXTENDS Integers, FiniteSets

CONSTANTS
  \* @type: Set(Str);
  Paths,
  \* @type: Int;
  MaxId,
  \* @type: Int;
  MaxBuf

VARIABLES
  \* @type: Set(Int);
  live,
  \* @type: Int -> Set(Int);
  bufs,
  \* @type: Int -> (Str -> Int);
  backing,
  \* @type: Int -> Set(Str);
  files,
  \* @type: Int;
  nextId,
  \* @type: Set(Int);
  freed,
  \* @type: Int;
  nextBuf

CInit == Paths = {"m", "a", "b"} /\ MaxId = 4 /\ MaxBuf = 6

Ids == 1..MaxId
Bufs == 1..MaxBuf

TypeOK ==
  /\ live \in SUBSET Ids /\ freed \in SUBSET Ids
  /\ nextId \in 1..(MaxId + 1) /\ nextBuf \in 1..(MaxBuf + 1)
  /\ bufs \in [Ids -> SUBSET Bufs]
  /\ files \in [Ids -> SUBSET Paths]
  /\ backing \in [Ids -> [Paths -> Bufs \cup {0}]]

Init ==
  /\ live = {} /\ freed = {} /\ nextId = 1 /\ nextBuf = 1
  /\ bufs = [t \in Ids |-> {}]
  /\ files = [t \in Ids |-> {}]
  /\ backing = [t \in Ids |-> [p \in Paths |-> 0]]

Initiate(p, ok) ==
  /\ nextId <= MaxId /\ nextBuf <= MaxBuf
  /\ nextBuf' = nextBuf + 1
  /\ IF ok
     THEN /\ live' = live \cup {nextId}
          /\ bufs' = [bufs EXCEPT ![nextId] = {nextBuf}]
          /\ files' = [files EXCEPT ![nextId] = {p}]
          /\ backing' = [backing EXCEPT ![nextId] = [q \in Paths |-> IF q = p THEN nextBuf ELSE 0]]
          /\ nextId' = nextId + 1
          /\ UNCHANGED freed
     ELSE UNCHANGED <<live, bufs, files, backing, nextId, freed>>

Load(t, p, ok, rel) ==
  /\ t \in live /\ nextBuf <= MaxBuf
  /\ nextBuf' = nextBuf + 1
  /\ LET all == bufs[t] \cup {nextBuf}
         pointed == IF ok THEN {backing[t][q] : q \in files[t] \ {p}} \cup {nextBuf} ELSE {backing[t][q] : q \in files[t]}
     IN /\ rel \subseteq all \ pointed
        /\ bufs' = [bufs EXCEPT ![t] = all \ rel]
  /\ IF ok
     THEN /\ files' = [files EXCEPT ![t] = @ \cup {p}]
          /\ backing' = [backing EXCEPT ![t] = [q \in Paths |-> IF q = p THEN nextBuf ELSE backing[t][q]]]
     ELSE UNCHANGED <<files, backing>>
  /\ UNCHANGED <<live, nextId, freed>>

Free(t) ==
  /\ IF t \in live
     THEN /\ live' = live \ {t} /\ freed' = freed \cup {t}
          /\ bufs' = [bufs EXCEPT ![t] = {}]
          /\ files' = [files EXCEPT ![t] = {}]
          /\ backing' = [backing EXCEPT ![t] = [q \in Paths |-> 0]]
     ELSE UNCHANGED <<live, freed, bufs, files, backing>>
  /\ UNCHANGED <<nextId, nextBuf>>

Stutter == UNCHANGED <<live, bufs, backing, files, nextId, freed, nextBuf>>

Next ==
  \/ \E p \in Paths, ok \in BOOLEAN : Initiate(p, ok)
  \/ \E t \in Ids, p \in Paths, ok \in BOOLEAN, rel \in SUBSET Bufs : Load(t, p, ok, rel)
  \/ \E t \in Ids : Free(t)
  \/ Stutter

IdsNeverReused ==
  /\ live \cap freed = {}
  /\ live \cup freed = {t \in Ids : t < nextId}
OwnedOnce ==
  /\ \A t, u \in Ids : t # u => bufs[t] \cap bufs[u] = {}
  /\ \A t \in Ids : \A b \in bufs[t] : b < nextBuf
NoUseAfterFree ==
  \A t \in live : \A q \in files[t] : backing[t][q] \in bufs[t]
DeadTasksOwnNothing ==
  \A t \in Ids : t \notin live => (bufs[t] = {} /\ files[t] = {})

IndInv == TypeOK /\ IdsNeverReused /\ OwnedOnce /\ NoUseAfterFree /\ DeadTasksOwnNothing
IndInit == IndInv
=============================================================================
