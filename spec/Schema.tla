------------------------------- MODULE Schema -------------------------------
(***************************************************************************)
(* The abstract type system: a schema is the sequence of its (merged,      *)
(* extension-free) type-system definitions in the shape of                 *)
(* harness/ABSTRACT_JSON.md, plus the built-in scalars and directives.     *)
(* Derived relations used by validation (C03/C04/C05), execution (C01/C02) *)
(* and the declaration-file semantics (C09/C10).                           *)
(***************************************************************************)
EXTENDS Sequences, Naturals, FiniteSets, SequencesExt

NamedT(n) == [k |-> "named", n |-> n]
NonNullT(t) == [k |-> "nn", of |-> t]
NoDesc == [has |-> FALSE, cp |-> <<>>, block |-> FALSE]
BScalarDef(n) == [k |-> "scalar", ext |-> FALSE, name |-> n, desc |-> NoDesc, dirs |-> <<>>, interfaces |-> <<>>, fields |-> <<>>,
                  members |-> <<>>, values |-> <<>>, inputFields |-> <<>>]
BInput(name, ty, hasDef) == [name |-> name, desc |-> NoDesc, type |-> ty, hasDefault |-> hasDef, default |-> [k |-> "null"], dirs |-> <<>>]
BDirDef(name, args, locs, rep) == [k |-> "directive", name |-> name, desc |-> NoDesc, args |-> args, repeatable |-> rep,
                                   locations |-> [i \in DOMAIN locs |-> [n |-> locs[i]]]]
BuiltinDefs == <<BScalarDef("Int"), BScalarDef("Float"), BScalarDef("String"), BScalarDef("Boolean"), BScalarDef("ID"),
                 BDirDef("skip", <<BInput("if", NonNullT(NamedT("Boolean")), FALSE)>>, <<"FIELD", "FRAGMENT_SPREAD", "INLINE_FRAGMENT">>, FALSE),
                 BDirDef("include", <<BInput("if", NonNullT(NamedT("Boolean")), FALSE)>>, <<"FIELD", "FRAGMENT_SPREAD", "INLINE_FRAGMENT">>, FALSE),
                 BDirDef("deprecated", <<BInput("reason", NamedT("String"), TRUE)>>,
                         <<"FIELD_DEFINITION", "ARGUMENT_DEFINITION", "INPUT_FIELD_DEFINITION", "ENUM_VALUE">>, FALSE),
                 BDirDef("specifiedBy", <<BInput("url", NonNullT(NamedT("String")), FALSE)>>, <<"SCALAR">>, FALSE)>>

(* S: sequence of definitions (user definitions; built-ins are looked up in addition) *)
AllDefs(S) == S \o BuiltinDefs
TypeKinds == {"scalar", "object", "interface", "union", "enum", "input"}
TypeNames(S) == {AllDefs(S)[i].name : i \in {j \in DOMAIN AllDefs(S) : AllDefs(S)[j].k \in TypeKinds}}
HasType(S, n) == n \in TypeNames(S)
TypeDef(S, n) == LET D == AllDefs(S) IN D[CHOOSE i \in DOMAIN D : D[i].k \in TypeKinds /\ D[i].name = n]
KindOf(S, n) == TypeDef(S, n).k
HasDirective(S, n) == \E i \in DOMAIN AllDefs(S) : AllDefs(S)[i].k = "directive" /\ AllDefs(S)[i].name = n
DirectiveDef(S, n) == LET D == AllDefs(S) IN D[CHOOSE i \in DOMAIN D : D[i].k = "directive" /\ D[i].name = n]
SchemaDefs(S) == SelectSeq(S, LAMBDA d : d.k = "schema")

IsLeafType(S, n) == HasType(S, n) /\ KindOf(S, n) \in {"scalar", "enum"}
IsCompositeType(S, n) == HasType(S, n) /\ KindOf(S, n) \in {"object", "interface", "union"}
IsInputTypeName(S, n) == HasType(S, n) /\ KindOf(S, n) \in {"scalar", "enum", "input"}
IsOutputTypeName(S, n) == HasType(S, n) /\ KindOf(S, n) \in {"scalar", "enum", "object", "interface", "union"}

RECURSIVE Unwrap(_)
Unwrap(t) == IF t.k = "named" THEN t.n ELSE Unwrap(t.of)
IsNonNull(t) == t.k = "nn"
Nullable(t) == IF t.k = "nn" THEN t.of ELSE t

(* fields of an object / interface type, as a function name -> field definition (plus the __typename meta field) *)
TypenameField == [name |-> "__typename", desc |-> NoDesc, args |-> <<>>, type |-> NonNullT(NamedT("String")), dirs |-> <<>>]
FieldNames(S, n) == IF KindOf(S, n) \in {"object", "interface"} THEN {TypeDef(S, n).fields[i].name : i \in DOMAIN TypeDef(S, n).fields} \cup {"__typename"}
                    ELSE IF KindOf(S, n) = "union" THEN {"__typename"} ELSE {}
FieldDef(S, n, f) == IF f = "__typename" THEN TypenameField
                     ELSE LET fs == TypeDef(S, n).fields IN fs[CHOOSE i \in DOMAIN fs : fs[i].name = f]
InputFieldDef(S, n, f) == LET fs == TypeDef(S, n).inputFields IN fs[CHOOSE i \in DOMAIN fs : fs[i].name = f]
InputFieldNames(S, n) == {TypeDef(S, n).inputFields[i].name : i \in DOMAIN TypeDef(S, n).inputFields}
EnumValueNames(S, n) == {TypeDef(S, n).values[i].name : i \in DOMAIN TypeDef(S, n).values}
InterfacesOf(S, n) == {TypeDef(S, n).interfaces[i].n : i \in DOMAIN TypeDef(S, n).interfaces}
MembersOf(S, n) == {TypeDef(S, n).members[i].n : i \in DOMAIN TypeDef(S, n).members}

ObjectNames(S) == {n \in TypeNames(S) : KindOf(S, n) = "object"}
(* the set of object types a value of type n can be at run time *)
PossibleTypes(S, n) ==
  IF ~HasType(S, n) THEN {}
  ELSE CASE KindOf(S, n) = "object" -> {n}
         [] KindOf(S, n) = "interface" -> {o \in ObjectNames(S) : n \in InterfacesOf(S, o)}
         [] KindOf(S, n) = "union" -> MembersOf(S, n) \cap ObjectNames(S)
         [] OTHER -> {}

(* root operation types: explicit schema definition (merged) or the default names *)
RootOps(S) == LET sd == SchemaDefs(S) IN
              IF sd = <<>> THEN << >> ELSE LET RECURSIVE Cat(_) Cat(i) == IF i > Len(sd) THEN <<>> ELSE sd[i].ops \o Cat(i + 1) IN Cat(1)
HasExplicitSchema(S) == SchemaDefs(S) # <<>>
DefaultRootName(op) == CASE op = "query" -> "Query" [] op = "mutation" -> "Mutation" [] op = "subscription" -> "Subscription"
HasRootType(S, op) ==
  IF HasExplicitSchema(S) THEN \E i \in DOMAIN RootOps(S) : RootOps(S)[i].op = op /\ HasType(S, RootOps(S)[i].type)
  ELSE HasType(S, DefaultRootName(op)) /\ KindOf(S, DefaultRootName(op)) = "object"
RootTypeName(S, op) ==
  IF HasExplicitSchema(S) THEN LET r == RootOps(S) IN r[CHOOSE i \in DOMAIN r : r[i].op = op].type
  ELSE DefaultRootName(op)
=============================================================================
