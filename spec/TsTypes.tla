------------------------------- MODULE TsTypes -------------------------------
(***************************************************************************)
(* Denotation of the TypeScript subset that nitrogql emits (shape of the   *)
(* ASTs: harness/TS_AST.md; the harness reads syntax only, all meaning is  *)
(* here).  Used by C01, C02, C09, C10.                                     *)
(*                                                                         *)
(* Abstract values (the finite JSON abstraction of the properties):        *)
(*   [k |-> "null"] [k |-> "undef"] (absent key / undefined)               *)
(*   [k |-> "num"] [k |-> "bool"] [k |-> "str", s |-> text]                *)
(*   [k |-> "glob", n |-> name]  a value of the opaque global type `name`  *)
(*   [k |-> "raw", t |-> tokens] a value of an uninterpreted type text     *)
(*   [k |-> "inst", n |-> T]     an instance of the declaration of schema  *)
(*                               type T (one-level abstraction, C09/C10)   *)
(*   [k |-> "param", n |-> P]    a value of the type parameter P           *)
(*   [k |-> "list", vs |-> seq]  [k |-> "rec", f |-> key :> value]         *)
(*                                                                         *)
(* Decisions (DESIGN.md 4.3): READ semantics for object types (an absent   *)
(* key reads as undef; `k?: T` adds undef; object types are open);         *)
(* identifiers resolve namespace-local first, then module level, then to   *)
(* an opaque global; N.X resolves through N's EXPORTED names including     *)
(* `export type { a as X }`.                                               *)
(***************************************************************************)
EXTENDS Sequences, Naturals, FiniteSets, TLC

VNull == [k |-> "null"]
VUndef == [k |-> "undef"]
VNum == [k |-> "num"]
VBool == [k |-> "bool"]
VStr(s) == [k |-> "str", s |-> s]
VGlob(n) == [k |-> "glob", n |-> n]
VRaw(t) == [k |-> "raw", t |-> t]
(* an instance of the declared type n; tg names the target namespace ("__" ++ tg) whose declaration of n is meant, "" = any *)
VInst(n) == [k |-> "inst", n |-> n, tg |-> ""]
VInstT(n, tg) == [k |-> "inst", n |-> n, tg |-> tg]
VParam(n) == [k |-> "param", n |-> n]
VList(vs) == [k |-> "list", vs |-> vs]
VRec(f) == [k |-> "rec", f |-> f]
Read(v, key) == IF v.k = "rec" /\ key \in DOMAIN v.f THEN v.f[key] ELSE VUndef

(* ------------------------------------------------------------ environment *)
(* env = [schema |-> stmts of the schema declaration file,                  *)
(*        local  |-> stmts of the file the type under evaluation lives in   *)
(*                   (resolvers / operation declaration; = schema for C10), *)
(*        schemaNs |-> name bound by `import type * as <name>` ("" if none)]*)
(* scope = [file |-> "schema" | "local", ns |-> "" | namespace, params]     *)
Stmts(env, file) == IF file = "schema" THEN env.schema ELSE env.local
TypeStmtsNamed(stmts, n) == SelectSeq(stmts, LAMBDA s : s.k = "type" /\ s.name = n)
HasTypeStmt(stmts, n) == TypeStmtsNamed(stmts, n) # <<>>
NamespaceBody(stmts, n) == LET ns == SelectSeq(stmts, LAMBDA s : s.k = "namespace" /\ s.name = n) IN IF ns = <<>> THEN <<>> ELSE ns[1].body
HasNamespace(stmts, n) == \E i \in DOMAIN stmts : stmts[i].k = "namespace" /\ stmts[i].name = n

(* Declaration clashes at module level.  TypeScript rejects a module in which one identifier is declared twice in the same       *)
(* declaration space (two type aliases: TS2300; two consts: TS2451) or is both an import binding and a local declaration (TS2440):  *)
(* such a file has no usable types at all.  (A type alias and a const of one name are fine: different spaces.)                       *)
ImportBindings(stmts) ==
  UNION {IF stmts[i].k = "import"
         THEN (IF stmts[i].star # "" THEN {stmts[i].star} ELSE {}) \cup {stmts[i].names[j].as : j \in DOMAIN stmts[i].names}
         ELSE {} : i \in DOMAIN stmts}
DeclCount(stmts, kind, n) == Cardinality({i \in DOMAIN stmts : stmts[i].k = kind /\ stmts[i].name = n})
ClashNames(stmts) ==
  {n \in {stmts[i].name : i \in {j \in DOMAIN stmts : stmts[j].k \in {"type", "const"}}} :
     DeclCount(stmts, "type", n) > 1 \/ DeclCount(stmts, "const", n) > 1 \/ n \in ImportBindings(stmts)}

Decl(file, ns, stmt) == [k |-> "decl", file |-> file, ns |-> ns, stmt |-> stmt]
Global(n) == [k |-> "global", n |-> n]
Missing(n) == [k |-> "missing", n |-> n]

(* the exported member `a` of a namespace body (or of a module: ns = "") *)
ExportedMember(stmts, file, ns, a) ==
  LET direct == SelectSeq(stmts, LAMBDA s : s.k = "type" /\ s.name = a /\ (s.export \/ ns = ""))
      lists == SelectSeq(stmts, LAMBDA s : s.k = "exportList" /\ \E i \in DOMAIN s.items : s.items[i].as = a)
  IN IF direct # <<>> THEN Decl(file, ns, direct[1])
     ELSE IF lists # <<>>
          THEN LET it == lists[1].items[CHOOSE i \in DOMAIN lists[1].items : lists[1].items[i].as = a]
               IN IF HasTypeStmt(stmts, it.name) THEN Decl(file, ns, TypeStmtsNamed(stmts, it.name)[1]) ELSE Missing(a)
          ELSE Missing(a)

Lookup(env, sc, path) ==
  LET stmts == Stmts(env, sc.file) IN
  IF Len(path) = 1 THEN
     LET a == path[1] IN
     IF a \in sc.params THEN [k |-> "param", n |-> a]
     ELSE IF sc.ns # "" /\ HasTypeStmt(NamespaceBody(stmts, sc.ns), a) THEN Decl(sc.file, sc.ns, TypeStmtsNamed(NamespaceBody(stmts, sc.ns), a)[1])
     ELSE IF HasTypeStmt(stmts, a) THEN Decl(sc.file, "", TypeStmtsNamed(stmts, a)[1])
     ELSE Global(a)
  ELSE IF Len(path) = 2 THEN
     IF sc.file = "local" /\ env.schemaNs # "" /\ path[1] = env.schemaNs THEN ExportedMember(env.schema, "schema", "", path[2])
     ELSE IF HasNamespace(stmts, path[1]) THEN ExportedMember(NamespaceBody(stmts, path[1]), sc.file, path[1], path[2])
     ELSE Global(path[1])
  ELSE IF Len(path) = 3 /\ sc.file = "local" /\ env.schemaNs # "" /\ path[1] = env.schemaNs /\ HasNamespace(env.schema, path[2])
       THEN ExportedMember(NamespaceBody(env.schema, path[2]), "schema", path[2], path[3])
  ELSE Global(path[1])

ScopeOfDecl(d) == [file |-> d.file, ns |-> d.ns, params |-> {d.stmt.params[i] : i \in DOMAIN d.stmt.params}]
SameStmt(a, b) == a.name = b.name /\ a.line = b.line /\ a.col = b.col
(* is d THE declaration of schema type n in its own namespace (schema file) / at module level (other files)? *)
IsDeclOfType(env, d, n) ==
  LET stmts == Stmts(env, d.file)
      e == IF d.ns = "" THEN ExportedMember(stmts, d.file, "", n) ELSE ExportedMember(NamespaceBody(stmts, d.ns), d.file, d.ns, n)
  IN e.k = "decl" /\ SameStmt(e.stmt, d.stmt)

(* ---------------------------------------------------------- utility types *)
(* the emitted prelude, recognised token for token by the harness (event field preludeOk) *)
IsSelSetRef(env, sc, t) == t.k = "ref" /\ Len(t.args) = 3 /\ t.path[Len(t.path)] = "__SelectionSet"
IsOmitTypename(t) == t.k = "ref" /\ t.path = <<"Omit">> /\ Len(t.args) = 2 /\ t.args[2].k = "lit" /\ t.args[2].s = "__typename"
(* Pick<X, "a" | "b"> (keys as string literal types; `never` picks nothing) *)
IsPick(t) == t.k = "ref" /\ t.path = <<"Pick">> /\ Len(t.args) = 2
PickKeys(k) == CASE k.k = "lit" -> {k.s}
                 [] k.k = "union" -> {k.ts[i].s : i \in {j \in DOMAIN k.ts : k.ts[j].k = "lit"}}
                 [] OTHER -> {}

(* keys of an object type after resolving references (only what the emitted subset needs) *)
RECURSIVE KeysOfType(_, _, _, _)
KeysOfType(env, sc, t, fuel) ==
  IF fuel = 0 THEN {}
  ELSE CASE t.k = "obj" -> {t.fs[i].key : i \in DOMAIN t.fs}
         [] t.k = "ref" -> IF IsOmitTypename(t) THEN KeysOfType(env, sc, t.args[1], fuel - 1) \ {"__typename"}
                           ELSE IF IsPick(t) THEN KeysOfType(env, sc, t.args[1], fuel - 1) \cap PickKeys(t.args[2])
                           ELSE LET r == Lookup(env, sc, t.path) IN
                                IF r.k = "decl" THEN KeysOfType(env, ScopeOfDecl(r), r.stmt.t, fuel - 1) ELSE {}
         [] t.k = "inter" -> UNION {KeysOfType(env, sc, t.ts[i], fuel - 1) : i \in DOMAIN t.ts}
         [] OTHER -> {}

(* ex = "no"   : object types are OPEN (TypeScript's structural reading; used wherever values only carry declared keys)      *)
(* ex = "here" : object types are EXACT on the keys in play: a present (non-undef) key must be declared by the type; an       *)
(*               intersection / __SelectionSet is exact on the union of its parts' keys.  Used by C02, whose abstract values   *)
(*               carry keys of OTHER union branches: `{}` must not be read as admitting them.                                  *)
(* ex = "below": this node's keys were already judged by the enclosing intersection; values below are exact again.            *)
PresentKeys(v) == {key \in DOMAIN v.f : v.f[key].k # "undef"}
Nested(ex) == IF ex = "no" THEN "no" ELSE "here"
RECURSIVE MemberX(_, _, _, _, _, _)
MemberX(v, t, env, sc, fuel, ex) ==
  IF fuel = 0 THEN FALSE
  ELSE
  CASE t.k = "kw" -> (CASE t.n = "string" -> v.k = "str" [] t.n = "number" -> v.k = "num" [] t.n = "boolean" -> v.k = "bool"
                        [] t.n = "null" -> v.k = "null" [] t.n \in {"undefined", "void"} -> v.k = "undef" [] t.n = "never" -> FALSE
                        [] t.n \in {"unknown", "any"} -> TRUE
                        [] t.n = "object" -> v.k \in {"rec", "list", "inst"}
                        [] OTHER -> v.k = "glob" /\ v.n = t.n)
    [] t.k = "lit" -> v.k = "str" /\ v.s = t.s
    [] t.k = "litnum" -> v.k = "num"
    [] t.k = "litbool" -> v.k = "bool"
    [] t.k = "array" -> v.k = "list" /\ \A i \in DOMAIN v.vs : MemberX(v.vs[i], t.of, env, sc, fuel, Nested(ex))
    [] t.k = "union" -> \E i \in DOMAIN t.ts : MemberX(v, t.ts[i], env, sc, fuel, ex)
    [] t.k = "inter" -> /\ (ex = "here" /\ v.k = "rec") => PresentKeys(v) \subseteq UNION {KeysOfType(env, sc, t.ts[i], 8) : i \in DOMAIN t.ts}
                        /\ \A i \in DOMAIN t.ts : MemberX(v, t.ts[i], env, sc, fuel, IF ex = "no" THEN "no" ELSE "below")
    [] t.k = "obj" -> /\ v.k = "rec"
                      /\ ex = "here" => PresentKeys(v) \subseteq {t.fs[i].key : i \in DOMAIN t.fs}
                      /\ \A i \in DOMAIN t.fs :
                            LET x == Read(v, t.fs[i].key) IN (t.fs[i].opt /\ x.k = "undef") \/ MemberX(x, t.fs[i].t, env, sc, fuel, Nested(ex))
    [] t.k = "raw" -> v.k = "raw" /\ v.t = t.tokens
    [] t.k = "ref" ->
         IF IsSelSetRef(env, sc, t) THEN
            (* __SelectionSet<Orig, Obj, Others>: keys = keyof Orig \cap keyof Obj, each REQUIRED (modifiers come from Orig), *)
            (* typed as Obj declares it (an optional `never` reads as undefined), intersected with Others.                   *)
            LET origKeys == KeysOfType(env, sc, t.args[1], 8)
                obj == t.args[2]
            IN /\ v.k = "rec"
               /\ obj.k = "obj"
               /\ ex = "here" => PresentKeys(v) \subseteq ({obj.fs[i].key : i \in DOMAIN obj.fs} \cap origKeys) \cup KeysOfType(env, sc, t.args[3], 8)
               /\ \A i \in DOMAIN obj.fs :
                     obj.fs[i].key \in origKeys =>
                        LET x == Read(v, obj.fs[i].key) IN (obj.fs[i].opt /\ x.k = "undef") \/ MemberX(x, obj.fs[i].t, env, sc, fuel, Nested(ex))
               /\ MemberX(v, t.args[3], env, sc, fuel, IF ex = "no" THEN "no" ELSE "below")
         ELSE IF IsOmitTypename(t) THEN
            (* Omit<X, "__typename"> for X resolving to an object type: X without that key *)
            LET x == t.args[1]
                r == IF x.k = "ref" THEN Lookup(env, sc, x.path) ELSE Missing("")
            IN IF r.k = "decl" /\ r.stmt.t.k = "obj"
               THEN LET o == r.stmt.t dsc == ScopeOfDecl(r) IN
                    v.k = "rec" /\ \A i \in DOMAIN o.fs : o.fs[i].key = "__typename" \/
                        (LET y == Read(v, o.fs[i].key) IN (o.fs[i].opt /\ y.k = "undef") \/ MemberX(y, o.fs[i].t, env, dsc, fuel - 1, Nested(ex)))
               ELSE TRUE
         ELSE IF IsPick(t) THEN
            LET x == t.args[1]
                r == IF x.k = "ref" THEN Lookup(env, sc, x.path) ELSE Missing("")
                keys == PickKeys(t.args[2])
            IN IF r.k = "decl" /\ r.stmt.t.k = "obj"
               THEN LET o == r.stmt.t dsc == ScopeOfDecl(r) IN
                    v.k = "rec" /\ \A i \in DOMAIN o.fs : o.fs[i].key \notin keys \/
                        (LET y == Read(v, o.fs[i].key) IN (o.fs[i].opt /\ y.k = "undef") \/ MemberX(y, o.fs[i].t, env, dsc, fuel - 1, Nested(ex)))
               ELSE TRUE
         ELSE LET r == Lookup(env, sc, t.path) IN
              CASE r.k = "param" -> v.k = "param" /\ v.n = r.n
                [] r.k = "global" -> v.k = "glob" /\ v.n = r.n
                [] r.k = "missing" -> TRUE                    \* an unresolved member is an error type (any); reported separately (Dangling)
                [] r.k = "decl" -> IF v.k = "inst" /\ IsDeclOfType(env, r, v.n) /\ (v.tg = "" \/ (r.file # "schema" /\ v.tg = "ResolverOutput"))   \* (local aliases of the resolvers file stand for parent / result objects)
                                   THEN TRUE
                                   ELSE IF v.k = "inst" /\ IsDeclOfType(env, r, v.n) /\ r.ns # ""
                                   THEN r.ns = "__" \o v.tg           \* the declaration of n inside a target namespace: that target's instances only
                                                                      \* (a module-level representative is an alias and is followed below)
                                   ELSE MemberX(v, r.stmt.t, env, ScopeOfDecl(r), fuel - 1, ex)
    [] OTHER -> FALSE
Member(v, t, env, sc, fuel) == MemberX(v, t, env, sc, fuel, "no")
MemberExact(v, t, env, sc, fuel) == MemberX(v, t, env, sc, fuel, "here")

(* keys that a __SelectionSet silently drops because the schema declaration it refers to lacks them *)
RECURSIVE DroppedKeys(_, _, _)
DroppedKeys(t, env, sc) ==
  CASE t.k = "ref" -> (IF IsSelSetRef(env, sc, t) /\ t.args[2].k = "obj"
                       THEN {t.args[2].fs[i].key : i \in DOMAIN t.args[2].fs} \ KeysOfType(env, sc, t.args[1], 8) ELSE {})
                      \cup UNION {DroppedKeys(t.args[i], env, sc) : i \in DOMAIN t.args}
    [] t.k = "array" -> DroppedKeys(t.of, env, sc)
    [] t.k \in {"union", "inter"} -> UNION {DroppedKeys(t.ts[i], env, sc) : i \in DOMAIN t.ts}
    [] t.k = "obj" -> UNION {DroppedKeys(t.fs[i].t, env, sc) : i \in DOMAIN t.fs}
    [] OTHER -> {}

(* references that should resolve inside the emitted files but do not *)
RECURSIVE Dangling(_, _, _)
Dangling(t, env, sc) ==
  CASE t.k = "ref" -> (IF Lookup(env, sc, t.path).k = "missing" THEN {t.path} ELSE {}) \cup UNION {Dangling(t.args[i], env, sc) : i \in DOMAIN t.args}
    [] t.k = "array" -> Dangling(t.of, env, sc)
    [] t.k \in {"union", "inter"} -> UNION {Dangling(t.ts[i], env, sc) : i \in DOMAIN t.ts}
    [] t.k = "obj" -> UNION {Dangling(t.fs[i].t, env, sc) : i \in DOMAIN t.fs}
    [] OTHER -> {}
=============================================================================
