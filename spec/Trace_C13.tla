----------------------------- MODULE Trace_C13 -----------------------------
(* impl -> spec for C13: each recorded call of resolve_operation_imports    *)
(* (files as parsed by the real parser, resolver backed by those files as   *)
(* the CLI does) is judged by Imports!ImportContract.                       *)
EXTENDS Imports, TLC, Json, IOUtils
Rec == ndJsonDeserialize(IOEnv.TRACE)
VARIABLE l
IsEvent(k) == l <= Len(Rec) /\ Rec[l].ev = k /\ l' = l + 1
Report(items) == \A i \in DOMAIN items : PrintT(<<"ITEM", ToJson(items[i])>>)

FilesOf(e) == [p \in {e.files[i].path : i \in DOMAIN e.files} |->
                 e.files[CHOOSE i \in DOMAIN e.files : e.files[i].path = p].d]

Item(cls, what, e, files) ==
  [cls |-> cls, what |-> what, l |-> l, event |-> e,
   expected |-> IF RefError(files, e.root) THEN [k |-> "err"]
                ELSE [k |-> "ok", defs |-> SetToSeq(RefResult(files, e.root))]]

OutDefs(e) == [i \in DOMAIN e.out.defs |-> <<e.out.defs[i].file, e.out.defs[i].kind, e.out.defs[i].name>>]

TResolve ==
  /\ IsEvent("ResolveImports")
  /\ LET e == Rec[l]
         files == FilesOf(e)
         out == IF e.out.k = "ok" THEN [k |-> "ok", defs |-> OutDefs(e)] ELSE [k |-> e.out.k]
     IN Report(
          IF e.out.k = "panic" THEN <<Item("panic", "import resolution panicked", e, files)>>
          ELSE IF ImportContract(files, e.root, out) THEN
               \* an error must be positioned inside one of the configured files
               IF e.out.k = "err" /\ ~e.out.positioned
               THEN <<Item("unpositioned-error", "import error carries no position", e, files)>>
               ELSE <<>>
          ELSE IF RefError(files, e.root) /\ e.out.k = "ok"
               THEN <<Item("missed-error", "dangling file or missing fragment name not reported", e, files)>>
          ELSE IF ~RefError(files, e.root) /\ e.out.k = "err"
               THEN <<Item("spurious-error", "error reported although every import resolves", e, files)>>
          ELSE IF ~NoDup(out.defs)
               THEN <<Item("duplicate", "a definition appears more than once in the resolved document", e, files)>>
          ELSE IF ~(RefResult(files, e.root) \subseteq Range(out.defs))
               THEN <<Item("lost", "a requested fragment is missing from the resolved document", e, files)>>
          ELSE <<Item("invented", "the resolved document contains a definition nobody imported", e, files)>>)

(* order independence: two resolutions of the same files with permuted    *)
(* import lines must yield the same set (events carry `set` = id of group)*)
Init == l = 1
Next == TResolve
Spec == Init /\ [][Next]_l
Done == PrintT(<<"DONE", ToJson([consumed |-> TLCGet("stats").diameter - 1])>>)
=============================================================================
