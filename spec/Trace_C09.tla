----------------------------- MODULE Trace_C09 -----------------------------
(***************************************************************************)
(* impl -> spec for C09: each event is one run of the real                 *)
(* `nitrogql generate` on a valid schema plus one operation whose variable *)
(* definitions are the case; the emitted `<Op>Variables` type, read with   *)
(* the schema declaration's __OperationInput namespace, is judged against  *)
(* variable coercion (spec 6.1.2 / 3.x input coercion) as stated in        *)
(* SchemaDecl.tla:                                                         *)
(*   [[Variables]] \subseteq Coercible  (never null / absent where         *)
(*        required; a nullable variable omitted only if the option is on)  *)
(*   Explicit_c \subseteq [[Variables]] (omission of a nullable variable   *)
(*                                       iff allowUndefinedAsOptionalInput)*)
(* on canonical assignments and all one-position perturbations; the input  *)
(* namespace aliases the Variables type refers to are judged as in C10.    *)
(***************************************************************************)
EXTENDS SchemaDecl, Json, IOUtils
Rec == ndJsonDeserialize(IOEnv.TRACE)
VARIABLE l
IsEvent(k) == l <= Len(Rec) /\ Rec[l].ev = k /\ l' = l + 1
Stat(s) == PrintT(<<"STAT", ToJson(s)>>)
RECURSIVE CatFiles(_, _)
CatFiles(files, i) == IF i > Len(files) THEN <<>> ELSE files[i].items \o CatFiles(files, i + 1)
Report(e, its) == \A it \in its : PrintT(<<"ITEM", ToJson([cls |-> it.cls, what |-> it.what, l |-> l, id |-> e.id, more |-> it.more])>>)

VariablesItems(S, cfg, env, op, typeName) ==
  LET e == ExportedMember(env.local, "local", "", typeName)
      A == Atoms(S, cfg)
      vars == op.vars
      keys == {vars[i].name : i \in DOMAIN vars}
      vd(key) == vars[CHOOSE i \in DOMAIN vars : vars[i].name = key]
      tyOf(key) == vd(key).type
      okAll == \A key \in keys : HasCanon(PosCands(A, tyOf(key)), LAMBDA x : InRefPos(S, cfg, "OperationInput", tyOf(key), x))
      canonOf(key) == Canon(PosCands(A, tyOf(key)), LAMBDA x : InRefPos(S, cfg, "OperationInput", tyOf(key), x))
      candsOf(key) == PosCands(A, tyOf(key))
      (* upper bound: what the type may admit.  Omitting a variable is coercible when it is nullable or defaulted, but the property   *)
      (* ties omission of NULLABLE ones to the option ("exactly when the option is on"); a non-null variable with a default may     *)
      (* be required or optional.                                                                                                   *)
      Coercible(v) == v.k = "rec" /\ \A key \in keys : LET y == Read(v, key) IN
                        (y.k = "undef" /\ ((tyOf(key).k # "nn" /\ cfg.allowUndefined) \/ (tyOf(key).k = "nn" /\ vd(key).hasDefault)))
                        \/ InRefPos(S, cfg, "OperationInput", tyOf(key), y)
      Explicit(v) == v.k = "rec" /\ \A key \in keys : LET y == Read(v, key) IN
                        (y.k = "undef" /\ tyOf(key).k # "nn" /\ cfg.allowUndefined) \/ InRefPos(S, cfg, "OperationInput", tyOf(key), y)
      ctx == <<"Variables", typeName>>
  IN IF e.k # "decl" THEN {Item("variables-type-missing", "the operation declaration has no Variables type", [ctx |-> ctx])}
     ELSE IF ~okAll THEN {}
     ELSE LET cands == RecCands(A, keys, candsOf, canonOf)
              InTs(v) == Member(v, e.stmt.t, env, ScopeOfDecl(e), 12)
              loose == {v \in cands : InTs(v) /\ ~Coercible(v)}
              strict == {v \in cands : ~InTs(v) /\ Explicit(v)}
              dang == Dangling(e.stmt.t, env, ScopeOfDecl(e))
          IN (IF loose = {} THEN {} ELSE {Item("variables-too-loose", "the Variables type admits an assignment that variable coercion rejects", [ctx |-> ctx, witness |-> CHOOSE v \in loose : TRUE])})
             \cup (IF strict = {} THEN {} ELSE {Item("variables-too-strict", "the Variables type rejects an explicit, coercible assignment", [ctx |-> ctx, witness |-> CHOOSE v \in strict : TRUE])})
             \cup (IF dang = {} THEN {} ELSE {Item("dangling-reference", "a reference inside the Variables type does not resolve", [ctx |-> ctx, paths |-> dang])})

TGen ==
  /\ IsEvent("TypeGen")
  /\ LET e == Rec[l]
         S == MergeItems(CatFiles(e.schemaFiles, 1))
         cfg == [allowUndefined |-> e.cfg.allowUndefined, scalars |-> e.scalars, modelPlugin |-> FALSE, modelTypes |-> <<>>]
     IN IF e.panicked THEN Report(e, {Item("panic", "generate panicked", [diag |-> e.diag])})
        ELSE IF e.exit # 0 THEN Report(e, {Item("generate-failed", "generate failed on a valid schema and operation", [diag |-> e.diag])})
        ELSE IF e.schemaTs.k # "ok" \/ e.opTs[1].k # "ok" THEN Report(e, {Item("declaration-unreadable", "a declaration file is missing or not well-formed", [schema |-> e.schemaTs.k, op |-> e.opTs[1].k])})
        ELSE LET env == [schema |-> e.schemaTs.stmts, local |-> e.opTs[1].stmts, schemaNs |-> e.opTs[1].schemaNs]
                 senv == [schema |-> e.schemaTs.stmts, local |-> e.schemaTs.stmts, schemaNs |-> ""]
                 op == e.opFiles[1].doc.defs[1]
                 its1 == VariablesItems(S, cfg, env, op, e.variablesTypeName)
                 its2 == UNION {IF AliasApplies(S, "OperationInput", n) THEN AliasItems(S, cfg, senv, "OperationInput", n) ELSE {} : n \in AllTypeNames(S, cfg)}
             IN /\ Report(e, its1 \cup its2)
                /\ Stat([l |-> l, ok |-> (its1 \cup its2 = {}), vars |-> Len(op.vars)])
Init == l = 1
Next == TGen
Spec == Init /\ [][Next]_l
Done == PrintT(<<"DONE", ToJson([consumed |-> TLCGet("stats").diameter - 1])>>)
=============================================================================
