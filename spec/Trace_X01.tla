----------------------------- MODULE Trace_X01 -----------------------------
(* impl -> spec for CliConfig: each event is one run of the real CLI binary *)
(* in a materialised scenario; exit status, the files it wrote and the      *)
(* files its diagnostics name are judged against CliConfig!Expected.        *)
EXTENDS CliConfig, Json, IOUtils, TLC, SequencesExt
Rec == ndJsonDeserialize(IOEnv.TRACE)
VARIABLE l
IsEvent(k) == l <= Len(Rec) /\ Rec[l].ev = k /\ l' = l + 1
Scen(e) == [present |-> ToSet(e.scenario.present), explicit |-> e.scenario.explicit, schemaArg |-> e.scenario.schemaArg,
            cfgSchema |-> e.scenario.cfgSchema, opArg |-> e.scenario.opArg, outArg |-> e.scenario.outArg, commands |-> e.scenario.commands]
Item(cls, what, e, x) == [cls |-> cls, what |-> what, l |-> l, scenario |-> e.scenario, obs |-> e.obs, expected |-> [exit |-> x.exit, why |-> x.why, written |-> SetToSeq(x.written)]]
TRun ==
  /\ IsEvent("CliConfigRun")
  /\ LET e == Rec[l]
         x == Expected(Scen(e))
         o == e.obs
         its == (IF o.panicked THEN {Item("panic", "the CLI panicked", e, x)} ELSE {})
                \cup (IF ~o.panicked /\ o.exit # x.exit THEN {Item("exit-status", "exit status differs from the configuration model", e, x)} ELSE {})
                \cup (IF ~o.panicked /\ ToSet(o.written) # x.written THEN {Item("written-files", "the files written are not those the effective configuration names", e, x)} ELSE {})
                \cup (IF ~o.panicked /\ o.otherChanges # <<>> THEN {Item("other-changes", "a file of the project was modified or deleted", e, x)} ELSE {})
                \cup (IF ~o.panicked /\ x.named # {} /\ ~(x.named \subseteq ToSet(o.named)) THEN {Item("not-located", "the faulty file under the effective root is not named", e, x)} ELSE {})
                \cup (IF ~o.panicked /\ o.oneJson /\ ToSet(o.keys) # JsonKeys(Scen(e)) THEN {Item("json-keys", "the json output does not have exactly the documented top-level members for this outcome", e, x)} ELSE {})
                \cup (IF ~o.panicked /\ ~o.oneJson THEN {Item("json", "stdout is not one JSON document", e, x)} ELSE {})
     IN /\ \A it \in its : PrintT(<<"ITEM", ToJson(it)>>)
        /\ PrintT(<<"STAT", ToJson([l |-> l, why |-> x.why, ok |-> (its = {})])>>)
Init == l = 1
Next == TRun
Spec == Init /\ [][Next]_l
Done == PrintT(<<"DONE", ToJson([consumed |-> TLCGet("stats").diameter - 1])>>)
=============================================================================
