CONSTANTS
  MaxSchema = 2
  MaxOps = 3
  MaxFaults = 3
  Emitting = FALSE
INIT MCInit
NEXT PNext
INVARIANT PipelineInv
CHECK_DEADLOCK FALSE
