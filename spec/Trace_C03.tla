----------------------------- MODULE Trace_C03 -----------------------------
(***************************************************************************)
(* impl -> spec for C03 and C04: each event is one run of the real         *)
(* operation checker (after the real parse / extension / import            *)
(* resolution) on a rendered document over a rendered schema.              *)
(*  mode "valid" (C04): the abstract document is valid by construction and *)
(*    Validate!Violations agrees -> the checker must stay silent.          *)
(*  mode "fault" (C03): a labelled fault was injected into a cleanly       *)
(*    accepted base document and Validate!Violations confirms a rule is    *)
(*    violated -> the checker must report at least one diagnostic.         *)
(***************************************************************************)
EXTENDS Validate, Doc, Json, IOUtils
Rec == ndJsonDeserialize(IOEnv.TRACE)
SchemaTab == ndJsonDeserialize(IOEnv.SCHEMAS)      \* [{name, model}]: the fixture schemas, shared by all events
SchemaOf(n) == SchemaTab[CHOOSE i \in DOMAIN SchemaTab : SchemaTab[i].name = n].model.defs
VARIABLE l
IsEvent(k) == l <= Len(Rec) /\ Rec[l].ev = k /\ l' = l + 1

FilesOf(e) == [p \in {e.files[i].path : i \in DOMAIN e.files} |->
                 DescOf(e.files[CHOOSE i \in DOMAIN e.files : e.files[i].path = p].doc)]
DocOf(e, p) == e.files[CHOOSE i \in DOMAIN e.files : e.files[i].path = p].doc
(* the root file's definitions followed by the fragments it imports (set order is irrelevant to validity) *)
ResolvedDefs(e) ==
  LET files == FilesOf(e)
      own == ExecDefs(DocOf(e, e.root))
      pairs == {pr \in RefResult(files, e.root) : pr[1] # e.root}
      imported == {d \in UNION {{DocOf(e, p).defs[i] : i \in DOMAIN DocOf(e, p).defs} : p \in DOMAIN files \ {e.root}} :
                     d.k = "frag" /\ \E pr \in pairs : pr[2] = "frag" /\ pr[3] = d.name /\ \E i \in DOMAIN DocOf(e, pr[1]).defs : DocOf(e, pr[1]).defs[i] = d}
  IN own \o SetToSeq(imported)

Stat(s) == PrintT(<<"STAT", ToJson(s)>>)

TCheck ==
  /\ IsEvent("CheckOps")
  /\ LET e == Rec[l]
         S == SchemaOf(e.schemaName)
         defs == ResolvedDefs(e)
         viol == Violations(S, defs)
     IN IF e.out.k = "panic" THEN PrintT(<<"ITEM", ToJson([cls |-> "panic", what |-> "checker (or a stage before it) panicked", l |-> l, msg |-> e.out.msg, doc |-> e.files])>>)
        ELSE IF e.out.k = "stage-error" THEN
             (IF e.mode = "valid" THEN PrintT(<<"ITEM", ToJson([cls |-> "false-alarm-stage", what |-> "a stage before check rejected a valid document", l |-> l, out |-> e.out, doc |-> e.files])>>)
              ELSE Stat([l |-> l, discard |-> "fault already caught before check"]))
        ELSE IF e.mode = "valid" THEN
             (IF viol # {} THEN Stat([l |-> l, discard |-> "generated document is not valid", rules |-> {v.rule : v \in viol}])
              ELSE IF e.out.diags = <<>> THEN Stat([l |-> l, ok |-> "valid-accepted"])
              ELSE PrintT(<<"ITEM", ToJson([cls |-> "false-alarm", what |-> "check reported a diagnostic on a valid document", l |-> l,
                                             diags |-> e.out.diags, doc |-> e.files])>>))
        ELSE \* fault
             (IF e.baseDiags > 0 THEN Stat([l |-> l, discard |-> "base document not cleanly accepted"])
              ELSE IF viol = {} THEN Stat([l |-> l, discard |-> "mutation stayed valid", fault |-> e.fault])
              ELSE IF e.out.diags # <<>> THEN Stat([l |-> l, ok |-> "fault-reported", rules |-> {v.rule : v \in viol}, fault |-> IF "fault" \in DOMAIN e /\ "operator" \in DOMAIN e.fault THEN e.fault.operator ELSE "pair"])
              ELSE PrintT(<<"ITEM", ToJson([cls |-> "missed-violation", what |-> "check accepted a document that violates an implemented rule", l |-> l,
                                             rules |-> {v.rule : v \in viol}, fault |-> e.fault, doc |-> e.files])>>))
Init == l = 1
Next == TCheck
Spec == Init /\ [][Next]_l
Done == PrintT(<<"DONE", ToJson([consumed |-> TLCGet("stats").diameter - 1])>>)
=============================================================================
