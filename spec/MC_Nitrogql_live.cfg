CONSTANTS
  MaxSchema = 2
  MaxOps = 1
  MaxFaults = 2
  Emitting = FALSE
SPECIFICATION MCLiveSpec
PROPERTY PipelineTerminates
CHECK_DEADLOCK FALSE
