------------------------------ MODULE Gen_C12 ------------------------------
(* spec -> impl for C12: every fragment-spread graph over an operation and  *)
(* three fragments (acyclic, as check requires): each possible edge is      *)
(* absent, a direct spread, a spread nested in a field, or a spread inside  *)
(* an inline fragment; each fragment is local or lives in an imported file. *)
(* The abstract documents are built from this by bin/props/c12.py (pure     *)
(* plumbing); what each embedded document must be is decided by             *)
(* Doc!RuntimeDocContract in Trace_C12, from the abstract documents.        *)
EXTENDS Naturals, Sequences, TLC, Json
CONSTANTS OpPlacements, FragPlacements
VARIABLES op, f1, f2, loc, opName

Init == /\ op \in [1..3 -> OpPlacements]          \* op -> F1,F2,F3
        /\ f1 \in [1..2 -> FragPlacements]        \* F1 -> F2,F3
        /\ f2 \in [1..1 -> FragPlacements]        \* F2 -> F3
        /\ loc \in [1..3 -> {"local", "imported"}]
        /\ opName \in {"Q", "F1", "F3"}              \* operations and fragments have separate name spaces
Next == UNCHANGED <<op, f1, f2, loc, opName>>
Emit == PrintT(<<"CASE", ToJson([op |-> op, f1 |-> f1, f2 |-> f2, loc |-> loc, opName |-> opName])>>)
=============================================================================
