----------------------------- MODULE Trace_C15 -----------------------------
(***************************************************************************)
(* impl -> spec for C15: one event per schema model, holding the outcomes  *)
(* of the real CLI on two projects that differ only in how the schema is   *)
(* given (SDL files / introspection JSON).  Introspection.tla first        *)
(* establishes that the JSON describes the same schema (else the case is   *)
(* discarded); then `check` must report exactly the same operation files   *)
(* on both routes, `generate` must have the same outcome, and every        *)
(* exported type alias must have the same order-insensitive normal form    *)
(* (TsNorm.tla).                                                           *)
(***************************************************************************)
EXTENDS Introspection, TypeSysValidate, TsNorm, Json, IOUtils
Rec == ndJsonDeserialize(IOEnv.TRACE)
VARIABLE l
IsEvent(k) == l <= Len(Rec) /\ Rec[l].ev = k /\ l' = l + 1
Stat(s) == PrintT(<<"STAT", ToJson(s)>>)
RECURSIVE CatFiles(_, _)
CatFiles(files, i) == IF i > Len(files) THEN <<>> ELSE files[i].items \o CatFiles(files, i + 1)
Emit(e, its) == \A it \in its : PrintT(<<"ITEM", ToJson([cls |-> it.cls, what |-> it.what, l |-> l, id |-> e.id, more |-> it.more])>>)
It(cls, what, more) == [cls |-> cls, what |-> what, more |-> more]
ToSetOf(s) == {s[i] : i \in DOMAIN s}
(* The introspection system's own types (`__Schema`, `__Type`, ...) exist on the JSON route only (a standard introspection result lists    *)
(* them); they are outside the comparison: aliases of that name are skipped, and object members KEYED by such a type name (the entries of   *)
(* `Resolvers` / `ResolverOutput` for them) are dropped before the types are normalised.                                                     *)
RECURSIVE DropMetaTokens(_, _)      \* a type the reader keeps as raw tokens (`{ A: A; __Schema: __Schema; }[T]`): the members `m: m;` of meta types m go
DropMetaTokens(tk, M) ==
  IF Len(tk) = 0 THEN <<>>
  ELSE IF Len(tk) >= 4 /\ tk[1] \in M /\ tk[2] = ":" /\ tk[3] \in M /\ tk[4] = ";" THEN DropMetaTokens(SubSeq(tk, 5, Len(tk)), M)
  ELSE <<tk[1]>> \o DropMetaTokens(Tail(tk), M)
RECURSIVE StripMeta(_, _)
StripMeta(t, M) ==
  CASE t.k = "raw" -> [t EXCEPT !.tokens = DropMetaTokens(t.tokens, M)]
    [] t.k = "obj" -> [t EXCEPT !.fs = LET kept == SelectSeq(t.fs, LAMBDA f : f.key \notin M) IN [i \in DOMAIN kept |-> [kept[i] EXCEPT !.t = StripMeta(kept[i].t, M)]]]
    [] t.k \in {"union", "inter"} -> [t EXCEPT !.ts = [i \in DOMAIN t.ts |-> StripMeta(t.ts[i], M)]]
    [] t.k = "array" -> [t EXCEPT !.of = StripMeta(t.of, M)]
    [] t.k = "ref" -> [t EXCEPT !.args = [i \in DOMAIN t.args |-> StripMeta(t.args[i], M)]]
    [] OTHER -> t
AliasesM(files, M) == UNION {{[file |-> files[f].file, name |-> files[f].aliases[i].name, params |-> files[f].aliases[i].params, t |-> NT(StripMeta(files[f].aliases[i].t, M))]
                          : i \in {j \in DOMAIN files[f].aliases : ~IsMetaName(files[f].aliases[j].base) \/ files[f].aliases[j].base \in {"__nitrogql_schema", "__SelectionSet", "__Beautify", "__Resolver", "__TypeResolver"}}}
                         : f \in DOMAIN files}
Aliases(files) == UNION {{[file |-> files[f].file, name |-> files[f].aliases[i].name, params |-> files[f].aliases[i].params, t |-> NT(files[f].aliases[i].t)]
                          : i \in {j \in DOMAIN files[f].aliases : ~IsMetaName(files[f].aliases[j].base) \/ files[f].aliases[j].base \in {"__nitrogql_schema", "__SelectionSet", "__Beautify", "__Resolver", "__TypeResolver"}}}
                         : f \in DOMAIN files}

TTwin ==
  /\ IsEvent("Twin")
  /\ LET e == Rec[l]
         S == MergeItems(CatFiles(e.schemaFiles, 1))
     IN IF ~IntroConforms(S, e.intro) THEN Stat([l |-> l, id |-> e.id, discard |-> "the introspection JSON written by the harness does not describe the model"])
        ELSE LET a == e.sdl b == e.json
                 panics == IF a.check.panicked \/ a.gen.panicked \/ b.check.panicked \/ b.gen.panicked
                           THEN {It("panic", "a run panicked", [sdl |-> <<a.check.panicked, a.gen.panicked>>, json |-> <<b.check.panicked, b.gen.panicked>>])} ELSE {}
                 verdict == IF ToSetOf(a.check.offending) = ToSetOf(b.check.offending) /\ a.check.schemaErrors = b.check.schemaErrors /\ (a.check.exit = 0) = (b.check.exit = 0)
                            THEN {} ELSE {It("verdict-differs", "check accepts / rejects different operation documents on the two routes",
                                             [sdl |-> a.check, json |-> b.check, docs |-> e.docs])}
                 genOutcome == IF (a.gen.exit = 0) = (b.gen.exit = 0) THEN {} ELSE {It("generate-outcome-differs", "generate succeeds on one route only", [sdl |-> a.gen.diag, json |-> b.gen.diag])}
                 unread == IF a.gen.unreadable # <<>> \/ b.gen.unreadable # <<>> THEN {It("unreadable", "a declaration file is outside the emitted TS subset", [sdl |-> a.gen.unreadable, json |-> b.gen.unreadable])} ELSE {}
                 metaNames == LET ts == e.intro["__schema"].types IN {ts[i].name : i \in {j \in DOMAIN ts : IsMetaName(ts[j].name)}}
                 x == AliasesM(a.gen.files, metaNames) y == AliasesM(b.gen.files, metaNames)
                 types == IF a.gen.exit # 0 \/ b.gen.exit # 0 \/ x = y THEN {}
                          ELSE {It("types-differ", "an exported type differs between the two routes",
                                   [differing |-> {[file |-> z.file, name |-> z.name] : z \in (x \ y) \cup (y \ x)}])}
             IN /\ Emit(e, panics \cup verdict \cup genOutcome \cup unread \cup types)
                /\ Stat([l |-> l, id |-> e.id, ok |-> (panics \cup verdict \cup genOutcome \cup unread \cup types = {}), aliases |-> Cardinality(x),
                         offending |-> Len(a.check.offending), docs |-> Len(e.docs), generated |-> (a.gen.exit = 0)])
Init == l = 1
Next == TTwin
Spec == Init /\ [][Next]_l
Done == PrintT(<<"DONE", ToJson([consumed |-> TLCGet("stats").diameter - 1])>>)
=============================================================================
