----------------------------- MODULE Trace_C15 -----------------------------
(***************************************************************************)
(* impl -> spec for C15: one event per schema model, holding the outcomes  *)
(* of the real CLI on two projects that differ only in how the schema is   *)
(* given (SDL files / introspection JSON).  Introspection.tla first        *)
(* establishes that the JSON describes the same schema (else the case is   *)
(* discarded); then `check` must report exactly the same operation files   *)
(* on both routes, `generate` must have the same outcome, and every        *)
(* exported type alias must have the same order-insensitive normal form    *)
(* (TsNorm.tla).                                                           *)
(***************************************************************************)
EXTENDS Introspection, TypeSysValidate, TsNorm, Json, IOUtils
Rec == ndJsonDeserialize(IOEnv.TRACE)
VARIABLE l
IsEvent(k) == l <= Len(Rec) /\ Rec[l].ev = k /\ l' = l + 1
Stat(s) == PrintT(<<"STAT", ToJson(s)>>)
RECURSIVE CatFiles(_, _)
CatFiles(files, i) == IF i > Len(files) THEN <<>> ELSE files[i].items \o CatFiles(files, i + 1)
Emit(e, its) == \A it \in its : PrintT(<<"ITEM", ToJson([cls |-> it.cls, what |-> it.what, l |-> l, id |-> e.id, more |-> it.more])>>)
It(cls, what, more) == [cls |-> cls, what |-> what, more |-> more]
ToSetOf(s) == {s[i] : i \in DOMAIN s}
Aliases(files) == UNION {{[file |-> files[f].file, name |-> files[f].aliases[i].name, params |-> files[f].aliases[i].params, t |-> NT(files[f].aliases[i].t)]
                          : i \in {j \in DOMAIN files[f].aliases : ~IsMetaName(files[f].aliases[j].base) \/ files[f].aliases[j].base \in {"__nitrogql_schema", "__SelectionSet", "__Beautify", "__Resolver", "__TypeResolver"}}}
                         : f \in DOMAIN files}

TTwin ==
  /\ IsEvent("Twin")
  /\ LET e == Rec[l]
         S == MergeItems(CatFiles(e.schemaFiles, 1))
     IN IF ~IntroConforms(S, e.intro) THEN Stat([l |-> l, id |-> e.id, discard |-> "the introspection JSON written by the harness does not describe the model"])
        ELSE LET a == e.sdl b == e.json
                 panics == IF a.check.panicked \/ a.gen.panicked \/ b.check.panicked \/ b.gen.panicked
                           THEN {It("panic", "a run panicked", [sdl |-> <<a.check.panicked, a.gen.panicked>>, json |-> <<b.check.panicked, b.gen.panicked>>])} ELSE {}
                 verdict == IF ToSetOf(a.check.offending) = ToSetOf(b.check.offending) /\ a.check.schemaErrors = b.check.schemaErrors /\ (a.check.exit = 0) = (b.check.exit = 0)
                            THEN {} ELSE {It("verdict-differs", "check accepts / rejects different operation documents on the two routes",
                                             [sdl |-> a.check, json |-> b.check, docs |-> e.docs])}
                 genOutcome == IF (a.gen.exit = 0) = (b.gen.exit = 0) THEN {} ELSE {It("generate-outcome-differs", "generate succeeds on one route only", [sdl |-> a.gen.diag, json |-> b.gen.diag])}
                 unread == IF a.gen.unreadable # <<>> \/ b.gen.unreadable # <<>> THEN {It("unreadable", "a declaration file is outside the emitted TS subset", [sdl |-> a.gen.unreadable, json |-> b.gen.unreadable])} ELSE {}
                 x == Aliases(a.gen.files) y == Aliases(b.gen.files)
                 types == IF a.gen.exit # 0 \/ b.gen.exit # 0 \/ x = y THEN {}
                          ELSE {It("types-differ", "an exported type differs between the two routes",
                                   [differing |-> {[file |-> z.file, name |-> z.name] : z \in (x \ y) \cup (y \ x)}])}
             IN /\ Emit(e, panics \cup verdict \cup genOutcome \cup unread \cup types)
                /\ Stat([l |-> l, id |-> e.id, ok |-> (panics \cup verdict \cup genOutcome \cup unread \cup types = {}), aliases |-> Cardinality(x),
                         offending |-> Len(a.check.offending), docs |-> Len(e.docs), generated |-> (a.gen.exit = 0)])
Init == l = 1
Next == TTwin
Spec == Init /\ [][Next]_l
Done == PrintT(<<"DONE", ToJson([consumed |-> TLCGet("stats").diameter - 1])>>)
=============================================================================
