CONSTANTS
  MaxItems = 3
  MaxFiles = 1
  Emitting = FALSE
INIT EInit
NEXT ENext
INVARIANTS RegistryMeetsContract NoExtensionSurvives
CHECK_DEADLOCK FALSE
