CONSTANTS
  MaxFiles = 3
INIT Init
NEXT Next
INVARIANT Emit
CHECK_DEADLOCK FALSE
