---------------------------- MODULE Introspection ----------------------------
(***************************************************************************)
(* What the result of the standard introspection query contains for a     *)
(* schema S (GraphQL October 2021, section 4.2), as a predicate on the    *)
(* JSON document (null-free encoding, see bin/introgen.py): used by C15 to *)
(* establish that the two projects really describe the same schema before *)
(* their results are compared.                                            *)
(***************************************************************************)
EXTENDS Schema, TLC

Get(rec, key, dflt) == IF key \in DOMAIN rec THEN rec[key] ELSE dflt
KindName(k) == CASE k = "scalar" -> "SCALAR" [] k = "object" -> "OBJECT" [] k = "interface" -> "INTERFACE" [] k = "union" -> "UNION"
                 [] k = "enum" -> "ENUM" [] k = "input" -> "INPUT_OBJECT"
RECURSIVE FromIntroRef(_)
FromIntroRef(r) == IF r.kind = "NON_NULL" THEN [k |-> "nn", of |-> FromIntroRef(r.ofType)]
                   ELSE IF r.kind = "LIST" THEN [k |-> "list", of |-> FromIntroRef(r.ofType)]
                   ELSE [k |-> "named", n |-> r.name]
RECURSIVE RefKindsOk(_, _)
RefKindsOk(S, r) == IF r.kind \in {"NON_NULL", "LIST"} THEN "ofType" \in DOMAIN r /\ r.ofType.kind # "$none" /\ RefKindsOk(S, r.ofType)
                    ELSE HasType(S, r.name) /\ r.kind = KindName(KindOf(S, r.name))

Names(xs) == {xs[i].name : i \in DOMAIN xs}
InputValuesOk(S, js, defs) ==
  /\ Len(js) = Len(defs)
  /\ \A i \in DOMAIN defs : \E j \in DOMAIN js :
        js[j].name = defs[i].name /\ RefKindsOk(S, js[j].type) /\ FromIntroRef(js[j].type) = defs[i].type
        /\ (Get(js[j], "defaultValue", "$null") # "$null") = defs[i].hasDefault
FieldsOk(S, js, defs) ==
  /\ Len(js) = Len(defs)
  /\ \A i \in DOMAIN defs : \E j \in DOMAIN js :
        js[j].name = defs[i].name /\ RefKindsOk(S, js[j].type) /\ FromIntroRef(js[j].type) = defs[i].type /\ InputValuesOk(S, js[j].args, defs[i].args)
        /\ Get(js[j], "isDeprecated", FALSE) = (\E k \in DOMAIN defs[i].dirs : defs[i].dirs[k].name = "deprecated")

TypeEntryOk(S, t, d) ==
  /\ t.kind = KindName(d.k)
  /\ IF d.k \in {"object", "interface"} THEN FieldsOk(S, Get(t, "fields", <<>>), d.fields) /\ Names(Get(t, "interfaces", <<>>)) = {d.interfaces[i].n : i \in DOMAIN d.interfaces}
     ELSE Get(t, "fields", <<>>) = <<>>
  /\ IF d.k = "interface" THEN Names(Get(t, "possibleTypes", <<>>)) = PossibleTypes(S, d.name)
     ELSE IF d.k = "union" THEN Names(Get(t, "possibleTypes", <<>>)) = MembersOf(S, d.name)
     ELSE Get(t, "possibleTypes", <<>>) = <<>>
  /\ IF d.k = "enum" THEN Names(Get(t, "enumValues", <<>>)) = EnumValueNames(S, d.name) /\ Len(Get(t, "enumValues", <<>>)) = Len(d.values)
     ELSE Get(t, "enumValues", <<>>) = <<>>
  /\ IF d.k = "input" THEN InputValuesOk(S, Get(t, "inputFields", <<>>), d.inputFields) ELSE Get(t, "inputFields", <<>>) = <<>>

IsMetaName(n) == Len(n) >= 2 /\ SubSeq(n, 1, 2) = "__"
IntroConforms(S, intro) ==
  LET sch == intro["__schema"]
      ts == sch.types
      user == {i \in DOMAIN ts : ~IsMetaName(ts[i].name)}
      D == AllDefs(S)
      typeDefs == {i \in DOMAIN D : D[i].k \in TypeKinds}
  IN /\ {ts[i].name : i \in user} = {D[i].name : i \in typeDefs}
     /\ Cardinality(user) = Cardinality(typeDefs)
     /\ \A i \in user : TypeEntryOk(S, ts[i], TypeDef(S, ts[i].name))
     /\ sch.queryType.name = RootTypeName(S, "query")
     /\ Get(sch, "mutationType", [name |-> ""]).name = (IF HasRootType(S, "mutation") THEN RootTypeName(S, "mutation") ELSE "")
     /\ Get(sch, "subscriptionType", [name |-> ""]).name = (IF HasRootType(S, "subscription") THEN RootTypeName(S, "subscription") ELSE "")
     /\ \A i \in DOMAIN D : D[i].k = "directive" =>
           \E j \in DOMAIN sch.directives :
              /\ sch.directives[j].name = D[i].name
              /\ {sch.directives[j].locations[k] : k \in DOMAIN sch.directives[j].locations} = {D[i].locations[k].n : k \in DOMAIN D[i].locations}
              /\ InputValuesOk(S, sch.directives[j].args, D[i].args)
              /\ Get(sch.directives[j], "isRepeatable", FALSE) = D[i].repeatable
=============================================================================
