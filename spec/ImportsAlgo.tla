---------------------------- MODULE ImportsAlgo ----------------------------
(***************************************************************************)
(* Design-level model of nitrogql's import traversal                       *)
(* (crates/semantics/src/operation_import_resolver/mod.rs), as an explicit *)
(* stack machine.  Variant = "pinned" is the traversal of the pinned tree  *)
(* (an already-visited target is skipped entirely; the root is never       *)
(* marked) — TLC refutes it with a diamond; Variant = "fixed" is the       *)
(* traversal after the `fix:` commit and satisfies Imports!ImportContract. *)
(* The graph under traversal is built first, line by line, by the same     *)
(* builder as Gen_C13.  Never a conformance oracle.                        *)
(***************************************************************************)
EXTENDS Gen_C13
CONSTANT Variant
VARIABLES phase,      \* "build" | "run" | "done"
          stack,      \* frames [file, i]: file whose import line i is being processed
          visited, order, requested, defs, failed

avars == <<phase, stack, visited, order, requested, defs, failed>>

FragIdx(f) == DOMAIN Files[f].frags
Wanted(t, imp) == {i \in FragIdx(t) : imp.wild \/ Files[t].frags[i].name \in Range(imp.names)}
Missing(t, imp) == ~imp.wild /\ ~(Range(imp.names) \subseteq FragNames(Files[t]))

AInit == Init /\ phase = "build" /\ stack = <<>> /\ visited = {} /\ order = <<>>
         /\ requested = [f \in FileIds |-> {}] /\ defs = <<>> /\ failed = FALSE

Build == phase = "build" /\ Next /\ UNCHANGED avars
Start == /\ phase = "build" /\ phase' = "run" /\ stack' = <<[file |-> F1, i |-> 1]>>
         /\ visited' = IF Variant = "fixed" THEN {F1} ELSE {}
         /\ defs' = [k \in 1..(Len(Ops(F1)) + Len(Frags(F1))) |->
                        IF k <= Len(Ops(F1)) THEN <<F1, "op", Ops(F1)[k]>> ELSE <<F1, "frag", Frags(F1)[k - Len(Ops(F1))]>>]
         /\ UNCHANGED <<lines, order, requested, failed>>

Top == stack[Len(stack)]
Pop == SubSeq(stack, 1, Len(stack) - 1)
Bump == [Pop EXCEPT ![Len(Pop)].i = @ + 1]

FlattenOrder == LET RECURSIVE Fl(_)
                    Fl(k) == IF k > Len(order) THEN <<>>
                             ELSE [j \in 1..Cardinality(requested[order[k]]) |->
                                     <<order[k], "frag", Files[order[k]].frags[SetToSortSeq(requested[order[k]], <)[j]].name>>]
                                  \o Fl(k + 1)
                IN Fl(1)

(* selection step for import line `imp` of the caller frame (already popped to) *)
DoSelect(caller, imp, t) ==
  IF Missing(t, imp)
  THEN failed' = TRUE /\ phase' = "done" /\ stack' = <<>> /\ UNCHANGED <<visited, requested, defs>>
  ELSE /\ stack' = Bump
       /\ UNCHANGED <<visited, failed, phase>>
       /\ IF Variant = "fixed"
          THEN requested' = [requested EXCEPT ![t] = @ \cup Wanted(t, imp)] /\ UNCHANGED defs
          ELSE defs' = defs \o [j \in 1..Cardinality(Wanted(t, imp)) |->
                                  <<t, "frag", Files[t].frags[SetToSortSeq(Wanted(t, imp), <)[j]].name>>]
               /\ UNCHANGED requested

(* all import lines of the top file handled: return to the caller, which *)
(* then performs the selection for the line that led here                 *)
Return ==
  /\ phase = "run" /\ stack # <<>> /\ Top.i > Len(Files[Top.file].imports)
  /\ IF Len(stack) = 1
     THEN /\ phase' = "done" /\ stack' = <<>>
          /\ defs' = IF Variant = "fixed"
                     THEN defs \o FlattenOrder
                     ELSE defs
          /\ UNCHANGED <<visited, order, requested, failed>>
     ELSE LET caller == Pop[Len(Pop)]
              imp == Files[caller.file].imports[caller.i]
              t == Target(caller.file, imp) IN
          /\ order' = Append(order, Top.file)
          /\ DoSelect(caller, imp, t)
  /\ UNCHANGED lines

(* process import line Top.i of the top file *)
Visit ==
  /\ phase = "run" /\ stack # <<>> /\ Top.i <= Len(Files[Top.file].imports)
  /\ LET imp == Files[Top.file].imports[Top.i]
         t == Target(Top.file, imp) IN
     IF Variant = "pinned" /\ t \in visited
     THEN stack' = [stack EXCEPT ![Len(stack)].i = @ + 1] /\ UNCHANGED <<phase, visited, order, requested, defs, failed>>
     ELSE IF t \notin FileIds
     THEN failed' = TRUE /\ phase' = "done" /\ stack' = <<>> /\ UNCHANGED <<visited, order, requested, defs>>
     ELSE IF t \notin visited
     THEN \* recurse; the selection happens when the callee returns
          /\ visited' = visited \cup {t}
          /\ stack' = Append(stack, [file |-> t, i |-> 1])
          /\ UNCHANGED <<phase, order, requested, defs, failed>>
     ELSE \* fixed variant, target already expanded: select at once
          /\ IF Missing(t, imp)
             THEN failed' = TRUE /\ phase' = "done" /\ stack' = <<>> /\ UNCHANGED <<visited, requested, defs>>
             ELSE /\ stack' = [stack EXCEPT ![Len(stack)].i = @ + 1]
                  /\ requested' = [requested EXCEPT ![t] = @ \cup Wanted(t, imp)]
                  /\ UNCHANGED <<phase, visited, defs, failed>>
          /\ UNCHANGED order
  /\ UNCHANGED lines

ANext == Build \/ Start \/ Visit \/ Return
ASpec == AInit /\ [][ANext]_<<lines, avars>>

Outcome == IF failed THEN [k |-> "err"] ELSE [k |-> "ok", defs |-> defs]
AlgoMeetsContract == phase = "done" => ImportContract(Files, F1, Outcome)
Terminates == <>(phase = "done")
(* liveness: with weak fairness on the algorithm's steps every run over every import graph (cycles, self-imports, diamonds) ends *)
ALiveSpec == ASpec /\ WF_<<lines, avars>>(ANext)
=============================================================================
