------------------------------ MODULE Gen_C13 ------------------------------
(* spec -> impl for C13: a builder state machine adds one `#import` line   *)
(* per step to a fixed set of files; TLC's state graph is every import     *)
(* graph with <= MaxLines lines (any order: permutations are distinct      *)
(* states).  One CASE per state, with the reference verdict and result.    *)
EXTENDS Imports, TLC, Json
CONSTANTS MaxLines, Reduced
VARIABLES lines

F1 == <<"p", "f1.graphql">>   \* root: an operation and a fragment of its own
F2 == <<"p", "f2.graphql">>
F3 == <<"p", "q", "f3.graphql">>
F4 == <<"p", "f4.graphql">>
F5 == <<"p", "q", "f2.graphql">>   \* same file NAME as F2, beside F3: "./f2.graphql" means F2 in p/ and F5 in p/q/; it also has a fragment called A
FileIds == {F1, F2, F3, F4, F5}
Frags(f) == CASE f = F1 -> <<"R">> [] f = F2 -> <<"A", "B">> [] f = F3 -> <<"C", "D">> [] f = F4 -> <<"E">> [] f = F5 -> <<"A", "K">>
(* operations and fragments are separate name spaces: F2 also has an OPERATION called like its fragment A (placed before it) and one    *)
(* called Z - the name that import lines request although no fragment Z exists; F5 has an operation called like its fragment K        *)
Ops(f)   == CASE f = F1 -> <<"Q">> [] f = F2 -> <<"A", "Z">> [] f = F5 -> <<"K">> [] OTHER -> <<>>

(* relative spellings of `to` as seen from the directory of `from` *)
DirOf(f) == Front(f)
Spellings(from, to) ==
  LET up == [i \in 1..(Len(DirOf(from)) - 1) |-> ".."]        \* climb to /p
      direct == IF DirOf(from) = DirOf(to) THEN <<".", to[Len(to)]>>          \* a sibling: the shortest spelling
                ELSE IF DirOf(from) = <<"p">> THEN <<".">> \o Tail(to) ELSE up \o Tail(to)
  IN IF Reduced /\ to # F2 THEN {direct}
     ELSE {direct, <<".", "zz", "..">> \o (IF Head(direct) = "." THEN Tail(direct) ELSE direct)}

Dangling == <<"p", "nowhere.graphql">>
TargetChoices(to) ==
  IF to = Dangling THEN {[wild |-> TRUE, names |-> <<>>], [wild |-> FALSE, names |-> <<"A">>]}
  ELSE LET fr == Frags(to) IN
       IF Reduced THEN {[wild |-> TRUE, names |-> <<>>], [wild |-> FALSE, names |-> <<fr[1]>>],
                        [wild |-> FALSE, names |-> fr], [wild |-> FALSE, names |-> <<"Z">>]} ELSE
       {[wild |-> TRUE, names |-> <<>>], [wild |-> FALSE, names |-> <<fr[1]>>],
        [wild |-> FALSE, names |-> <<fr[Len(fr)]>>], [wild |-> FALSE, names |-> fr],
        [wild |-> FALSE, names |-> <<"Z">>], [wild |-> FALSE, names |-> <<fr[1], fr[1]>>]}

Line(from, spec, tg) == [from |-> from, spec |-> spec, wild |-> tg.wild, names |-> tg.names]

(* precondition of the stage (documented, not part of the property): one *)
(* file never combines `*` with anything else for one identically spelled *)
(* path - the per-file extension resolution rejects that earlier.         *)
Compatible(ls, ln) ==
  \A i \in DOMAIN ls : (ls[i].from = ln.from /\ ls[i].spec = ln.spec) => (~ls[i].wild /\ ~ln.wild)

Init == lines = <<>>
Next == /\ Len(lines) < MaxLines
        /\ \E from \in {F1, F2, F3}, to \in FileIds \cup {Dangling} :
             \E spec \in Spellings(from, to), tg \in TargetChoices(to) :
                LET ln == Line(from, spec, tg) IN
                Compatible(lines, ln) /\ lines' = Append(lines, ln)

ImportsOfFile(f) == LET idx == SelectSeq([i \in DOMAIN lines |-> i], LAMBDA i : lines[i].from = f)
                    IN [k \in DOMAIN idx |-> [spec |-> lines[idx[k]].spec, wild |-> lines[idx[k]].wild, names |-> lines[idx[k]].names]]
Desc(f) == [ok |-> TRUE, imports |-> ImportsOfFile(f),
            frags |-> [i \in DOMAIN Frags(f) |-> [name |-> Frags(f)[i], spreads |-> <<>>]],
            ops |-> [i \in DOMAIN Ops(f) |-> [name |-> Ops(f)[i], spreads |-> <<>>]]]
Files == [f \in FileIds |-> Desc(f)]

Emit == PrintT(<<"CASE", ToJson([files |-> SetToSeq({[path |-> f, d |-> Desc(f)] : f \in FileIds}),
                                 root |-> F1,
                                 expectErr |-> RefError(Files, F1),
                                 expect |-> IF RefError(Files, F1) THEN {} ELSE RefResult(Files, F1)])>>)
=============================================================================
