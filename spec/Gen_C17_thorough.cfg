CONSTANTS
  NBlocks = 5
INIT Init
NEXT Next
INVARIANT Emit
CHECK_DEADLOCK FALSE
