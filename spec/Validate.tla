------------------------------ MODULE Validate ------------------------------
(***************************************************************************)
(* Reference validation of executable documents against a schema: the      *)
(* GraphQL validation rules that nitrogql implements (property C03), each  *)
(* quantified over EVERY syntactic position.  Violations(S, defs) is the   *)
(* set of [rule, at] records; a document is valid w.r.t. the implemented   *)
(* rules iff it is empty (C04 uses that on documents that are valid by     *)
(* construction).  Written from the October 2021 specification, section 5. *)
(***************************************************************************)
EXTENDS Schema, TLC

V(rule, at) == {[rule |-> rule, at |-> at]}
VarsOf(op) == [mode |-> "defs", defs |-> op.vars]
AnyVars == [mode |-> "any", defs |-> <<>>]       \* inside a fragment checked on its own: variables come from whoever spreads it
NoVars == [mode |-> "none", defs |-> <<>>]       \* constant positions (directives on variable definitions)

HasVar(vars, n) == \E i \in DOMAIN vars.defs : vars.defs[i].name = n
VarDef(vars, n) == vars.defs[CHOOSE i \in DOMAIN vars.defs : vars.defs[i].name = n]

RECURSIVE TypesCompatible(_, _)     \* AreTypesCompatible(variableType, locationType)
TypesCompatible(vt, lt) ==
  IF lt.k = "nn" THEN (vt.k = "nn" /\ TypesCompatible(vt.of, lt.of))
  ELSE IF vt.k = "nn" THEN TypesCompatible(vt.of, lt)
  ELSE IF lt.k = "list" THEN (vt.k = "list" /\ TypesCompatible(vt.of, lt.of))
  ELSE IF vt.k = "list" THEN FALSE
  ELSE vt.n = lt.n

VariableUsageAllowed(vd, lt, locHasDefault) ==
  IF lt.k = "nn" /\ vd.type.k # "nn"
  THEN ((vd.hasDefault /\ vd.default.k # "null") \/ locHasDefault) /\ TypesCompatible(vd.type, lt.of)
  ELSE TypesCompatible(vd.type, lt)

RECURSIVE ValueViol(_, _, _, _, _)
ValueViol(S, vars, v, ty, locHasDefault) ==
  IF v.k = "var" THEN
     (IF vars.mode = "any" THEN {}
      ELSE IF ~HasVar(vars, v.n) THEN V("VarsDefined", v.n)
      ELSE IF VariableUsageAllowed(VarDef(vars, v.n), ty, locHasDefault) THEN {} ELSE V("VarUsageCompatible", v.n))
  ELSE IF ty.k = "nn" THEN (IF v.k = "null" THEN V("LiteralTypes", "null for non-null") ELSE ValueViol(S, vars, v, ty.of, FALSE))
  ELSE IF v.k = "null" THEN {}
  ELSE IF ty.k = "list" THEN
     (IF v.k = "list" THEN UNION {ValueViol(S, vars, v.vs[i], ty.of, FALSE) : i \in DOMAIN v.vs}
      ELSE ValueViol(S, vars, v, ty.of, FALSE))                       \* a single value is coerced to a list of one
  ELSE IF ~HasType(S, ty.n) THEN V("LiteralTypes", "unknown type")
  ELSE LET kd == KindOf(S, ty.n) IN
     IF kd = "scalar" THEN
        (CASE ty.n = "Int" -> IF v.k = "int" THEN {} ELSE V("LiteralTypes", "Int")
           [] ty.n = "Float" -> IF v.k \in {"int", "float"} THEN {} ELSE V("LiteralTypes", "Float")
           [] ty.n = "String" -> IF v.k = "string" THEN {} ELSE V("LiteralTypes", "String")
           [] ty.n = "Boolean" -> IF v.k = "bool" THEN {} ELSE V("LiteralTypes", "Boolean")
           [] ty.n = "ID" -> IF v.k \in {"string", "int"} THEN {} ELSE V("LiteralTypes", "ID")
           [] OTHER -> {})                                             \* custom scalars accept any literal
     ELSE IF kd = "enum" THEN (IF v.k = "enum" /\ v.v \in EnumValueNames(S, ty.n) THEN {} ELSE V("LiteralTypes", "enum"))
     ELSE IF kd = "input" THEN
        (IF v.k # "object" THEN V("LiteralTypes", "input object")
         ELSE UNION {IF v.fs[i].name \in InputFieldNames(S, ty.n)
                     THEN LET fd == InputFieldDef(S, ty.n, v.fs[i].name) IN ValueViol(S, vars, v.fs[i].v, fd.type, fd.hasDefault)
                     ELSE V("LiteralTypes", "unknown input field") : i \in DOMAIN v.fs}
              \cup UNION {LET fd == InputFieldDef(S, ty.n, f) IN
                          IF fd.type.k = "nn" /\ ~fd.hasDefault /\ ~\E i \in DOMAIN v.fs : v.fs[i].name = f
                          THEN V("LiteralTypes", "missing input field") ELSE {} : f \in InputFieldNames(S, ty.n)})
     ELSE V("LiteralTypes", "output type in input position")

ArgsViol(S, vars, args, defs) ==
  UNION {IF \E j \in DOMAIN defs : defs[j].name = args[i].name
         THEN LET d == defs[CHOOSE j \in DOMAIN defs : defs[j].name = args[i].name] IN ValueViol(S, vars, args[i].v, d.type, d.hasDefault)
         ELSE V("ArgsKnown", args[i].name) : i \in DOMAIN args}
  \cup UNION {IF defs[j].type.k = "nn" /\ ~defs[j].hasDefault /\ ~\E i \in DOMAIN args : args[i].name = defs[j].name
              THEN V("ArgsRequired", defs[j].name) ELSE {} : j \in DOMAIN defs}

DirsViol(S, vars, dirs, loc) ==
  UNION {IF ~HasDirective(S, dirs[i].name) THEN V("DirectivesKnown", dirs[i].name)
         ELSE LET dd == DirectiveDef(S, dirs[i].name) IN
              (IF \E k \in DOMAIN dd.locations : dd.locations[k].n = loc THEN {} ELSE V("DirectiveLocations", dirs[i].name))
              \cup (IF ~dd.repeatable /\ \E j \in 1..(i - 1) : dirs[j].name = dirs[i].name THEN V("DirectivesUniquePerLocation", dirs[i].name) ELSE {})
              \cup ArgsViol(S, vars, dirs[i].args, dd.args)
         : i \in DOMAIN dirs}

Applicable(S, parent, cond) == PossibleTypes(S, parent) \cap PossibleTypes(S, cond) # {}

RECURSIVE SelViol(_, _, _, _, _, _)
SelViol(S, frs, vars, parent, sel, stack) ==
  UNION {
    CASE sel[i].k = "field" ->
           IF sel[i].name \notin FieldNames(S, parent) THEN V("FieldsExist", sel[i].name)
           ELSE LET fd == FieldDef(S, parent, sel[i].name) ut == Unwrap(fd.type) IN
                DirsViol(S, vars, sel[i].dirs, "FIELD") \cup ArgsViol(S, vars, sel[i].args, fd.args)
                \cup (IF ~HasType(S, ut) THEN {}
                      ELSE IF IsLeafType(S, ut) THEN (IF sel[i].hasSel THEN V("LeafSelections", sel[i].name) ELSE {})
                      ELSE IF ~sel[i].hasSel THEN V("LeafSelections", sel[i].name)
                      ELSE SelViol(S, frs, vars, ut, sel[i].sel, stack))
      [] sel[i].k = "spread" ->
           DirsViol(S, vars, sel[i].dirs, "FRAGMENT_SPREAD")
           \cup (IF sel[i].name \notin DOMAIN frs THEN V("FragKnown", sel[i].name)
                 ELSE IF sel[i].name \in stack THEN V("FragNoCycles", sel[i].name)
                 ELSE LET fr == frs[sel[i].name] IN
                      IF ~IsCompositeType(S, fr.on) THEN {}             \* reported at the fragment definition
                      ELSE (IF Applicable(S, parent, fr.on) THEN {} ELSE V("FragSpreadPossible", sel[i].name))
                           \cup SelViol(S, frs, vars, fr.on, fr.sel, stack \cup {sel[i].name}))
      [] sel[i].k = "inline" ->
           DirsViol(S, vars, sel[i].dirs, "INLINE_FRAGMENT")
           \cup (IF ~sel[i].hasOn THEN SelViol(S, frs, vars, parent, sel[i].sel, stack)
                 ELSE IF ~IsCompositeType(S, sel[i].on) THEN V("FragTargets", sel[i].on)
                 ELSE (IF Applicable(S, parent, sel[i].on) THEN {} ELSE V("FragSpreadPossible", sel[i].on))
                      \cup SelViol(S, frs, vars, sel[i].on, sel[i].sel, stack))
    : i \in DOMAIN sel}

(* response keys of the root fields of a selection set, spreads and inline fragments expanded *)
RECURSIVE RootKeys(_, _, _)
RootKeys(frs, sel, stack) ==
  UNION {CASE sel[i].k = "field" -> {IF sel[i].hasAlias THEN sel[i].alias ELSE sel[i].name}
           [] sel[i].k = "spread" -> IF sel[i].name \in DOMAIN frs /\ sel[i].name \notin stack
                                     THEN RootKeys(frs, frs[sel[i].name].sel, stack \cup {sel[i].name}) ELSE {}
           [] sel[i].k = "inline" -> RootKeys(frs, sel[i].sel, stack)
         : i \in DOMAIN sel}

RECURSIVE Reached(_, _, _)      \* fragments reachable from a selection set
Reached(frs, sel, acc) ==
  LET direct == UNION {CASE sel[i].k = "field" -> IF sel[i].hasSel THEN Reached(frs, sel[i].sel, acc) ELSE {}
                         [] sel[i].k = "spread" -> IF sel[i].name \in DOMAIN frs /\ sel[i].name \notin acc
                                                   THEN {sel[i].name} \cup Reached(frs, frs[sel[i].name].sel, acc \cup {sel[i].name}) ELSE {}
                         [] sel[i].k = "inline" -> Reached(frs, sel[i].sel, acc)
                       : i \in DOMAIN sel}
  IN direct

Ops(defs) == SelectSeq(defs, LAMBDA d : d.k = "op")
Frags(defs) == SelectSeq(defs, LAMBDA d : d.k = "frag")
FragMapOf(defs) == LET fs == Frags(defs) IN [n \in {fs[i].name : i \in DOMAIN fs} |-> fs[CHOOSE i \in DOMAIN fs : fs[i].name = n]]

OpViol(S, frs, op) ==
  LET vars == VarsOf(op) IN
  (IF ~HasRootType(S, op.opType) THEN V("FieldsExist", "no root type for " \o op.opType)
   ELSE SelViol(S, frs, vars, RootTypeName(S, op.opType), op.sel, {})
        \cup (IF op.opType = "subscription" /\ Cardinality(RootKeys(frs, op.sel, {})) # 1 THEN V("SingleSubscriptionRoot", op.name) ELSE {}))
  \cup DirsViol(S, vars, op.dirs, CASE op.opType = "query" -> "QUERY" [] op.opType = "mutation" -> "MUTATION" [] OTHER -> "SUBSCRIPTION")
  \cup UNION {(IF \E j \in 1..(i - 1) : op.vars[j].name = op.vars[i].name THEN V("VarsUnique", op.vars[i].name) ELSE {})
              \cup (IF IsInputTypeName(S, Unwrap(op.vars[i].type)) THEN {} ELSE V("VarsInputTypes", op.vars[i].name))
              \cup DirsViol(S, NoVars, op.vars[i].dirs, "VARIABLE_DEFINITION")
              : i \in DOMAIN op.vars}

Violations(S, defs) ==
  LET ops == Ops(defs) fs == Frags(defs) frs == FragMapOf(defs)
      reached == UNION {Reached(frs, ops[i].sel, {}) : i \in DOMAIN ops}
  IN UNION {OpViol(S, frs, ops[i]) : i \in DOMAIN ops}
     \cup UNION {IF ops[i].hasName /\ \E j \in 1..(i - 1) : ops[j].hasName /\ ops[j].name = ops[i].name THEN V("UniqueOpNames", ops[i].name) ELSE {} : i \in DOMAIN ops}
     \cup (IF Len(ops) > 1 /\ \E i \in DOMAIN ops : ~ops[i].hasName THEN V("LoneAnonymous", "") ELSE {})
     \cup UNION {(IF \E j \in 1..(i - 1) : fs[j].name = fs[i].name THEN V("FragNamesUnique", fs[i].name) ELSE {})
                 \cup (IF IsCompositeType(S, fs[i].on) THEN {} ELSE V("FragTargets", fs[i].name))
                 \cup DirsViol(S, AnyVars, fs[i].dirs, "FRAGMENT_DEFINITION")
                 \* a fragment nobody spreads is still a definition of the document: its own selections must be valid
                 \cup (IF fs[i].name \notin reached /\ IsCompositeType(S, fs[i].on)
                       THEN SelViol(S, frs, AnyVars, fs[i].on, fs[i].sel, {fs[i].name}) ELSE {})
                 : i \in DOMAIN fs}

RulesViolated(S, defs) == {v.rule : v \in Violations(S, defs)}
=============================================================================
