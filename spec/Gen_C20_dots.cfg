CONSTANTS
  Comps = {"x", "X", ".h", "...", ".", ".."}
  MaxDepth = 3
INIT Init
NEXT Next
INVARIANT Emit
CHECK_DEADLOCK FALSE
