------------------------------- MODULE Lexer -------------------------------
(***************************************************************************)
(* The GraphQL lexical grammar (October 2021 spec, section 2.1, plus the   *)
(* draft's \u{...} and surrogate-pair escapes) over a sequence of Unicode  *)
(* code points.  Reference for C07 / C16 / C18 (token starts).             *)
(*                                                                         *)
(* Lex(s) = [ok, toks, errLine, errCol]; a token is                        *)
(*   [k    : "punct" | "name" | "int" | "float" | "string" | "block",      *)
(*    text : the code points of the token as written,                      *)
(*    val  : for strings, the code points of the string VALUE              *)
(*           (escapes decoded; BlockStringValue() applied), else << >>,    *)
(*    line, col : 0-based line and column (in code points) of its start]   *)
(* Lines end at LF, CR LF, or a lone CR, as the specification says.        *)
(***************************************************************************)
EXTENDS Naturals, Integers, Sequences, FiniteSets

EOF == -1
At(s, i) == IF i >= 1 /\ i <= Len(s) THEN s[i] ELSE EOF

LF == 10  CR == 13  TAB == 9  SP == 32  BOM == 65279  COMMA == 44  HASH == 35
QUOTE == 34  BSL == 92  DOT == 46  MINUS == 45  PLUS == 43

IsDigit(c)     == c >= 48 /\ c <= 57
IsLetter(c)    == (c >= 65 /\ c <= 90) \/ (c >= 97 /\ c <= 122)
IsNameStart(c) == c = 95 \/ IsLetter(c)
IsNameCont(c)  == IsNameStart(c) \/ IsDigit(c)
IsHex(c)       == IsDigit(c) \/ (c >= 65 /\ c <= 70) \/ (c >= 97 /\ c <= 102)
HexVal(c)      == IF IsDigit(c) THEN c - 48 ELSE IF c >= 97 THEN c - 87 ELSE c - 55
IsLineTerm(c)  == c = LF \/ c = CR
IsWhite(c)     == c = TAB \/ c = SP

(* ! $ & ( ) : = @ [ ] { | } *)
SinglePunct == {33, 36, 38, 40, 41, 58, 61, 64, 91, 93, 123, 124, 125}

(* ---- ignored tokens -------------------------------------------------- *)
RECURSIVE CommentEnd(_, _)
CommentEnd(s, i) == IF At(s, i) = EOF \/ IsLineTerm(At(s, i)) THEN i ELSE CommentEnd(s, i + 1)

RECURSIVE SkipIgnored(_, _, _, _)
SkipIgnored(s, i, line, col) ==
  LET c == At(s, i) IN
  IF c = TAB \/ c = SP \/ c = COMMA \/ c = BOM THEN SkipIgnored(s, i + 1, line, col + 1)
  ELSE IF c = LF THEN SkipIgnored(s, i + 1, line + 1, 0)
  ELSE IF c = CR THEN (IF At(s, i + 1) = LF THEN SkipIgnored(s, i + 2, line + 1, 0) ELSE SkipIgnored(s, i + 1, line + 1, 0))
  ELSE IF c = HASH THEN LET j == CommentEnd(s, i) IN SkipIgnored(s, j, line, col + (j - i))
  ELSE [i |-> i, line |-> line, col |-> col]

(* ---- names and numbers ----------------------------------------------- *)
RECURSIVE NameEnd(_, _)
NameEnd(s, i) == IF IsNameCont(At(s, i)) THEN NameEnd(s, i + 1) ELSE i
RECURSIVE DigitsEnd(_, _)
DigitsEnd(s, i) == IF IsDigit(At(s, i)) THEN DigitsEnd(s, i + 1) ELSE i

(* [ok, end (index after the token), float] *)
ScanNumber(s, i) ==
  LET j0 == IF At(s, i) = MINUS THEN i + 1 ELSE i IN
  IF ~IsDigit(At(s, j0)) THEN [ok |-> FALSE, end |-> j0, float |-> FALSE]
  ELSE
  LET j1 == IF At(s, j0) = 48 THEN j0 + 1 ELSE DigitsEnd(s, j0)          \* IntegerPart
      hasFrac == At(s, j1) = DOT /\ IsDigit(At(s, j1 + 1))
      j2 == IF hasFrac THEN DigitsEnd(s, j1 + 1) ELSE j1
      e == At(s, j2)
      sgn == IF At(s, j2 + 1) = PLUS \/ At(s, j2 + 1) = MINUS THEN j2 + 2 ELSE j2 + 1
      hasExp == (e = 69 \/ e = 101) /\ IsDigit(At(s, sgn))
      j3 == IF hasExp THEN DigitsEnd(s, sgn) ELSE j2
      nxt == At(s, j3)
  IN IF IsDigit(nxt) \/ nxt = DOT \/ IsNameStart(nxt)
     THEN [ok |-> FALSE, end |-> j3, float |-> FALSE]                     \* lookahead restriction
     ELSE [ok |-> TRUE, end |-> j3, float |-> hasFrac \/ hasExp]

(* ---- strings ---------------------------------------------------------- *)
IsHighSurr(v) == v >= 55296 /\ v <= 56319
IsLowSurr(v)  == v >= 56320 /\ v <= 57343
Hex4(s, i) == IF IsHex(At(s, i)) /\ IsHex(At(s, i + 1)) /\ IsHex(At(s, i + 2)) /\ IsHex(At(s, i + 3))
              THEN HexVal(At(s, i)) * 4096 + HexVal(At(s, i + 1)) * 256 + HexVal(At(s, i + 2)) * 16 + HexVal(At(s, i + 3))
              ELSE -1
RECURSIVE HexBraced(_, _, _, _)        \* after "\u{": [v, end] ; v = -1 on error
HexBraced(s, i, acc, n) ==
  LET c == At(s, i) IN
  IF c = 125 THEN (IF n = 0 THEN [v |-> -1, end |-> i] ELSE [v |-> acc, end |-> i + 1])
  ELSE IF IsHex(c) /\ acc <= 1114111 THEN HexBraced(s, i + 1, acc * 16 + HexVal(c), n + 1)
  ELSE [v |-> -1, end |-> i]

SimpleEscape(c) == CASE c = QUOTE -> QUOTE [] c = BSL -> BSL [] c = 47 -> 47 [] c = 98 -> 8 [] c = 102 -> 12
                     [] c = 110 -> 10 [] c = 114 -> 13 [] c = 116 -> 9 [] OTHER -> -1

(* after the opening quote at i-1: [ok, end (index after closing quote), val] *)
RECURSIVE ScanString(_, _, _)
ScanString(s, i, acc) ==
  LET c == At(s, i) IN
  IF c = QUOTE THEN [ok |-> TRUE, end |-> i + 1, val |-> acc]
  ELSE IF c = EOF \/ IsLineTerm(c) THEN [ok |-> FALSE, end |-> i, val |-> acc]
  ELSE IF c # BSL THEN ScanString(s, i + 1, Append(acc, c))
  ELSE LET d == At(s, i + 1) IN
       IF d = 117 THEN                                                     \* \u
         IF At(s, i + 2) = 123 THEN
           LET h == HexBraced(s, i + 3, 0, 0) IN
           IF h.v < 0 \/ h.v > 1114111 \/ IsHighSurr(h.v) \/ IsLowSurr(h.v)
           THEN [ok |-> FALSE, end |-> i, val |-> acc]
           ELSE ScanString(s, h.end, Append(acc, h.v))
         ELSE LET v == Hex4(s, i + 2) IN
           IF v < 0 THEN [ok |-> FALSE, end |-> i, val |-> acc]
           ELSE IF IsHighSurr(v) THEN
             LET w == IF At(s, i + 6) = BSL /\ At(s, i + 7) = 117 THEN Hex4(s, i + 8) ELSE -1 IN
             IF w >= 0 /\ IsLowSurr(w)
             THEN ScanString(s, i + 12, Append(acc, 65536 + (v - 55296) * 1024 + (w - 56320)))
             ELSE [ok |-> FALSE, end |-> i, val |-> acc]                   \* lone leading surrogate
           ELSE IF IsLowSurr(v) THEN [ok |-> FALSE, end |-> i, val |-> acc] \* lone trailing surrogate
           ELSE ScanString(s, i + 6, Append(acc, v))
       ELSE LET v == SimpleEscape(d) IN
         IF v < 0 THEN [ok |-> FALSE, end |-> i, val |-> acc]
         ELSE ScanString(s, i + 2, Append(acc, v))

(* after the opening triple quote: raw value (with \""" already replaced) *)
RECURSIVE ScanBlock(_, _, _)
ScanBlock(s, i, acc) ==
  LET c == At(s, i) IN
  IF c = EOF THEN [ok |-> FALSE, end |-> i, raw |-> acc]
  ELSE IF c = QUOTE /\ At(s, i + 1) = QUOTE /\ At(s, i + 2) = QUOTE THEN [ok |-> TRUE, end |-> i + 3, raw |-> acc]
  ELSE IF c = BSL /\ At(s, i + 1) = QUOTE /\ At(s, i + 2) = QUOTE /\ At(s, i + 3) = QUOTE
       THEN ScanBlock(s, i + 4, acc \o <<QUOTE, QUOTE, QUOTE>>)
  ELSE ScanBlock(s, i + 1, Append(acc, c))

(* BlockStringValue(rawValue), spec section 2.9.4 *)
RECURSIVE SplitLines(_, _, _, _)       \* raw, i, current line, lines so far
SplitLines(r, i, cur, ls) ==
  IF i > Len(r) THEN Append(ls, cur)
  ELSE IF r[i] = LF THEN SplitLines(r, i + 1, <<>>, Append(ls, cur))
  ELSE IF r[i] = CR THEN SplitLines(r, IF At(r, i + 1) = LF THEN i + 2 ELSE i + 1, <<>>, Append(ls, cur))
  ELSE SplitLines(r, i + 1, Append(cur, r[i]), ls)

RECURSIVE LeadingWhite(_, _)
LeadingWhite(ln, i) == IF i <= Len(ln) /\ IsWhite(ln[i]) THEN LeadingWhite(ln, i + 1) ELSE i - 1
IsBlankLine(ln) == LeadingWhite(ln, 1) = Len(ln)

MinOf(S) == CHOOSE x \in S : \A y \in S : x <= y
RECURSIVE JoinLines(_, _)
JoinLines(ls, i) == IF i > Len(ls) THEN <<>> ELSE IF i = Len(ls) THEN ls[i] ELSE ls[i] \o <<LF>> \o JoinLines(ls, i + 1)

BlockStringValue(raw) ==
  LET ls == SplitLines(raw, 1, <<>>, <<>>)
      indents == {LeadingWhite(ls[k], 1) : k \in {j \in 2..Len(ls) : ~IsBlankLine(ls[j])}}
      common == IF indents = {} THEN 0 ELSE MinOf(indents)
      ded == [k \in 1..Len(ls) |-> IF k = 1 \/ common = 0 THEN ls[k]
                                   ELSE SubSeq(ls[k], (IF Len(ls[k]) < common THEN Len(ls[k]) ELSE common) + 1, Len(ls[k]))]
      nonblank == {k \in 1..Len(ded) : ~IsBlankLine(ded[k])}
  IN IF nonblank = {} THEN <<>>
     ELSE LET a == MinOf(nonblank) b == CHOOSE x \in nonblank : \A y \in nonblank : y <= x
          IN JoinLines(SubSeq(ded, a, b), 1)

(* position after a piece of text that may contain line terminators *)
RECURSIVE Advance(_, _, _, _, _)
Advance(s, i, j, line, col) ==
  IF i >= j THEN [line |-> line, col |-> col]
  ELSE IF s[i] = LF THEN Advance(s, i + 1, j, line + 1, 0)
  ELSE IF s[i] = CR THEN (IF i + 1 < j /\ s[i + 1] = LF THEN Advance(s, i + 2, j, line + 1, 0) ELSE Advance(s, i + 1, j, line + 1, 0))
  ELSE Advance(s, i + 1, j, line, col + 1)

Tok(k, s, i, j, val, line, col) == [k |-> k, text |-> SubSeq(s, i, j - 1), val |-> val, line |-> line, col |-> col]

RECURSIVE LexFrom(_, _, _, _, _)
LexFrom(s, i0, line0, col0, acc) ==
  LET p == SkipIgnored(s, i0, line0, col0)
      i == p.i line == p.line col == p.col
      c == At(s, i)
      Fail == [ok |-> FALSE, toks |-> acc, errLine |-> line, errCol |-> col]
  IN
  IF c = EOF THEN [ok |-> TRUE, toks |-> acc, errLine |-> line, errCol |-> col]
  ELSE IF c \in SinglePunct THEN LexFrom(s, i + 1, line, col + 1, Append(acc, Tok("punct", s, i, i + 1, <<>>, line, col)))
  ELSE IF c = DOT THEN
       IF At(s, i + 1) = DOT /\ At(s, i + 2) = DOT
       THEN LexFrom(s, i + 3, line, col + 3, Append(acc, Tok("punct", s, i, i + 3, <<>>, line, col)))
       ELSE Fail
  ELSE IF IsNameStart(c) THEN
       LET j == NameEnd(s, i) IN LexFrom(s, j, line, col + (j - i), Append(acc, Tok("name", s, i, j, <<>>, line, col)))
  ELSE IF c = MINUS \/ IsDigit(c) THEN
       LET n == ScanNumber(s, i) IN
       IF ~n.ok THEN Fail
       ELSE LexFrom(s, n.end, line, col + (n.end - i),
                    Append(acc, Tok(IF n.float THEN "float" ELSE "int", s, i, n.end, <<>>, line, col)))
  ELSE IF c = QUOTE THEN
       IF At(s, i + 1) = QUOTE /\ At(s, i + 2) = QUOTE THEN
         LET b == ScanBlock(s, i + 3, <<>>) IN
         IF ~b.ok THEN Fail
         ELSE LET q == Advance(s, i, b.end, line, col) IN
              LexFrom(s, b.end, q.line, q.col, Append(acc, Tok("block", s, i, b.end, BlockStringValue(b.raw), line, col)))
       ELSE LET t == ScanString(s, i + 1, <<>>) IN
         IF ~t.ok THEN Fail
         ELSE LexFrom(s, t.end, line, col + (t.end - i), Append(acc, Tok("string", s, i, t.end, t.val, line, col)))
  ELSE Fail

Lex(s) == LexFrom(s, 1, 0, 0, <<>>)

(* token whose first character is at (line, col), if any *)
TokenAt(toks, line, col) == {k \in DOMAIN toks : toks[k].line = line /\ toks[k].col = col}
=============================================================================
