CONSTANTS
  NDocs = 120
  NOperators = 46
  MaxSite = 14
INIT Init
NEXT Next
INVARIANT Emit
CHECK_DEADLOCK FALSE
