CONSTANTS
  NDocs = 120
  NOperators = 45
  MaxSite = 14
INIT Init
NEXT Next
INVARIANT Emit
CHECK_DEADLOCK FALSE
