CONSTANTS
  NDocs = 130
  MaxPos = 90
  PosStep = 5
  NRepl = 28
  ReplStep = 4
INIT Init
NEXT Next
INVARIANT Emit
CHECK_DEADLOCK FALSE
