CONSTANTS
  Comps = {"x", "y", ".", ".."}
  MaxDepth = 4
INIT Init
NEXT Next
INVARIANTS NormalizeAgrees NormalizeIdem ResolveAgrees RelativeInverse ResolveIsNormal
CHECK_DEADLOCK FALSE
