CONSTANTS
  OpPlacements = {"none", "direct", "nested", "inline"}
  FragPlacements = {"none", "direct", "nested", "inline"}
INIT Init
NEXT Next
INVARIANT Emit
CHECK_DEADLOCK FALSE
