INIT Init
NEXT Next
INVARIANT Emit
CHECK_DEADLOCK FALSE
