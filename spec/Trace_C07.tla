----------------------------- MODULE Trace_C07 -----------------------------
(***************************************************************************)
(* impl -> spec for C07.  An event carries the code points of a text, the  *)
(* abstract document A it was rendered from, and what the real parser      *)
(* returned (projected AST, error, or panic).                               *)
(*                                                                         *)
(* The oracle is Lexer.tla + Syntax.tla: if Lex(text) - ignored tokens     *)
(* removed - is exactly Flatten(A), the text denotes A; then the parser    *)
(* must return A (structurally) and every reported position must be the    *)
(* start of the token it belongs to.  If the text does not lex to          *)
(* Flatten(A) the case is a generator fault and is discarded (counted).    *)
(***************************************************************************)
EXTENDS Lexer, Syntax, TLC, Json, IOUtils
Rec == ndJsonDeserialize(IOEnv.TRACE)
VARIABLE l
IsEvent(k) == l <= Len(Rec) /\ Rec[l].ev = k /\ l' = l + 1

(* string -> code points, as tabulated by the harness for every string of the event *)
TabOf(e) == [s \in {e.cptab[i].s : i \in DOMAIN e.cptab} |-> e.cptab[CHOOSE i \in DOMAIN e.cptab : e.cptab[i].s = s].cp]

IsStr(tk) == tk.k \in {"string", "block"}
TokMatches(tk, f, tab) == IF f.k = "s" THEN IsStr(tk) /\ tk.val = f.val
                          ELSE IF f.k = "anystr" THEN IsStr(tk)      \* (the VALUE is judged by the structural comparison)
                          ELSE ~IsStr(tk) /\ f.s \in DOMAIN tab /\ tk.text = tab[f.s]
Denotes(toks, flat, tab) == Len(toks) = Len(flat) /\ \A i \in DOMAIN toks : TokMatches(toks[i], flat[i], tab)

(* ---- anchors: (position, what token must start there), in document order ---- *)
Anc(pos, alts) == <<[line |-> pos.line, col |-> pos.col, alts |-> alts]>>     \* alts: set of flattened-token descriptors
TxtA(s) == [k |-> "t", s |-> s]
StrA(cp) == [k |-> "anystr"]

RECURSIVE AType(_)
AType(t) == CASE t.k = "named" -> Anc(t.pos, {TxtA(t.n)})
              [] t.k = "list"  -> Anc(t.pos, {TxtA("[")}) \o AType(t.of)
              [] t.k = "nn"    -> AType(t.of)                \* no token of its own: the position of what it wraps
RECURSIVE AValue(_)
AValue(v) == CASE v.k \in {"int", "float", "enum"} -> Anc(v.pos, {TxtA(v.v)})
               [] v.k = "string" -> Anc(v.pos, {StrA(v.cp)})
               [] v.k = "bool"   -> Anc(v.pos, {TxtA(IF v.v THEN "true" ELSE "false")})
               [] v.k = "null"   -> Anc(v.pos, {TxtA("null")})
               [] v.k = "var"    -> Anc(v.pos, {TxtA("$")})
               [] v.k = "list"   -> Anc(v.pos, {TxtA("[")}) \o Cat([i \in DOMAIN v.vs |-> AValue(v.vs[i])])
               [] v.k = "object" -> Anc(v.pos, {TxtA("{")}) \o Cat([i \in DOMAIN v.fs |-> Anc(v.fs[i].pos, {TxtA(v.fs[i].name)}) \o AValue(v.fs[i].v)])
AArgs(a) == Cat([i \in DOMAIN a |-> Anc(a[i].pos, {TxtA(a[i].name)}) \o AValue(a[i].v)])
ADirs(d) == Cat([i \in DOMAIN d |-> Anc(d[i].pos, {TxtA("@")}) \o AArgs(d[i].args)])
RECURSIVE ASel(_)
ASel(s) == Cat([i \in DOMAIN s |->
  CASE s[i].k = "field" -> (IF s[i].hasAlias THEN Anc(s[i].aliasPos, {TxtA(s[i].alias)}) ELSE <<>>)
                           \o Anc(s[i].pos, {TxtA(s[i].name)} \cup (IF s[i].hasAlias THEN {TxtA(s[i].alias)} ELSE {}))
                           \o AArgs(s[i].args) \o ADirs(s[i].dirs) \o (IF s[i].hasSel THEN ASel(s[i].sel) ELSE <<>>)
    [] s[i].k = "spread" -> Anc(s[i].pos, {TxtA("...")}) \o Anc(s[i].namePos, {TxtA(s[i].name)}) \o ADirs(s[i].dirs)
    [] s[i].k = "inline" -> Anc(s[i].pos, {TxtA("...")}) \o (IF s[i].hasOn THEN Anc(s[i].onPos, {TxtA(s[i].on)}) ELSE <<>>)
                            \o ADirs(s[i].dirs) \o ASel(s[i].sel)])
AVars(vs) == Cat([i \in DOMAIN vs |-> Anc(vs[i].pos, {TxtA("$")}) \o AType(vs[i].type)
                                     \o (IF vs[i].hasDefault THEN AValue(vs[i].default) ELSE <<>>) \o ADirs(vs[i].dirs)])
AExecDef(d) ==
  CASE d.k = "op" -> Anc(d.pos, {TxtA(d.opType), TxtA("{")}) \o (IF d.hasName THEN Anc(d.namePos, {TxtA(d.name)}) ELSE <<>>)
                     \o AVars(d.vars) \o ADirs(d.dirs) \o ASel(d.sel)
    [] d.k = "frag" -> Anc(d.pos, {TxtA("fragment")}) \o Anc(d.namePos, {TxtA(d.name)}) \o Anc(d.onPos, {TxtA(d.on)})
                       \o ADirs(d.dirs) \o ASel(d.sel)
    [] d.k = "import" -> <<>>
AnchorsOp(doc) == Cat([i \in DOMAIN doc.defs |-> AExecDef(doc.defs[i])])

ADesc(d) == IF d.has THEN Anc(d.pos, {StrA(d.cp)}) ELSE <<>>
AInputValues(vs) == Cat([i \in DOMAIN vs |-> ADesc(vs[i].desc)
                           \o Anc(vs[i].pos, {TxtA(vs[i].name)} \cup (IF vs[i].desc.has THEN {StrA(vs[i].desc.cp)} ELSE {}))
                           \o AType(vs[i].type) \o (IF vs[i].hasDefault THEN AValue(vs[i].default) ELSE <<>>) \o ADirs(vs[i].dirs)])
DescAlt(d) == IF d.k # "directive" /\ d.ext THEN {} ELSE IF d.desc.has THEN {StrA(d.desc.cp)} ELSE {}
ATsDef(d) ==
  (IF d.k # "directive" /\ d.ext THEN <<>> ELSE ADesc(d.desc))
  \o Anc(d.pos, {TxtA(KeywordOf(d.k)), TxtA("extend")} \cup DescAlt(d))
  \o CASE d.k = "schema" -> ADirs(d.dirs) \o Cat([i \in DOMAIN d.ops |-> Anc(d.ops[i].pos, {TxtA(d.ops[i].op), TxtA(d.ops[i].type)})])
       [] d.k = "directive" -> Anc(d.namePos, {TxtA(d.name)}) \o AInputValues(d.args)
                               \o Cat([i \in DOMAIN d.locations |-> Anc(d.locations[i].pos, {TxtA(d.locations[i].n)})])
       [] OTHER -> Anc(d.namePos, {TxtA(d.name)})
                   \o Cat([i \in DOMAIN d.interfaces |-> Anc(d.interfaces[i].pos, {TxtA(d.interfaces[i].n)})])
                   \o ADirs(d.dirs)
                   \o Cat([i \in DOMAIN d.fields |-> ADesc(d.fields[i].desc)
                             \o Anc(d.fields[i].pos, {TxtA(d.fields[i].name)} \cup (IF d.fields[i].desc.has THEN {StrA(d.fields[i].desc.cp)} ELSE {}))
                             \o AInputValues(d.fields[i].args) \o AType(d.fields[i].type) \o ADirs(d.fields[i].dirs)])
                   \o Cat([i \in DOMAIN d.members |-> Anc(d.members[i].pos, {TxtA(d.members[i].n)})])
                   \o Cat([i \in DOMAIN d.values |-> ADesc(d.values[i].desc)
                             \o Anc(d.values[i].pos, {TxtA(d.values[i].name)} \cup (IF d.values[i].desc.has THEN {StrA(d.values[i].desc.cp)} ELSE {}))
                             \o ADirs(d.values[i].dirs)])
                   \o AInputValues(d.inputFields)
AnchorsTs(doc) == Cat([i \in DOMAIN doc.defs |-> ATsDef(doc.defs[i])])

(* an anchor is good if some token starts exactly there and is one of the allowed tokens *)
AnchorOK(a, toks, tab) ==
  \E k \in DOMAIN toks : toks[k].line = a.line /\ toks[k].col = a.col /\ \E f \in a.alts : TokMatches(toks[k], f, tab)
BadAnchors(as, toks, tab) == {i \in DOMAIN as : ~AnchorOK(as[i], toks, tab)}
Before(a, b) == a.line < b.line \/ (a.line = b.line /\ a.col <= b.col)
OutOfOrder(as) == {i \in 2..Len(as) : ~Before(as[i - 1], as[i])}

(* ---- narrow classes for known findings -------------------------------- *)
RawInner(text) == SubSeq(text, 4, Len(text) - 3)          \* what is between the triple quotes, verbatim
(* the parsed document is the denoted one except that every block string carries its raw text *)
Unhint(doc) == [defs |-> [i \in DOMAIN doc.defs |->
                  [x \in DOMAIN doc.defs[i] \ {"leadingAmp", "leadingPipe"} |-> doc.defs[i][x]]]]
OnlyBlockStringsRaw(parsed, A, toks, kind) ==
  LET fp == IF kind = "op" THEN FlattenOpDoc(parsed) ELSE FlattenTsDoc(parsed)
      fa == IF kind = "op" THEN FlattenOpDoc(A) ELSE FlattenTsDoc(Unhint(A))
      strs == SelectSeq(toks, IsStr)
      ps == SelectSeq(fp, LAMBDA f : f.k = "s")
  IN /\ Len(fp) = Len(fa)
     /\ \E i \in DOMAIN toks : toks[i].k = "block"
     /\ \A i \in DOMAIN fa : IF fa[i].k = "t" THEN fp[i] = fa[i] ELSE fp[i].k = "s"
     /\ Len(ps) = Len(strs)
     /\ \A i \in DOMAIN ps : ps[i].val = (IF strs[i].k = "block" THEN RawInner(strs[i].text) ELSE strs[i].val)
     /\ (kind = "op" => [i \in DOMAIN parsed.defs |-> parsed.defs[i].k] = [i \in DOMAIN A.defs |-> A.defs[i].k])
HasLoneCR(cp) == \E i \in DOMAIN cp : cp[i] = 13 /\ (i = Len(cp) \/ cp[i + 1] # 10)

Item(cls, what, e, more) == [cls |-> cls, what |-> what, l |-> l, kind |-> e.kind, text |-> e.cp, out |-> e.out, detail |-> more]
Stat(s) == PrintT(<<"STAT", ToJson([discard |-> s, l |-> l])>>)

TParse ==
  /\ IsEvent("Parse")
  /\ LET e == Rec[l]
         tab == TabOf(e)
         lx == Lex(e.cp)
         flat == IF e.kind = "op" THEN FlattenOpDoc(e.A) ELSE FlattenTsDoc(e.A)
     IN IF ~lx.ok THEN Stat("text-does-not-lex")
        ELSE IF ~Denotes(lx.toks, flat, tab) THEN Stat("text-does-not-denote-A")
        ELSE LET items ==
               IF e.out.k = "panic" THEN <<Item("panic", "parser panicked on a document of the language", e, e.out.msg)>>
               ELSE IF e.out.k = "err" THEN <<Item("rejected", "parser rejected a document of the language", e, e.out.msg)>>
               ELSE LET parsed == e.out.doc
                        same == IF e.kind = "op" THEN NOpDoc(parsed) = NOpDoc(e.A) ELSE NTsDoc(parsed) = NTsDoc(e.A)
                        as == IF e.kind = "op" THEN AnchorsOp(parsed) ELSE AnchorsTs(parsed)
                        bad == BadAnchors(as, lx.toks, tab)
                        ooo == OutOfOrder(as)
                    IN (IF same THEN <<>>
                        ELSE IF OnlyBlockStringsRaw(parsed, e.A, lx.toks, e.kind)
                        THEN <<Item("block-string-raw", "block string returned raw (BlockStringValue not applied)", e, [n |-> 0])>>
                        ELSE <<Item("structure", "parsed document differs from the document the text denotes", e,
                                    [expected |-> IF e.kind = "op" THEN NOpDoc(e.A) ELSE NTsDoc(e.A)])>>)
                       \o (IF bad = {} THEN <<>>
                           ELSE IF HasLoneCR(e.cp)
                           THEN <<Item("position-lone-cr", "lines are not counted at a lone CR", e, [anchors |-> [i \in bad |-> as[i]]])>>
                           ELSE <<Item("position", "a reported position is not the start of its token", e,
                                                      [anchors |-> [i \in bad |-> as[i]]])>>)
                       \o (IF ooo = {} \/ bad # {} THEN <<>> ELSE <<Item("position-order", "reported positions are not in document order", e,
                                                      [anchors |-> [i \in ooo |-> as[i]]])>>)
             IN \A i \in DOMAIN items : PrintT(<<"ITEM", ToJson(items[i])>>)

Init == l = 1
Next == TParse
Spec == Init /\ [][Next]_l
Done == PrintT(<<"DONE", ToJson([consumed |-> TLCGet("stats").diameter - 1])>>)
=============================================================================
