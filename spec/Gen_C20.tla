------------------------------ MODULE Gen_C20 ------------------------------
(* spec -> impl: TLC enumerates every ordered pair of file paths up to     *)
(* MaxDepth; one CASE line per state, with the reference answers where the *)
(* answer is a function of the input (normalize, resolve).                 *)
EXTENDS Paths, TLC, Json
CONSTANTS Comps, MaxDepth
VARIABLES a, b

Universe == {p \in SeqsUpTo(Comps, MaxDepth) : IsFilePath(p)}
Init == a \in Universe /\ b \in Universe
Next == UNCHANGED <<a, b>>

RelCases == {<<Dot>> \o b, <<DotDot>> \o b}
Emit == PrintT(<<"CASE", ToJson([a |-> a, b |-> b, inDomain |-> PairInDomain(a, b),
                                 normA |-> Normalize(a),
                                 rels |-> SetToSeq({r \in RelCases : ~ClimbsAboveRoot(Dir(a) \o r)})])>>)
=============================================================================
