----------------------------- MODULE SourceMap -----------------------------
(***************************************************************************)
(* Source Map v3 "mappings": base64 VLQ decoding and relative-field        *)
(* accumulation (properties C06, C14).  The mappings string travels as a   *)
(* sequence of code points.                                                *)
(***************************************************************************)
EXTENDS Naturals, Integers, Sequences, FiniteSets

(* A-Z a-z 0-9 + /  ->  0..63 ; anything else -1 *)
B64(c) == IF c >= 65 /\ c <= 90 THEN c - 65
          ELSE IF c >= 97 /\ c <= 122 THEN c - 71
          ELSE IF c >= 48 /\ c <= 57 THEN c + 4
          ELSE IF c = 43 THEN 62 ELSE IF c = 47 THEN 63 ELSE -1

Pow2(n) == CASE n = 0 -> 1 [] n = 1 -> 2 [] n = 2 -> 4 [] n = 3 -> 8 [] n = 4 -> 16 [] n = 5 -> 32 [] n = 9 -> 512
             [] n = 14 -> 16384 [] n = 19 -> 524288 [] n = 24 -> 16777216 [] n = 29 -> 536870912 [] OTHER -> 0

(* Decode the VLQ numbers of one segment.  digits: sequence of 0..63.      *)
(* Result [ok, vals].  First digit: bit0 = sign, bits1-4 = value, bit5 =   *)
(* continuation; following digits: bits0-4 value, bit5 continuation.       *)
RECURSIVE VlqDecode(_, _, _, _, _, _)
VlqDecode(ds, i, acc, shift, neg, out) ==
  IF i > Len(ds)
  THEN [ok |-> shift = 0, vals |-> out]                    \* a number must not be cut short
  ELSE LET d == ds[i]
           cont == d >= 32
           bits == IF shift = 0 THEN (d % 32) \div 2 ELSE d % 32
           sgn == IF shift = 0 THEN (d % 2 = 1) ELSE neg
           acc2 == IF shift > 29 THEN acc ELSE acc + bits * Pow2(shift)
           shift2 == IF shift = 0 THEN 4 ELSE shift + 5
       IN IF d < 0 THEN [ok |-> FALSE, vals |-> out]
          ELSE IF cont THEN VlqDecode(ds, i + 1, acc2, shift2, sgn, out)
          ELSE VlqDecode(ds, i + 1, 0, 0, FALSE, Append(out, IF sgn THEN 0 - acc2 ELSE acc2))
DecodeSegment(ds) == VlqDecode(ds, 1, 0, 0, FALSE, <<>>)

(* reference encoder, for the model-level round trip *)
RECURSIVE VlqRest(_)
VlqRest(v) == IF v = 0 THEN <<>> ELSE LET d == v % 32 r == v \div 32 IN <<IF r > 0 THEN d + 32 ELSE d>> \o VlqRest(r)
VlqEncode(n) == LET a == IF n < 0 THEN 0 - n ELSE n
                    s == IF n < 0 THEN 1 ELSE 0
                    first == s + 2 * (a % 16)
                    r == a \div 16
                IN IF r = 0 THEN <<first>> ELSE <<first + 32>> \o VlqRest(r)

SEMI == 59  COMMA == 44

(* split code points at `sep` *)
RECURSIVE SplitAt(_, _, _, _)
SplitAt(s, sep, cur, out) ==
  IF s = <<>> THEN Append(out, cur)
  ELSE IF Head(s) = sep THEN SplitAt(Tail(s), sep, <<>>, Append(out, cur))
  ELSE SplitAt(Tail(s), sep, Append(cur, Head(s)), out)

(* Decoded, absolute segments.                                             *)
(* state carried across the whole map: src, origLine, origCol, name;       *)
(* genCol is reset at every line.                                          *)
RECURSIVE DecodeLine(_, _, _, _, _)   \* segs (seq of digit seqs), i, genCol, st, out
DecodeLine(segs, i, genCol, st, out) ==
  IF i > Len(segs) THEN [ok |-> TRUE, st |-> st, segs |-> out, why |-> "ok"]
  ELSE IF segs[i] = <<>> THEN
       \* an empty segment (",," or a leading ",") is not a segment at all
       [ok |-> FALSE, st |-> st, segs |-> out, why |-> "empty segment"]
  ELSE LET d == DecodeSegment([k \in DOMAIN segs[i] |-> B64(segs[i][k])]) IN
       IF ~d.ok THEN [ok |-> FALSE, st |-> st, segs |-> out, why |-> "bad VLQ"]
       ELSE IF Len(d.vals) \notin {1, 4, 5} THEN [ok |-> FALSE, st |-> st, segs |-> out, why |-> "segment with 2, 3 or > 5 fields"]
       ELSE LET gc == genCol + d.vals[1] IN
            IF Len(d.vals) = 1 THEN DecodeLine(segs, i + 1, gc, st, Append(out, [genCol |-> gc, n |-> 1, src |-> -1, line |-> -1, col |-> -1, name |-> -1]))
            ELSE LET st2 == [src |-> st.src + d.vals[2], line |-> st.line + d.vals[3], col |-> st.col + d.vals[4],
                             name |-> IF Len(d.vals) = 5 THEN st.name + d.vals[5] ELSE st.name]
                 IN DecodeLine(segs, i + 1, gc, st2,
                               Append(out, [genCol |-> gc, n |-> Len(d.vals), src |-> st2.src, line |-> st2.line, col |-> st2.col,
                                            name |-> IF Len(d.vals) = 5 THEN st2.name ELSE -1]))

RECURSIVE DecodeLines(_, _, _, _)     \* lines (seq of code point seqs), i, st, out (seq of seq of segments)
DecodeLines(lines, i, st, out) ==
  IF i > Len(lines) THEN [ok |-> TRUE, lines |-> out, why |-> "ok"]
  ELSE IF lines[i] = <<>> THEN DecodeLines(lines, i + 1, st, Append(out, <<>>))
  ELSE LET r == DecodeLine(SplitAt(lines[i], COMMA, <<>>, <<>>), 1, 0, st, <<>>) IN
       IF ~r.ok THEN [ok |-> FALSE, lines |-> out, why |-> r.why]
       ELSE DecodeLines(lines, i + 1, r.st, Append(out, r.segs))

DecodeMappings(cp) == DecodeLines(SplitAt(cp, SEMI, <<>>, <<>>), 1, [src |-> 0, line |-> 0, col |-> 0, name |-> 0], <<>>)

(* segments (0-based generated line g) whose generated column is c *)
SegmentsAt(dec, g, c) == IF g + 1 \in DOMAIN dec.lines
                         THEN {dec.lines[g + 1][k] : k \in {j \in DOMAIN dec.lines[g + 1] : dec.lines[g + 1][j].genCol = c}}
                         ELSE {}
=============================================================================
