----------------------------- MODULE Trace_C17 -----------------------------
(***************************************************************************)
(* impl -> spec for C17.  The pipeline model (Nitrogql.tla) is a function  *)
(* of the project alone: nothing in it depends on a hash seed, a run       *)
(* number or the order of schema definitions.  This trace spec enforces    *)
(* exactly that on observed executions: all runs of one project (fresh CLI *)
(* processes, in-process library route) agree byte for byte, and permuted  *)
(* arrangements of the schema definitions give the same verdict and the    *)
(* same exported types up to order.                                        *)
(***************************************************************************)
EXTENDS TsNorm, Naturals, TLC, Json, IOUtils
Rec == ndJsonDeserialize(IOEnv.TRACE)
VARIABLES l, firstRun, firstPerm     \* group -> first observation
IsEvent(k) == l <= Len(Rec) /\ Rec[l].ev = k /\ l' = l + 1
Emit(its) == \A i \in DOMAIN its : PrintT(<<"ITEM", ToJson(its[i])>>)
Ext(f, k, v) == [x \in DOMAIN f \cup {k} |-> IF x = k THEN v ELSE f[x]]
OutSet(o) == {[name |-> o[i].name, digest |-> o[i].digest] : i \in DOMAIN o}
BodyOf(o, n) == {o[i].bodyDigest : i \in {j \in DOMAIN o : o[j].name = n}}

TRun ==
  /\ IsEvent("Run")
  /\ LET e == Rec[l] IN
     IF e.panicked THEN Emit(<<[cls |-> "panic", what |-> "generate panicked", l |-> l, group |-> e.group]>>) /\ UNCHANGED <<firstRun, firstPerm>>
     ELSE IF e.group \notin DOMAIN firstRun THEN firstRun' = Ext(firstRun, e.group, e) /\ UNCHANGED firstPerm
     ELSE LET f == firstRun[e.group] IN
          /\ UNCHANGED <<firstRun, firstPerm>>
          /\ Emit((IF OutSet(e.outputs) = OutSet(f.outputs) THEN <<>>
                   ELSE <<[cls |-> "nondeterministic-output", what |-> "two runs of the same project wrote different bytes", l |-> l, group |-> e.group,
                           differing |-> {o.name : o \in (OutSet(e.outputs) \ OutSet(f.outputs)) \cup (OutSet(f.outputs) \ OutSet(e.outputs))}]>>)
                  \o (IF e.stdout = f.stdout /\ e.exit = f.exit THEN <<>>
                      ELSE <<[cls |-> "nondeterministic-diagnostics", what |-> "two runs of the same project printed different diagnostics / status", l |-> l, group |-> e.group]>>))

TLib ==
  /\ IsEvent("Lib") /\ UNCHANGED <<firstRun, firstPerm>>
  /\ LET e == Rec[l] IN
     IF e.group \notin DOMAIN firstRun THEN TRUE
     ELSE IF e.lib.k # "ok" THEN Emit(<<[cls |-> "library-route-failed", what |-> "the library entry points failed where the CLI succeeded", l |-> l, lib |-> e.lib]>>)
     ELSE LET f == firstRun[e.group]
              bad == {i \in DOMAIN e.lib.outputs : BodyOf(f.outputs, e.lib.outputs[i].name) # {e.lib.outputs[i].bodyDigest}}
          IN IF bad = {} THEN TRUE
             ELSE Emit(<<[cls |-> "library-differs-from-cli", what |-> "library entry points produce different bytes than the CLI", l |-> l,
                          files |-> {e.lib.outputs[i].name : i \in bad}]>>)

TPerm ==
  /\ IsEvent("Perm")
  /\ LET e == Rec[l] IN
     IF e.unreadable # <<>> THEN Emit(<<[cls |-> "unreadable", what |-> "generated declaration file is outside the emitted TS subset", l |-> l, detail |-> e.unreadable]>>) /\ UNCHANGED <<firstRun, firstPerm>>
     ELSE IF e.group \notin DOMAIN firstPerm THEN firstPerm' = Ext(firstPerm, e.group, e) /\ UNCHANGED firstRun
     ELSE LET f == firstPerm[e.group]
              a == AliasSet(e.files) b == AliasSet(f.files) IN
          /\ UNCHANGED <<firstRun, firstPerm>>
          /\ Emit((IF e.exit = f.exit THEN <<>>
                   ELSE <<[cls |-> "verdict-depends-on-order", what |-> "reordering schema definitions changed the verdict", l |-> l, group |-> e.group, perm |-> e.perm]>>)
                  \o (IF a = b THEN <<>>
                      ELSE <<[cls |-> "types-depend-on-order", what |-> "reordering schema definitions changed the denotation of an exported type", l |-> l,
                              group |-> e.group, perm |-> e.perm, differing |-> {[file |-> x.file, name |-> x.name] : x \in (a \ b) \cup (b \ a)}]>>))

Init == l = 1 /\ firstRun = << >> /\ firstPerm = << >>
Next == TRun \/ TLib \/ TPerm
Spec == Init /\ [][Next]_<<l, firstRun, firstPerm>>
Done == PrintT(<<"DONE", ToJson([consumed |-> TLCGet("stats").diameter - 1])>>)
=============================================================================
