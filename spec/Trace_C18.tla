----------------------------- MODULE Trace_C18 -----------------------------
(***************************************************************************)
(* impl -> spec for C18: one event per run of the real nitrogql-cli on a   *)
(* materialised project.  The run is judged by Nitrogql!Expected(project)  *)
(* (the terminal state of the pipeline model, model-checked in            *)
(* MC_Nitrogql) and by the C18 clauses about where diagnostics point.      *)
(***************************************************************************)
EXTENDS PipelineTrace, Lexer, Json, IOUtils
Rec == ndJsonDeserialize(IOEnv.TRACE)
VARIABLE l
IsEvent(k) == l <= Len(Rec) /\ Rec[l].ev = k /\ l' = l + 1

ToSet(s) == {s[i] : i \in DOMAIN s}
Proj(e) == [schema |-> [i \in DOMAIN e.project.schema |-> ToSet(e.project.schema[i])],
            ops |-> [i \in DOMAIN e.project.ops |-> ToSet(e.project.ops[i])], commands |-> e.project.commands, gen |-> ToSet(e.project.gen)]

FileOf(e, f) == e.files[CHOOSE i \in DOMAIN e.files : e.files[i].id = f]
HasFile(e, f) == \E i \in DOMAIN e.files : e.files[i].id = f

(* `#import A, B from "path"` lines are comments of the lexical grammar; their own lexemes start after a blank, a comma or `#` *)
LineOf(cp, n) == LET ls == SplitLines(cp, 1, <<>>, <<>>) IN IF n + 1 \in DOMAIN ls THEN ls[n + 1] ELSE <<>>
IsImportLine(ln) == LET k == LeadingWhite(ln, 1) IN
                    Len(ln) >= k + 7 /\ SubSeq(ln, k + 1, k + 7) = <<35, 105, 109, 112, 111, 114, 116>>
ImportLexemeStart(ln, col) == col + 1 \in DOMAIN ln /\ ~IsWhite(ln[col + 1]) /\ ln[col + 1] # 44
                              /\ (col = 0 \/ IsWhite(ln[col]) \/ ln[col] = 44 \/ ln[col] = 35)

(* a diagnostic position must be the start of a token of that file, or lie at/after its end *)
PosOK(e, d) ==
  LET cp == FileOf(e, d.file).cp lx == Lex(cp) ln == LineOf(cp, d.line) IN
  ~lx.ok \/ TokenAt(lx.toks, d.line, d.col) # {}
         \/ (IsImportLine(ln) /\ ImportLexemeStart(ln, d.col))
         \/ \A k \in DOMAIN lx.toks : lx.toks[k].line < d.line \/ (lx.toks[k].line = d.line /\ lx.toks[k].col < d.col)

Item(cls, what, e, more) == [cls |-> cls, what |-> what, l |-> l, project |-> e.project, format |-> e.format, obs |-> e.obs, detail |-> more]

Judge(e) ==
  LET p == Proj(e)
      x == Expected(p)
      o == e.obs
      located == SelectSeq(o.diags, LAMBDA d : d.hasFile)
      namedFiles == {located[i].file : i \in DOMAIN located}
      wr == ToSet(o.written) li == ToSet(o.listed)
      machine == e.format \in {"json", "rdjson"}
  IN (IF o.panicked THEN <<Item("panic", "the CLI panicked", e, 0)>> ELSE <<>>)
  \o (IF ~o.panicked /\ o.exit # x.exit THEN <<Item("exit-status", "exit status does not match: 0 iff no diagnostic", e, x)>> ELSE <<>>)
  \o (IF machine /\ ~o.panicked /\ ~o.oneJson THEN <<Item("stdout-not-json", "stdout is not one well-formed JSON document", e, 0)>> ELSE <<>>)
  \o (IF ~o.panicked /\ x.exit = 1 /\ x.some # {} /\ namedFiles \cap x.some = {}
      THEN <<Item(IF e.format = "rdjson" /\ x.failing \in {"schemaParse", "opsParse"} THEN "rdjson-drops-command-error" ELSE "fault-not-located",
                  "no diagnostic locates a fault by file, line and column", e, x)>> ELSE <<>>)
  \o (IF ~o.panicked /\ x.exit = 1 /\ x.all /\ namedFiles \cap x.some # {} /\ ~(x.some \subseteq namedFiles)
      THEN <<Item("offending-file-not-named", "an offending file of the failing stage is named by no diagnostic", e, x.some \ namedFiles)>> ELSE <<>>)
  \o (IF \E i \in DOMAIN located : ~HasFile(e, located[i].file)
      THEN <<Item("diagnostic-names-unknown-file", "a diagnostic names a file that is not an input of the project", e, 0)>> ELSE <<>>)
  \o (IF \E i \in DOMAIN located : HasFile(e, located[i].file) /\ located[i].fileType # "" /\ located[i].fileType # located[i].file[1]
      THEN <<Item("diagnostic-wrong-kind", "a diagnostic carries the wrong file kind", e, 0)>> ELSE <<>>)
  \o (IF \E i \in DOMAIN located : HasFile(e, located[i].file) /\ ~PosOK(e, located[i])
      THEN <<Item("diagnostic-not-at-token", "a diagnostic position is not the start of a token of the named file", e,
                  SelectSeq(located, LAMBDA d : HasFile(e, d.file) /\ ~PosOK(e, d)))>> ELSE <<>>)
  \o (IF \E i \in DOMAIN located : HasFile(e, located[i].file) /\ ~(located[i].file \in x.some) /\ x.some # {}
         /\ (IF located[i].file[1] = "schema" THEN p.schema[located[i].file[2]] = {} ELSE p.ops[located[i].file[2]] = {})
      THEN <<Item("diagnostic-on-faultless-file", "a diagnostic is located in a file that has no fault", e, 0)>> ELSE <<>>)
  \o (IF ~o.panicked /\ wr # x.writes THEN <<Item("written-files", "files written differ from what the pipeline writes for this project", e, [expected |-> x.writes])>> ELSE <<>>)
  \o (IF ~o.panicked /\ machine /\ e.format = "json" /\ li # wr THEN <<Item("listed-files", "generate does not list exactly the files it wrote", e, 0)>> ELSE <<>>)
  \o (IF o.panicked \/ e.stages = <<>> THEN <<>>
      ELSE LET r == Replay(p, e.stages, 1, S0) IN
           IF r.ok THEN <<>> ELSE <<Item("stage-trace", "the recorded stages of the run are not a behaviour of the pipeline specification", e,
                                         [at |-> r.at, why |-> r.why, event |-> IF r.at \in DOMAIN e.stages THEN e.stages[r.at] ELSE [stage |-> "end"]])>>)
  \o (IF o.otherChanges # <<>> THEN <<Item("project-changed", "something else in the project directory changed", e, o.otherChanges)>> ELSE <<>>)
  (* a SECOND run in the same directory after some outputs of the first were deleted: same status, every listed file exists afterwards, *)
  (* nothing is changed that is not listed                                                                                              *)
  \o (IF ~o.second.ran \/ o.panicked THEN <<>>
      ELSE (IF o.second.panicked THEN <<Item("panic", "the CLI panicked on the second run", e, 0)>> ELSE <<>>)
           \o (IF ~o.second.panicked /\ o.second.exit # o.exit THEN <<Item("second-run-status", "a second run on the same project ends with another status", e, o.second.exit)>> ELSE <<>>)
           \o (IF ~o.second.panicked /\ e.format = "json" /\ ~(ToSet(o.second.listed) \subseteq ToSet(o.second.exists))
               THEN <<Item("listed-file-missing", "generate lists a file that does not exist after the run", e, ToSet(o.second.listed) \ ToSet(o.second.exists))>> ELSE <<>>)
           \o (IF ~o.second.panicked /\ ~(x.writes \subseteq ToSet(o.second.exists)) /\ x.exit = 0
               THEN <<Item("output-missing-after-rerun", "an output of the project does not exist after the second run", e, x.writes \ ToSet(o.second.exists))>> ELSE <<>>)
           \o (IF ~o.second.panicked /\ e.format = "json" /\ ~(ToSet(o.second.changed) \subseteq ToSet(o.second.listed))
               THEN <<Item("changed-not-listed", "the second run changed a file it does not list", e, 0)>> ELSE <<>>))

TRun == /\ IsEvent("CliRun")
        /\ LET its == Judge(Rec[l]) IN \A i \in DOMAIN its : PrintT(<<"ITEM", ToJson(its[i])>>)
        /\ PrintT(<<"STAT", ToJson([l |-> l, stages |-> Len(Rec[l].stages), panicked |-> Rec[l].obs.panicked])>>)
        /\ UNCHANGED vars
Init == l = 1 /\ PInit({[schema |-> <<{}>>, ops |-> <<{}>>, commands |-> <<"check">>, gen |-> {}]})
Next == TRun
Spec == Init /\ [][Next]_<<l, vars>>
Done == PrintT(<<"DONE", ToJson([consumed |-> TLCGet("stats").diameter - 1])>>)
=============================================================================
