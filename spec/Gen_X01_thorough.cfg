CONSTANTS
  Full = TRUE
INIT Init
NEXT Next
INVARIANT Emit
CHECK_DEADLOCK FALSE
