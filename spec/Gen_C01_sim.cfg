CONSTANTS
  MaxNodes = 6
  Conds = {"none", "skipA", "includeA", "includeB", "skipTrue", "includeFalse", "includeAskipB", "skipAincludeA"}
  Aliases = {"", "x"}
INIT Init
NEXT Next
INVARIANT Emit
CHECK_DEADLOCK FALSE
